"""C08 — BIP32 derivation (public/private consistency, composition), xkey codec incl. SLIP-132
versions, xpub blinding."""
import hashlib
import hmac as _hmac
from io import BytesIO

import gen_coq_c08

# keep coq/Generated/HdVersions.v equal to the tables of hd.py (idempotent; before the proof gate runs)
gen_coq_c08.main()

from buidl import hd, blinding, helper  # noqa: E402
from buidl.ecc import PrivateKey, S256Point  # noqa: E402
from buidl.hd import HDPrivateKey, HDPublicKey  # noqa: E402
from vp.sexp import ERR  # noqa: E402,F401

PID = "C08"
NETS = ["mainnet", "testnet", "signet", "regtest"]
BUDGET_S = {"quick": 420, "thorough": 2400}
RULE = ("Seeds of 16..64 bytes (every length in the quick tier's sweep at least once in the thorough tier); "
        "indexes 0, 1, 2^31-1, 2^31, 2^32-1 plus random, and -1 / 2^32 on the refusal side; paths up to depth 8 in "
        "' / h / H notation with m / M; all four networks and all 20 SLIP-132 prefixes; malformed xkeys by "
        "truncation, byte flips, unknown versions, bad key prefix bytes; extended-key STRINGS (xprv()/xpub()/parse(), "
        "modelled in Model/HdStr.v over the Base58Check model of C09) for all 20 prefixes and malformed by one "
        "character changed / inserted / dropped / appended, transposition, a leading '1', altered check bytes, "
        "altered payload under the old check bytes, well-checksummed payloads of 0, 77, 79, 80 bytes; path text fuzz (signs, underscores, "
        "whitespace, empty components, '//') through the real traverse() loops with a recording stub key; components of "
        "4299..5000 digit characters (CPython's int() limit of 4300); the six spellings (m|M) x ('|h|H) of index lists "
        "up to 256 long incl. the boundary indexes; secure_secret_path for depths -1..100 with chosen randbelow results; "
        "get_private_key's f-string incl. negative / >= 2^31 account and address numbers; seeds of 0, 1, 15, 65, 128, "
        "1000 bytes (no length check in the code); depth 255 -> 256; blind_xpub with 'm' as starting or secret path; "
        "the 78-byte header with every field at its special values independently of the others (depth 0/1/255 x parent "
        "fingerprint 00000000/ffffffff/random x child number 0/2^31-1/2^31/2^32-1 x chain code 00..00/ff..ff/random x "
        "key 1/n-1/random), written by an independent Base58Check encoder: parse / raw_parse(network) -> print under all "
        "20 prefixes, and child derivation (public, private, hardened) and blind_xpub starting from the PARSED keys; "
        "the entry points most callers bypass, each with its optional arguments passed positionally, by keyword and "
        "omitted one by one: from_mnemonic / generate / from_shares (12..24-word sentences from an independent BIP39 "
        "encoder, PBKDF2 from hashlib; secure_mnemonic and ShareSet.recover_mnemonic replaced by recorders), from_seed, "
        "both constructors called directly, the ten get_* address / private-key helpers and get_private_key (argument "
        "plumbing with a recording self; end to end against reference base58 / bech32 / bech32m encoders on all four "
        "networks), generate_p2wsh_key_record, repr / sec / hash160 / address pass-throughs, raw_parse on a stream holding "
        "two keys, secure_secret_path(); paths with exactly one component (not) hardened at every position; children, "
        "grandchildren, traversals and parsed twins re-observed after later derivations and after in-place edits of their "
        "source, of a sibling and of a parsed copy; get_unhardened_child_path incl. bases that end inside a component.")
TRUSTED = ["hashlib/hmac (HMAC-SHA512, SHA256, RIPEMD160): universally quantified functions in the theorems",
           "group laws of secp256k1 (record scalar_laws of Proofs/GroupHyp.v): explicit hypothesis of the "
           "derivation theorems, discharged on the toy curve"]
# One secp256k1 scalar multiplication does not finish under vm_compute inside Coq (measured: > 5 min), so the
# extraction self-check is restricted to the entry points without one: the path text functions and the
# public-key side of the codec and of the string layer (Base58Check and the 78-byte parser inside Coq).
VM_SKIP = {"from_seed", "child_priv", "child_pub", "pub_of", "traverse_priv", "traverse_pub", "xprv_raw",
           "parse_priv", "raw_parse_priv", "blind_xpub", "xprv_str", "parse_priv_str",
           "spec_ckd_priv", "spec_ckd_pub", "spec_master", "spec_tree", "spec_tree_pub",
           "get_private_key"}

ASSUMPTIONS = ["path text is ASCII (str.lower/strip/int of non-ASCII letters, spaces and digits are not modelled)",
               "BIP32's 'IL >= n or child key 0/infinity' event (probability about 2^-127 per derivation) does "
               "not occur: hypothesis of ckd_eq_bip32; no input exhibiting it is known"]

N = 0xFFFFFFFFFFFFFFFFFFFFFFFFFFFFFFFEBAAEDCE6AF48A03BBFD25E8CD0364141
H31 = 2 ** 31

ALL_PRV = sorted(hd.ALL_MAINNET_XPRVS) + sorted(hd.ALL_TESTNET_XPRVS)
ALL_PUB = sorted(hd.ALL_MAINNET_XPUBS) + sorted(hd.ALL_TESTNET_XPUBS)

# ------------------------------------------------------------------ conversions


def _netname(i):
    return NETS[i] if 0 <= i < 4 else "net%d" % i


def _netidx(name):
    return NETS.index(name) if name in NETS else int(name[3:])


def _opt(v):
    return None if v == [] else v


def _mkpriv(a):
    secret, cc, depth, pfp, num, net, ver, pubver = a
    return HDPrivateKey(PrivateKey(secret), cc, depth, pfp, num, _netname(net), priv_version=ver, pub_version=pubver)


def _mkpub(a):
    pt, cc, depth, pfp, num, net, ver = a
    point = S256Point(None, None) if pt == [] else S256Point(pt[0], pt[1])
    return HDPublicKey(point, cc, depth, pfp, num, _netname(net), pub_version=ver)


def _vpoint(p):
    return [] if p.x is None else [p.x.num, p.y.num]


def _sec_or_err(p):
    try:
        return p.sec()
    except Exception:
        return ERR


def _vpriv(k):
    assert k.pub.point == k.private_key.point and k.pub.chain_code == k.chain_code and k.pub.depth == k.depth \
        and k.pub.parent_fingerprint == k.parent_fingerprint and k.pub.child_number == k.child_number \
        and k.pub.network == k.network
    return [k.private_key.secret, _sec_or_err(k.private_key.point), k.chain_code, k.depth, k.parent_fingerprint,
            k.child_number, _netidx(k.network), k.priv_version, k.pub.pub_version]


def _vpub(k):
    return [_vpoint(k.point), k.chain_code, k.depth, k.parent_fingerprint, k.child_number, _netidx(k.network),
            k.pub_version]


def _txt(b):
    return b.decode("ascii")


class _Rec:
    """stands for a key inside the real traverse() loops: records the indexes child() is called with"""

    def __init__(self, pub):
        self.acc = []
        self.pub = pub

    def child(self, index):
        self.acc.append(index)
        return self


def i_path_indexes_priv(path):
    r = _Rec(False)
    HDPrivateKey.traverse(r, _txt(path))
    return r.acc


def i_path_indexes_pub(path):
    r = _Rec(True)
    HDPublicKey.traverse(r, _txt(path))
    return r.acc


def i_xprv_raw(kv, ver):
    k = _mkpriv(kv)
    s = k.xprv(version=_opt(ver))
    raw = helper.raw_decode_base58(s)
    v = _opt(ver)
    assert raw == k.raw_serialize(k.priv_version if v is None else v)
    return raw


def i_xpub_raw(kv, ver):
    k = _mkpub(kv)
    return helper.raw_decode_base58(k.xpub(version=_opt(ver)))


def i_raw_parse_priv(raw, net):
    n = _opt(net)
    return _vpriv(HDPrivateKey.raw_parse(BytesIO(raw), network=None if n is None else _netname(n)))


def i_raw_parse_pub(raw, net):
    n = _opt(net)
    return _vpub(HDPublicKey.raw_parse(BytesIO(raw), network=None if n is None else _netname(n)))


def i_blind_xpub(raw, sp, secret):
    r = blinding.blind_xpub(helper.encode_base58_checksum(raw), _txt(sp), _txt(secret))
    return [helper.raw_decode_base58(r["blinded_child_xpub"]), r["blinded_full_path"]]


def i_spec_ckd_priv(k, c, i):
    try:
        ch = HDPrivateKey(PrivateKey(k), c).child(i)
    except Exception:
        return []
    return [[ch.private_key.secret, ch.chain_code]]


def i_spec_ckd_pub(pt, c, i):
    try:
        ch = HDPublicKey(S256Point(pt[0], pt[1]), c, 0, b"\x00" * 4, 0).child(i)
    except Exception:
        return []
    if ch.point.x is None:
        return []
    return [[_vpoint(ch.point), ch.chain_code]]


def i_spec_master(seed):
    try:
        k = HDPrivateKey.from_seed(seed)
    except Exception:
        return []
    return [[k.private_key.secret, k.chain_code]]


def i_path_text(m, mark, idxs):
    return chr(m) + "".join("/" + (str(i - H31) + chr(mark) if i >= H31 else str(i)) for i in idxs)


def i_secure_secret_path(depth, draws):
    """blinding.secure_secret_path with secrets.randbelow replaced by a reader of the given draws"""
    left = list(draws)
    asked = []

    def fake(n):
        asked.append(n)
        return left.pop(0)          # IndexError when the code asks for more draws than were given

    old_rb = blinding.randbelow
    blinding.randbelow = fake
    try:
        out = blinding.secure_secret_path(depth=depth)
    finally:
        blinding.randbelow = old_rb
    if left:
        raise ValueError("draws left over")
    assert all(n == 2 ** 31 - 1 for n in asked)
    return out


class _PathRec:
    """stands for self inside HDPrivateKey.get_private_key: records the path handed to traverse()"""

    def __init__(self, network):
        self.network = network
        self.path = None
        self.private_key = None

    def traverse(self, path):
        self.path = path
        return self


def i_get_private_key_path(purpose, net, account, ext, addr):
    r = _PathRec(_netname(net))
    HDPrivateKey.get_private_key(r, _txt(purpose), account_num=account, is_external=bool(ext), address_num=addr)
    return r.path


def i_get_private_key(kv, purpose, account, ext, addr):
    return _mkpriv(kv).get_private_key(_txt(purpose), account_num=account, is_external=bool(ext),
                                       address_num=addr).secret


def i_spec_tree(seed, idxs, v, pv):
    try:
        k = HDPrivateKey.from_seed(seed)
        for i in idxs:
            k = k.child(i)
    except Exception:
        return []
    return [[helper.raw_decode_base58(k.xprv(version=v)), helper.raw_decode_base58(k.xpub(version=pv))]]


def i_raw_serialize_history(kv, depths):
    """ONE HDPublicKey object; before each raw_serialize() call its .depth attribute is reassigned"""
    k = _mkpub(kv)
    out = []
    for d in depths:
        k.depth = d
        try:
            out.append(k.raw_serialize())
        except Exception:
            out.append(ERR)
    return out


def i_spec_tree_pub(pt, c, idxs, pv):
    try:
        k = HDPublicKey(S256Point(pt[0], pt[1]), c, 0, b"\x00" * 4, 0)
        for i in idxs:
            k = k.child(i)
            if k.point.x is None:
                return []
    except Exception:
        return []
    return [helper.raw_decode_base58(k.xpub(version=pv))]


IMPL = {
    "raw_serialize_history": i_raw_serialize_history,
    "spec_tree_pub": i_spec_tree_pub,
    "dec": lambda n: str(n),
    "path_text": i_path_text,
    "secure_secret_path": i_secure_secret_path,
    "get_private_key_path": i_get_private_key_path,
    "get_private_key": i_get_private_key,
    "spec_tree": i_spec_tree,
    "from_seed": lambda seed, net, ver, pv: _vpriv(HDPrivateKey.from_seed(seed, _netname(net), _opt(ver), _opt(pv))),
    "child_priv": lambda kv, i: _vpriv(_mkpriv(kv).child(i)),
    "child_pub": lambda kv, i: _vpub(_mkpub(kv).child(i)),
    "pub_of": lambda kv: _vpub(_mkpriv(kv).pub),
    "traverse_priv": lambda kv, p: _vpriv(_mkpriv(kv).traverse(_txt(p))),
    "traverse_pub": lambda kv, p: _vpub(_mkpub(kv).traverse(_txt(p))),
    "path_indexes_priv": i_path_indexes_priv,
    "path_indexes_pub": i_path_indexes_pub,
    "py_int": lambda s: int(_txt(s)),
    "is_valid_path": lambda p: hd.is_valid_bip32_path(_txt(p)),
    "combine_paths": lambda a, b: blinding.combine_bip32_paths(_txt(a), _txt(b)),
    "ltrim_path": lambda a, d: hd.ltrim_path(_txt(a), d),
    "xprv_raw": i_xprv_raw,
    "xpub_raw": i_xpub_raw,
    "raw_serialize_pub": lambda kv: _mkpub(kv).raw_serialize(),
    "parse_priv": lambda raw: _vpriv(HDPrivateKey.parse(helper.encode_base58_checksum(raw))),
    "parse_pub": lambda raw: _vpub(HDPublicKey.parse(helper.encode_base58_checksum(raw))),
    "raw_parse_priv": i_raw_parse_priv,
    "raw_parse_pub": i_raw_parse_pub,
    "fingerprint": lambda kv: _mkpub(kv).fingerprint(),
    "blind_xpub": i_blind_xpub,
    "xprv_str": lambda kv, ver: _mkpriv(kv).xprv(version=_opt(ver)),
    "xpub_str": lambda kv, ver: _mkpub(kv).xpub(version=_opt(ver)),
    "parse_priv_str": lambda s: _vpriv(HDPrivateKey.parse(_txt(s))),
    "parse_pub_str": lambda s: _vpub(HDPublicKey.parse(_txt(s))),
    "spec_ckd_priv": i_spec_ckd_priv,
    "spec_ckd_pub": i_spec_ckd_pub,
    "spec_master": i_spec_master,
}

# ------------------------------------------------------------------ independent BIP32 (reference)
# python ints + hmac/hashlib + Jacobian secp256k1, MSB-first double-and-add; shares no code with buidl.
_P = 2 ** 256 - 2 ** 32 - 977
_GX = 0x79BE667EF9DCBBAC55A06295CE870B07029BFCDB2DCE28D959F2815B16F81798
_GY = 0x483ADA7726A3C4655DA4FBFC0E1108A8FD17B448A68554199C47D08FFB10D4B8
_INF = (0, 1, 0)


def _jdbl(p):
    X, Y, Z = p
    if Z == 0 or Y == 0:
        return _INF
    YY = Y * Y % _P
    S = 4 * X * YY % _P
    M = 3 * X * X % _P
    X3 = (M * M - 2 * S) % _P
    return (X3, (M * (S - X3) - 8 * YY * YY) % _P, 2 * Y * Z % _P)


def _jadd(p, q):
    if p[2] == 0:
        return q
    if q[2] == 0:
        return p
    X1, Y1, Z1 = p
    X2, Y2, Z2 = q
    Z1Z1, Z2Z2 = Z1 * Z1 % _P, Z2 * Z2 % _P
    U1, U2 = X1 * Z2Z2 % _P, X2 * Z1Z1 % _P
    S1, S2 = Y1 * Z2 * Z2Z2 % _P, Y2 * Z1 * Z1Z1 % _P
    if U1 == U2:
        return _jdbl(p) if S1 == S2 else _INF
    Hh, R = (U2 - U1) % _P, (S2 - S1) % _P
    HH = Hh * Hh % _P
    HHH = Hh * HH % _P
    V = U1 * HH % _P
    X3 = (R * R - HHH - 2 * V) % _P
    return (X3, (R * (V - X3) - S1 * HHH) % _P, Hh * Z1 * Z2 % _P)


def _jmul(k, p):
    acc = _INF
    for bit in bin(k % N)[2:]:
        acc = _jdbl(acc)
        if bit == "1":
            acc = _jadd(acc, p)
    return acc


def _aff(p):
    if p[2] == 0:
        return None
    zi = pow(p[2], _P - 2, _P)
    return (p[0] * zi * zi % _P, p[1] * zi * zi * zi % _P)


def r_point(k):
    return _aff(_jmul(k, (_GX, _GY, 1)))


def r_serP(pt):
    return bytes([2 + (pt[1] & 1)]) + pt[0].to_bytes(32, "big")


def r_hash160(b):
    return hashlib.new("ripemd160", hashlib.sha256(b).digest()).digest()


def r_master(seed):
    I = _hmac.new(b"Bitcoin seed", seed, hashlib.sha512).digest()
    return int.from_bytes(I[:32], "big"), I[32:]


def r_ckd_priv(k, c, i):
    if i >= H31:
        data = b"\x00" + k.to_bytes(32, "big") + i.to_bytes(4, "big")
    else:
        data = r_serP(r_point(k)) + i.to_bytes(4, "big")
    I = _hmac.new(c, data, hashlib.sha512).digest()
    il = int.from_bytes(I[:32], "big")
    ki = (il + k) % N
    if il >= N or ki == 0:
        return None
    return ki, I[32:]


def r_ckd_pub(K, c, i):
    if i >= H31:
        return None
    I = _hmac.new(c, r_serP(K) + i.to_bytes(4, "big"), hashlib.sha512).digest()
    il = int.from_bytes(I[:32], "big")
    Ki = _aff(_jadd(_jmul(il, (_GX, _GY, 1)), (K[0], K[1], 1)))
    if il >= N or Ki is None:
        return None
    return Ki, I[32:]


_B58 = "123456789ABCDEFGHJKLMNPQRSTUVWXYZabcdefghijkmnopqrstuvwxyz"


def r_b58check(raw):
    raw += hashlib.sha256(hashlib.sha256(raw).digest()).digest()[:4]
    n = int.from_bytes(raw, "big")
    out = ""
    while n:
        n, m = divmod(n, 58)
        out = _B58[m] + out
    return "1" * (len(raw) - len(raw.lstrip(b"\x00"))) + out


def r_b58check_decode(s):
    n = 0
    for ch in s:
        n = n * 58 + _B58.index(ch)
    raw = n.to_bytes((n.bit_length() + 7) // 8, "big")
    raw = b"\x00" * (len(s) - len(s.lstrip("1"))) + raw
    if hashlib.sha256(hashlib.sha256(raw[:-4]).digest()).digest()[:4] != raw[-4:]:
        raise ValueError("checksum")
    return raw[:-4]


def r_derive(seed, idxs):
    """[(k, c, depth, parent_fp, child_number)] for every prefix of idxs"""
    k, c = r_master(seed)
    out = [(k, c, 0, b"\x00" * 4, 0)]
    for d, i in enumerate(idxs):
        fp = r_hash160(r_serP(r_point(k)))[:4]
        k, c = r_ckd_priv(k, c, i)
        out.append((k, c, d + 1, fp, i))
    return out


def r_xprv(ver, node):
    k, c, d, fp, i = node
    return r_b58check(ver + bytes([d]) + fp + i.to_bytes(4, "big") + c + b"\x00" + k.to_bytes(32, "big"))


def r_xpub(ver, node):
    k, c, d, fp, i = node
    return r_b58check(ver + bytes([d]) + fp + i.to_bytes(4, "big") + c + r_serP(r_point(k)))


# official BIP32 test vectors, written down from memory: (seed hex, [(path, xpub, xprv)]).  A string whose
# Base58Check checksum does not verify (a slip of memory) is dropped when the module is loaded, so a wrong
# recollection cannot produce a false alarm; the number that survived is reported in the evidence labels.
_VECTORS = [
    ("000102030405060708090a0b0c0d0e0f", [
        ("m", "xpub661MyMwAqRbcFtXgS5sYJABqqG9YLmC4Q1Rdap9gSE8NqtwybGhePY2gZ29ESFjqJoCu1Rupje8YtGqsefD265TMg7usUDFdp6W1EGMcet8",
         "xprv9s21ZrQH143K3QTDL4LXw2F7HEK3wJUD2nW2nRk4stbPy6cq3jPPqjiChkVvvNKmPGJxWUtg6LnF5kejMRNNU3TGtRBeJgk33yuGBxrMPHi"),
        ("m/0H", "xpub68Gmy5EdvgibQVfPdqkBBCHxA5htiqg55crXYuXoQRKfDBFA1WEjWgP6LHhwBZeNK1VTsfTFUHCdrfp1bgwQ9xv5ski8PX9rL2dZXvgGDnw",
         "xprv9uHRZZhk6KAJC1avXpDAp4MDc3sQKNxDiPvvkX8Br5ngLNv1TxvUxt4cV1rGL5hj6KCesnDYUhd7oWgT11eZG7XnxHrnYeSvkzY7d2bhkJ7"),
        ("m/0H/1", "xpub6ASuArnXKPbfEwhqN6e3mwBcDTgzisQN1wXN9BJcM47sSikHjJf3UFHKkNAWbWMiGj7Wf5uMash7SyYq527Hqck2AxYysAA7xmALppuCkwQ",
         "xprv9wTYmMFdV23N2TdNG573QoEsfRrWKQgWeibmLntzniatZvR9BmLnvSxqu53Kw1UmYPxLgboyZQaXwTCg8MSY3H2EU4pWcQDnRnrVA1xe8fs"),
        ("m/0H/1/2H", "xpub6D4BDPcP2GT577Vvch3R8wDkScZWzQzMMUm3PWbmWvVJrZwQY4VUNgqFJPMM3No2dFDFGTsxxpG5uJh7n7epu4trkrX7x7DogT5Uv6fcLW5",
         "xprv9z4pot5VBttmtdRTWfWQmoH1taj2axGVzFqSb8C9xaxKymcFzXBDptWmT7FwuEzG3ryjH4ktypQSAewRiNMjANTtpgP4mLTj34bhnZX7UiM"),
        ("m/0H/1/2H/2", "xpub6FHa3pjLCk84BayeJxFW2SP4XRrFd1JYnxeLeU8EqN3vDfZmbqBqaGJAyiLjTAwm6ZLRQUMv1ZACTj37sR62cfN7fe5JnJ7dh8zL4fiyLHV",
         "xprvA2JDeKCSNNZky6uBCviVfJSKyQ1mDYahRjijr5idH2WwLsEd4Hsb2Tyh8RfQMuPh7f7RtyzTtdrbdqqsunu5Mm3wDvUAKRHSC34sJ7in334"),
        ("m/0H/1/2H/2/1000000000", "xpub6H1LXWLaKsWFhvm6RVpEL9P4KfRZSW7abD2ttkWP3SSQvnyA8FSVqNTEcYFgJS2UaFcxupHiYkro49S8yGasTvXEYBVPamhGW6cFJodrTHy",
         "xprvA41z7zogVVwxVSgdKUHDy1SKmdb533PjDz7J6N6mV6uS3ze1ai8FHa8kmHScGpWmj4WggLyQjgPie1rFSruoUihUZREPSL39UNdE3BBDu76"),
    ]),
    ("fffcf9f6f3f0edeae7e4e1dedbd8d5d2cfccc9c6c3c0bdbab7b4b1aeaba8a5a29f9c999693908d8a8784817e7b7875726f6c696663605d5a5754514e4b484542", [
        ("m", "xpub661MyMwAqRbcFW31YEwpkMuc5THy2PSt5bDMsktWQcFF8syAmRUapSCGu8ED9W6oDMSgv6Zz8idoc4a6mr8BDzTJY47LJhkJ8UB7WEGuduB",
         "xprv9s21ZrQH143K31xYSDQpPDxsXRTUcvj2iNHm5NUtrGiGG5e2DtALGdso3pGz6ssrdK4PFmM8NSpSBHNqPqm55Qn3LqFtT2emdEXVYsCzC2U"),
        ("m/0", "xpub69H7F5d8KSRgmmdJg2KhpAK8SR3DjMwAdkxj3ZuxV27CprR9LgpeyGmXUbC6wb7ERfvrnKZjXoUmmDznezpbZb7ap6r1D3tgFxHmwMkQTPH",
         "xprv9vHkqa6EV4sPZHYqZznhT2NPtPCjKuDKGY38FBWLvgaDx45zo9WQRUT3dKYnjwih2yJD9mkrocEZXo1ex8G81dwSM1fwqWpWkeS3v86pgKt"),
        ("m/0/2147483647H", "xpub6ASAVgeehLbnwdqV6UKMHVzgqAG8Gr6riv3Fxxpj8ksbH9ebxaEyBLZ85ySDhKiLDBrQSARLq1uNRts8RuJiHjaDMBU4Zn9h8LZNnBC5y4a",
         "xprv9wSp6B7kry3Vj9m1zSnLvN3xH8RdsPP1Mh7fAaR7aRLcQMKTR2vidYEeEg2mUCTAwCd6vnxVrcjfy2kRgVsFawNzmjuHc2YmYRmagcEPdU9"),
        ("m/0/2147483647H/1", "xpub6DF8uhdarytz3FWdA8TvFSvvAh8dP3283MY7p2V4SeE2wyWmG5mg5EwVvmdMVCQcoNJxGoWaU9DCWh89LojfZ537wTfunKau47EL2dhHKon",
         "xprv9zFnWC6h2cLgpmSA46vutJzBcfJ8yaJGg8cX1e5StJh45BBciYTRXSd25UEPVuesF9yog62tGAQtHjXajPPdbRCHuWS6T8XA2ECKADdw4Ef"),
        ("m/0/2147483647H/1/2147483646H", "xpub6ERApfZwUNrhLCkDtcHTcxd75RbzS1ed54G1LkBUHQVHQKqhMkhgbmJbZRkrgZw4koxb5JaHWkY4ALHY2grBGRjaDMzQLcgJvLJuZZvRcEL",
         "xprvA1RpRA33e1JQ7ifknakTFpgNXPmW2YvmhqLQYMmrj4xJXXWYpDPS3xz7iAxn8L39njGVyuoseXzU6rcxFLJ8HFsTjSyQbLYnMpCqE2VbFWc"),
        ("m/0/2147483647H/1/2147483646H/2", "xpub6FnCn6nSzZAw5Tw7cgR9bi15UV96gLZhjDstkXXxvCLsUXBGXPdSnLFbdpq8p9HmGsApME5hQTZ3emM2rnY5agb9rXpVGyy3bdW6EEgAtqt",
         "xprvA2nrNbFZABcdryreWet9Ea4LvTJcGsqrMzxHx98MMrotbir7yrKCEXw7nadnHM8Dq38EGfSh6dqA9QWTyefMLEcBYJUuekgW4BYPJcr9E7j"),
    ]),
    ("4b381541583be4423346c643850da4b320e46a87ae3d2a4e6da11eba819cd4acba45d239319ac14f863b8d5ab5a0d0c64d2e8a1e7d1457df2e5a3c51c73235be", [
        ("m", "xpub661MyMwAqRbcEZVB4dScxMAdx6d4nFc9nvyvH3v4gJL378CSRZiYmhRoP7mBy6gSPSCYk6SzXPTf3ND1cZAceL7SfJ1Z3GC8vBgp2epUt13",
         "xprv9s21ZrQH143K25QhxbucbDDuQ4naNntJRi4KUfWT7xo4EKsHt2QJDu7KXp1A3u7Bi1j8ph3EGsZ9Xvz9dGuVrtHHs7pXeTzjuxBrCmmhgC6"),
        ("m/0H", "xpub68NZiKmJWnxxS6aaHmn81bvJeTESw724CRDs6HbuccFQN9Ku14VQrADWgqbhhTHBaohPX4CjNLf9fq9MYo6oDaPPLPxSb7gwQN3ih19Zm4Y",
         "xprv9uPDJpEQgRQfDcW7BkF7eTya6RPxXeJCqCJGHuCJ4GiRVLzkTXBAJMu2qaMWPrS7AANYqdq6vcBcBUdJCVVFceUvJFjaPdGZ2y9WACViL4L"),
    ]),
    ("3ddd5602285899a946114506157c7997e5444528f3003f6134712147db19b678", [
        ("m", "xpub661MyMwAqRbcGczjuMoRm6dXaLDEhW1u34gKenbeYqAix21mdUKJyuyu5F1rzYGVxyL6tmgBUAEPrEz92mBXjByMRiJdba9wpnN37RLLAXa",
         "xprv9s21ZrQH143K48vGoLGRPxgo2JNkJ3J3fqkirQC2zVdk5Dgd5w14S7fRDyHH4dWNHUgkvsvNDCkvAwcSHNAQwhwgNMgZhLtQC63zxwhQmRv"),
        ("m/0H", "xpub69AUMk3qDBi3uW1sXgjCmVjJ2G6WQoYSnNHyzkmdCHEhSZ4tBok37xfFEqHd2AddP56Tqp4o56AePAgCjYdvpW2PU2jbUPFKsav5ut6Ch1m",
         "xprv9vB7xEWwNp9kh1wQRfCCQMnZUEG21LpbR9NPCNN1dwhiZkjjeGRnaALmPXCX7SgjFTiCTT6bXes17boXtjq3xLpcDjzEuGLQBM5ohqkao9G"),
        ("m/0H/1H", "xpub6BJA1jSqiukeaesWfxe6sNK9CCGaujFFSJLomWHprUL9DePQ4JDkM5d88n49sMGJxrhpjazuXYWdMf17C9T5XnxkopaeS7jGk1GyyVziaMt",
         "xprv9xJocDuwtYCMNAo3Zw76WENQeAS6WGXQ55RCy7tDJ8oALr4FWkuVoHJeHVAcAqiZLE7Je3vZJHxspZdFHfnBEjHqU5hG1Jaj32dVoS6XLT1"),
    ]),
]


def _checked_vectors():
    good, dropped = [], 0
    for vi, (seed, rows) in enumerate(_VECTORS):
        for path, xpub, xprv in rows:
            for kind, s in (("pub", xpub), ("prv", xprv)):
                try:
                    raw = r_b58check_decode(s)
                    ok = len(raw) == 78
                except Exception:
                    ok = False
                if ok:
                    good.append((vi, seed, path, kind, s))
                else:
                    dropped += 1
    return good, dropped


VECTORS, VECTORS_DROPPED = _checked_vectors()

# ------------------------------------------------------------------ property predicates


def _raises(f, *a):
    try:
        f(*a)
    except Exception:
        return True
    return False


def _pubfields(k):
    return (_vpoint(k.point), k.chain_code, k.depth, k.parent_fingerprint, k.child_number, k.network, k.pub_version)


def _path_text(idxs, style=0):
    """style bits: 1 -> h instead of ', 2 -> upper case"""
    mark = "h" if style & 1 else "'"
    s = "m" + "".join("/%d%s" % (i - H31, mark) if i >= H31 else "/%d" % i for i in idxs)
    return s.upper() if style & 2 else s


def _root(seed, net, vi):
    name = NETS[net]
    if vi < 0:
        return HDPrivateKey.from_seed(seed, name)
    main = name == "mainnet"
    pv = (sorted(hd.ALL_MAINNET_XPRVS) if main else sorted(hd.ALL_TESTNET_XPRVS))[vi % 5]
    pb = (sorted(hd.ALL_MAINNET_XPUBS) if main else sorted(hd.ALL_TESTNET_XPUBS))[vi % 5]
    return HDPrivateKey.from_seed(seed, name, priv_version=pv, pub_version=pb)


def p_commute(seed, net, vi, idxs, i):
    """pub(priv.child(i)) == pub.child(i) for a non-hardened i, at the node seed/idxs"""
    k = _root(seed, net, vi)
    for j in idxs:
        k = k.child(j)
    a = k.child(i).pub
    b = k.pub.child(i)
    if _pubfields(a) != _pubfields(b):
        return f"public fields differ: {_pubfields(a)} vs {_pubfields(b)}"
    if a.xpub() != b.xpub() or a.fingerprint() != b.fingerprint():
        return "xpub/fingerprint differ"
    if k.child(i).xpub() != b.xpub():
        return "HDPrivateKey.xpub differs"
    return None


def p_refuse(seed, idx, style):
    """hardened / negative / out-of-range public derivation is refused; private one out of range too"""
    k = HDPrivateKey.from_seed(seed)
    if idx >= H31 or idx < 0:
        if not _raises(k.pub.child, idx):
            return f"HDPublicKey.child({idx}) did not raise"
    if H31 <= idx < 2 ** 32:
        path = _path_text([0, idx], style)
        if not _raises(k.pub.traverse, path):
            return f"HDPublicKey.traverse({path!r}) did not raise"
        if _raises(k.traverse, path):
            return f"HDPrivateKey.traverse({path!r}) raised"
    if idx < 0 or idx >= 2 ** 32:
        if not _raises(k.child, idx):
            return f"HDPrivateKey.child({idx}) did not raise"
    return None


def p_compose(seed, net, vi, idx1, idx2, st1, st2):
    """traverse(p1).traverse(p2) == traverse(combined) == child by child; public side when possible"""
    k = _root(seed, net, vi)
    p1, p2 = _path_text(idx1, st1), _path_text(idx2, st2)
    step = k
    for j in idx1 + idx2:
        step = step.child(j)
    two = k.traverse(p1).traverse(p2)
    comb = blinding.combine_bip32_paths(p1, p2)
    one = k.traverse(comb)
    if not (_vpriv(step) == _vpriv(two) == _vpriv(one)):
        return f"private traverse {p1!r} then {p2!r} differs from {comb!r} or from child-by-child"
    if step.xprv() != one.xprv() or step.xpub() != two.xpub():
        return "xprv/xpub strings differ"
    if comb != _path_text(idx1 + idx2, 1):
        return f"combined path {comb!r} is not the concatenation"
    if all(j < H31 for j in idx2):
        mid = k.traverse(p1).pub
        if _pubfields(mid.traverse(p2)) != _pubfields(step.pub):
            return f"public traverse {p2!r} from the node at {p1!r} differs from the private derivation"
        if all(j < H31 for j in idx1):
            if _pubfields(k.pub.traverse(comb)) != _pubfields(step.pub):
                return "public traverse of the combined path differs"
            if _pubfields(k.pub.traverse(p1).traverse(p2)) != _pubfields(step.pub):
                return "public traverse in two steps differs"
    return None


def p_case_notation(seed, idxs):
    """the four spellings of one path give one key, on the private and (if unhardened) the public side"""
    k = HDPrivateKey.from_seed(seed)
    base = _vpriv(k.traverse(_path_text(idxs, 0)))
    for st in (1, 2, 3):
        if _vpriv(k.traverse(_path_text(idxs, st))) != base:
            return f"{_path_text(idxs, st)!r} derives another private key than {_path_text(idxs, 0)!r}"
    unh = [j for j in idxs if j < H31]
    want = _pubfields(k.traverse(_path_text(unh, 0)).pub)
    for st in (0, 1, 2, 3):
        try:
            got = _pubfields(k.pub.traverse(_path_text(unh, st)))
        except Exception as e:  # noqa
            return f"HDPublicKey.traverse({_path_text(unh, st)!r}) raised {type(e).__name__} but the private side derives"
        if got != want:
            return f"HDPublicKey.traverse({_path_text(unh, st)!r}) differs from the private derivation"
    return None


def p_pub_path_same_as_priv(seed, path):
    """regression of 4a7b472: a path text the private side accepts (no hardened step) gives the same public key"""
    k = HDPrivateKey.from_seed(seed)
    path = _txt(path)
    want = _pubfields(k.traverse(path).pub)
    try:
        got = _pubfields(k.pub.traverse(path))
    except Exception as e:  # noqa
        return f"HDPublicKey.traverse({path!r}) raised {type(e).__name__}; HDPrivateKey.traverse derives a key"
    if got != want:
        return f"HDPublicKey.traverse({path!r}) differs from the public key of HDPrivateKey.traverse"
    return None


def p_vs_reference(seed, net, vi, idxs):
    """every node on the path equals the independent BIP32 implementation: secret, chain code, depth,
    parent fingerprint, child number, point, fingerprint, xprv and xpub strings"""
    k = _root(seed, net, vi)
    nodes = r_derive(seed, idxs)
    cur = k
    for d, node in enumerate(nodes):
        if d > 0:
            cur = cur.child(idxs[d - 1])
        rk, rc, rd, rfp, ri = node
        pt = r_point(rk)
        got = (cur.private_key.secret, cur.chain_code, cur.depth, cur.parent_fingerprint, cur.child_number,
               _vpoint(cur.pub.point), cur.fingerprint())
        want = (rk, rc, rd, rfp, ri, list(pt), r_hash160(r_serP(pt))[:4])
        if got != want:
            return f"node {d} differs from the reference: {got} vs {want}"
        if cur.xprv() != r_xprv(cur.priv_version, node):
            return f"xprv string at node {d} differs from the reference"
        if cur.xpub() != r_xpub(cur.pub.pub_version, node):
            return f"xpub string at node {d} differs from the reference"
        for v in ALL_PRV[d % 10:d % 10 + 1]:
            if cur.xprv(version=v) != r_xprv(v, node):
                return "xprv(version) differs from the reference"
        for v in ALL_PUB[d % 10:d % 10 + 1]:
            if cur.xpub(version=v) != r_xpub(v, node):
                return "xpub(version) differs from the reference"
        if d > 0 and idxs[d - 1] < H31:
            rp = r_ckd_pub(r_point(nodes[d - 1][0]), nodes[d - 1][1], idxs[d - 1])
            if rp is None or list(rp[0]) != _vpoint(cur.pub.point) or rp[1] != cur.chain_code:
                return "reference CKDpub differs"
    full = k.traverse(_path_text(idxs, 0))
    if _vpriv(full) != _vpriv(cur):
        return "traverse differs from child-by-child"
    return None


def p_xkey_roundtrip(seed, net, vi, idxs, pvi, pbi):
    """xprv / xpub strings survive parse exactly, for every version prefix"""
    k = _root(seed, net, vi)
    for j in idxs:
        k = k.child(j)
    pv, pb = ALL_PRV[pvi % 10], ALL_PUB[pbi % 10]
    s = k.xprv(version=pv)
    k2 = HDPrivateKey.parse(s)
    if k2.xprv() != s:
        return f"xprv {s} re-serialises to {k2.xprv()}"
    if (k2.private_key.secret, k2.chain_code, k2.depth, k2.parent_fingerprint, k2.child_number, k2.priv_version) != \
            (k.private_key.secret, k.chain_code, k.depth, k.parent_fingerprint, k.child_number, pv):
        return "parsed xprv fields differ"
    if (k2.network == "mainnet") != (pv in hd.ALL_MAINNET_XPRVS):
        return "parsed xprv network differs from the prefix's network"
    raw = helper.raw_decode_base58(s)
    if len(raw) != 78 or raw[:4] != pv or raw[4] != k.depth or raw[5:9] != k.parent_fingerprint or \
            raw[9:13] != k.child_number.to_bytes(4, "big") or raw[13:45] != k.chain_code or \
            raw[45:] != b"\x00" + k.private_key.secret.to_bytes(32, "big"):
        return "xprv layout differs from BIP32"
    s = k.xpub(version=pb)
    q = HDPublicKey.parse(s)
    if q.xpub() != s:
        return f"xpub {s} re-serialises to {q.xpub()}"
    if (_vpoint(q.point), q.chain_code, q.depth, q.parent_fingerprint, q.child_number, q.pub_version) != \
            (_vpoint(k.pub.point), k.chain_code, k.depth, k.parent_fingerprint, k.child_number, pb):
        return "parsed xpub fields differ"
    if (q.network == "mainnet") != (pb in hd.ALL_MAINNET_XPUBS):
        return "parsed xpub network differs from the prefix's network"
    raw = helper.raw_decode_base58(s)
    pt = r_point(k.private_key.secret)
    if len(raw) != 78 or raw[:4] != pb or raw[4] != k.depth or raw[5:9] != k.parent_fingerprint or \
            raw[9:13] != k.child_number.to_bytes(4, "big") or raw[13:45] != k.chain_code or raw[45:] != r_serP(pt):
        return "xpub layout differs from BIP32"
    if s != r_b58check(raw) or r_b58check_decode(s) != raw:
        return "Base58Check differs from the reference"
    return None


def p_raw_roundtrip(raw, is_priv):
    """byte-level converse: a well-formed 78-byte string parses and re-serialises to itself"""
    s = helper.encode_base58_checksum(raw)
    if is_priv:
        k = HDPrivateKey.parse(s)
        back = helper.raw_decode_base58(k.xprv())
    else:
        k = HDPublicKey.parse(s)
        back = helper.raw_decode_base58(k.xpub())
    if back != raw:
        return f"{raw.hex()} re-serialises to {back.hex()}"
    return None


def p_bad_xkey(raw, is_priv):
    """a malformed raw xkey (wrong length, unknown version, bad key prefix) is refused"""
    s = helper.encode_base58_checksum(raw)
    f = HDPrivateKey.parse if is_priv else HDPublicKey.parse
    try:
        k = f(s)
    except Exception:
        return None
    return f"malformed extended key accepted: {raw.hex()} -> {k!r}"


def p_bad_xkey_str(good, bads, is_priv):
    """STRING level: a valid extended-key string parses and prints back to itself character for character;
    every other string of the list (one edit away from it, wrong check bytes, wrong payload length) is refused"""
    good = _txt(good)
    f = HDPrivateKey.parse if is_priv else HDPublicKey.parse
    k = f(good)
    back = k.xprv() if is_priv else k.xpub()
    if back != good:
        return f"{good} parses and prints back as {back}"
    for bad in bads:
        bad = _txt(bad)
        if bad == good:
            continue
        try:
            k2 = f(bad)
        except Exception:
            continue
        return f"malformed extended-key string accepted: {bad!r} -> {k2!r}"
    return None


def p_blind(seed, net, vi, idx1, idx2, st1, st2):
    """blind_xpub(xpub at p1, p1, p2) is the key at the combined path from the root"""
    k = _root(seed, net, vi)
    p1, p2 = _path_text(idx1, st1), _path_text(idx2, st2)
    start = k.traverse(p1)
    r = blinding.blind_xpub(start.xpub(), p1, p2)
    full = r["blinded_full_path"]
    want = k.traverse(full)
    if r["blinded_child_xpub"] != want.xpub():
        return f"blinded xpub differs from the xpub at {full!r}"
    if HDPublicKey.parse(r["blinded_child_xpub"]).xpub() != want.xpub():
        return "blinded xpub does not re-parse"
    step = k
    for j in idx1 + idx2:
        step = step.child(j)
    if step.xpub() != r["blinded_child_xpub"]:
        return "blinded xpub differs from the child-by-child derivation"
    # a wrong starting path depth is refused
    if not _raises(blinding.blind_xpub, start.xpub(), p1 + "/0", p2):
        return "blind_xpub accepted a starting path of the wrong depth"
    if not _raises(blinding.blind_xpub, start.xpub(), p1, p2 + "/0'"):
        return "blind_xpub accepted a hardened secret path"
    return None


def p_vectors(dummy):
    """official BIP32 test vectors (those whose checksum verifies)"""
    for vi, seed, path, kind, s in VECTORS:
        k = HDPrivateKey.from_seed(bytes.fromhex(seed)).traverse(path)
        got = k.xpub() if kind == "pub" else k.xprv()
        if got != s:
            return f"BIP32 test vector {vi + 1} {path} {kind}: {got} != {s}"
        back = (HDPublicKey.parse(s).xpub() if kind == "pub" else HDPrivateKey.parse(s).xprv())
        if back != s:
            return f"BIP32 test vector {vi + 1} {path} {kind} does not round-trip"
    return None


def p_versions_table(dummy):
    """the generated Coq tables are the tables of the module that is imported now"""
    t = gen_coq_c08.tables()
    if t["XPRV"] != hd.XPRV or t["XPUB"] != hd.XPUB:
        return "XPRV/XPUB of hd.py differ from the extracted tables"
    for name in ("ALL_MAINNET_XPRVS", "ALL_MAINNET_XPUBS", "ALL_TESTNET_XPRVS", "ALL_TESTNET_XPUBS"):
        if set(t[name]) != getattr(hd, name):
            return name + " differs from the extracted table"
    if len(set(ALL_PRV)) != 10 or len(set(ALL_PUB)) != 10 or set(ALL_PRV) & set(ALL_PUB):
        return "the 20 version prefixes are not distinct"
    if open(gen_coq_c08.OUT).read() != gen_coq_c08.render(t, ""):
        return "coq/Generated/HdVersions.v is stale"
    return None


# ---- state kept across calls on one key object (memoised serialisations / children / fingerprints going stale)


def _r_pubraw(ver, pt, cc, depth, pfp, num):
    return ver + bytes([depth]) + pfp + num.to_bytes(4, "big") + cc + r_serP(pt)


def _r_prvraw(ver, k, cc, depth, pfp, num):
    return ver + bytes([depth]) + pfp + num.to_bytes(4, "big") + cc + b"\x00" + k.to_bytes(32, "big")


def _chk_pub_child(ch, st, i, what):
    """ch = child i of the public node whose CURRENT state is st = dict(pt, cc, depth, net, ver)"""
    rp = r_ckd_pub(st["pt"], st["cc"], i)
    want = (list(rp[0]), rp[1], st["depth"] + 1, r_hash160(r_serP(st["pt"]))[:4], i, st["net"], st["ver"])
    if _pubfields(ch) != want:
        return f"{what}: public child {i} is {_pubfields(ch)}, reference derivation from the current fields gives {want}"
    return None


def p_pub_reuse(seed, net, vi, idxs, i1, i2, va, vb, seed2):
    """ONE HDPublicKey object (the node seed/idxs) through a call history: xpub() with and without version
    arguments in changing order with raw_serialize() in between, fingerprint, child(i1) / child(i2) / child(i1)
    and the refusal of i1 + 2^31 afterwards, traverse with several spellings, then every public field
    (chain_code, depth, parent_fingerprint, child_number, pub_version, network, point) replaced IN PLACE, each
    followed by xpub / fingerprint / child / traverse: every answer equals the independent BIP32 reference
    applied to the CURRENT fields.  (raw_serialize() after an in-place edit is not asked: HDPublicKey._raw is
    a memo the code never invalidates — reported, not a regression.)"""
    root = _root(seed, net, vi)
    node = r_derive(seed, idxs)[-1]
    rk, rc, rd, rfp, ri = node
    st = {"pt": r_point(rk), "cc": rc, "depth": rd, "pfp": rfp, "num": ri, "net": NETS[net],
          "ver": root.pub.pub_version}
    pub = HDPublicKey(S256Point(*st["pt"]), rc, rd, rfp, ri, NETS[net], pub_version=st["ver"])
    v1, v2 = ALL_PUB[va % 10], ALL_PUB[vb % 10]

    def ser_checks(where):
        for v in (None, v1, "raw", v2, None, v1) if where == "start" else (v1, None, v2):
            if v == "raw":
                for _ in range(2):
                    if pub.raw_serialize() != _r_pubraw(hd.XPUB[st["net"]], st["pt"], st["cc"], st["depth"], st["pfp"], st["num"]):
                        return "raw_serialize() between xpub(version) calls is not XPUB[network] || fields"
                continue
            want = r_b58check(_r_pubraw(st["ver"] if v is None else v, st["pt"], st["cc"], st["depth"], st["pfp"], st["num"]))
            got = pub.xpub() if v is None else pub.xpub(version=v)
            if got != want:
                return f"{where}: xpub({'' if v is None else v.hex()}) on the reused key is {got}, current fields give {want}"
        if pub.fingerprint() != r_hash160(r_serP(st["pt"]))[:4] or pub.fingerprint() != r_hash160(r_serP(st["pt"]))[:4]:
            return f"{where}: fingerprint() is not hash160(sec of the current point)[:4]"
        if pub.sec() != r_serP(st["pt"]) or pub.hash160() != r_hash160(r_serP(st["pt"])):
            return f"{where}: sec()/hash160() differ from the current point"
        return None

    bad = ser_checks("start")
    if bad:
        return bad
    for step, i in enumerate((i1, i2, i1, H31 - 1, i2)):
        bad = _chk_pub_child(pub.child(i), st, i, f"call {step}")
        if bad:
            return bad
    for i in (i1 + H31, i2 + H31, -1):
        if not _raises(pub.child, i):
            return f"HDPublicKey.child({i}) did not raise after child({i % H31}) had been derived from the same object"
    for path, ii in (("m/%d/%d" % (i1, i2), (i1, i2)), ("m/%d/%d" % (i1, i1), (i1, i1)), ("M/%d/%d" % (i1, i2), (i1, i2)),
                     ("m/%d" % i2, (i2,)), ("m", ())):
        got = pub.traverse(path)
        pt, cc = st["pt"], st["cc"]
        for i in ii:
            pt, cc = r_ckd_pub(pt, cc, i)
        if (_vpoint(got.point), got.chain_code, got.depth, got.child_number) != \
                (list(pt), cc, st["depth"] + len(ii), ii[-1] if ii else st["num"]):
            return f"traverse({path!r}) on the reused key differs from the reference"
    for p in ("m/%d'" % i1, "m/%dh/%d" % (i1, i2), "m/%d/%dH" % (i1, i2)):
        if not _raises(pub.traverse, p):
            return f"HDPublicKey.traverse({p!r}) did not raise after the unhardened path had been derived"
    # in-place edits, one field at a time (values from a second seed)
    k2, c2 = r_master(seed2)
    other_net = NETS[(net + 1 + k2 % 3) % 4]
    edits = [("chain_code", "cc", c2), ("depth", "depth", (st["depth"] + 1 + c2[0] % 200) % 255),
             ("parent_fingerprint", "pfp", c2[4:8]), ("child_number", "num", int.from_bytes(c2[8:12], "big")),
             ("pub_version", "ver", v2 if v2 != st["ver"] else v1), ("network", "net", other_net),
             ("point", "pt", r_point(k2)), ("chain_code", "cc", rc)]
    for fld, key, val in edits:
        st[key] = val
        setattr(pub, fld, S256Point(*val) if fld == "point" else val)
        bad = ser_checks(f"after setting .{fld} in place")
        if bad:
            return bad
        bad = _chk_pub_child(pub.child(i1), st, i1, f"after setting .{fld} in place")
        if bad:
            return bad
        if pub.address() != HDPublicKey(S256Point(*st["pt"]), st["cc"], st["depth"], st["pfp"], st["num"], st["net"],
                                        pub_version=st["ver"]).address():
            return f"after setting .{fld} in place: address() differs from a fresh key with the same fields"
    return None


def p_priv_reuse(seed, net, vi, idxs, i1, va, vb, seed2):
    """ONE HDPrivateKey object through a call history: xprv()/xpub() with and without versions in changing order,
    child(i1), child(i1 + 2^31), child(i1) again, boundary indexes, traverse of look-alike paths (m/a'/b, m/a/b,
    m/ah/b, M/aH/b), then the fields the private side reads (chain_code, depth, parent_fingerprint,
    child_number, priv_version, network) replaced IN PLACE, each followed by xprv / child: every answer equals
    the independent BIP32 reference on the CURRENT fields.  (xpub() after such an edit is not asked: the
    HDPublicKey copy kept in .pub is filled once by the constructor.)"""
    root = _root(seed, net, vi)
    k = root
    for j in idxs:
        k = k.child(j)
    rk, rc, rd, rfp, ri = r_derive(seed, idxs)[-1]
    st = {"k": rk, "cc": rc, "depth": rd, "pfp": rfp, "num": ri, "net": NETS[net], "ver": root.priv_version}
    pubver = root.pub.pub_version
    v1, v2 = ALL_PRV[va % 10], ALL_PRV[vb % 10]
    w1 = ALL_PUB[vb % 10]
    fp = r_hash160(r_serP(r_point(rk)))[:4]

    def xprv_checks(where):
        for v in (None, v1, v2, None, v1):
            want = r_b58check(_r_prvraw(st["ver"] if v is None else v, st["k"], st["cc"], st["depth"], st["pfp"], st["num"]))
            got = k.xprv() if v is None else k.xprv(version=v)
            if got != want:
                return f"{where}: xprv({'' if v is None else v.hex()}) on the reused key is {got}, current fields give {want}"
        return None

    def chk_child(ch, i, where):
        ck, cc = r_ckd_priv(st["k"], st["cc"], i)
        got = (ch.private_key.secret, ch.chain_code, ch.depth, ch.parent_fingerprint, ch.child_number, ch.network,
               ch.priv_version, ch.pub.pub_version, _vpoint(ch.pub.point), ch.pub.chain_code, ch.pub.depth, ch.pub.child_number)
        want = (ck, cc, st["depth"] + 1, fp, i, st["net"], st["ver"], pubver, list(r_point(ck)), cc, st["depth"] + 1, i)
        if got != want:
            return f"{where}: private child {i} is {got}, reference derivation from the current fields gives {want}"
        if ch.xprv() != r_b58check(_r_prvraw(st["ver"], ck, cc, st["depth"] + 1, fp, i)):
            return f"{where}: xprv of private child {i} differs from the reference"
        return None

    bad = xprv_checks("start")
    if bad:
        return bad
    for v in (None, w1, None):
        want = r_b58check(_r_pubraw(pubver if v is None else v, r_point(rk), rc, rd, rfp, ri))
        if (k.xpub() if v is None else k.xpub(version=v)) != want:
            return "xpub() of the reused private key differs from the reference"
    if k.fingerprint() != fp or k.fingerprint() != fp:
        return "fingerprint() of the reused private key"
    for step, i in enumerate((i1, i1 + H31, i1, H31 - 1, H31, i1 + H31)):
        bad = chk_child(k.child(i), i, f"call {step}")
        if bad:
            return bad
    a, b = i1, (i1 * 7 + 1) % 50
    for path, ii in (("m/%d'/%d" % (a, b), (a + H31, b)), ("m/%d/%d" % (a, b), (a, b)), ("m/%dh/%d" % (a, b), (a + H31, b)),
                     ("M/%dH/%d'" % (a, b), (a + H31, b + H31)), ("m/%d/%d" % (a, b), (a, b)), ("m", ())):
        got = k.traverse(path)
        kk, cc = st["k"], st["cc"]
        for i in ii:
            kk, cc = r_ckd_priv(kk, cc, i)
        if (got.private_key.secret, got.chain_code, got.depth, got.child_number) != \
                (kk, cc, st["depth"] + len(ii), ii[-1] if ii else st["num"]):
            return f"traverse({path!r}) on the reused private key differs from the reference"
    k2, c2 = r_master(seed2)
    edits = [("chain_code", "cc", c2), ("depth", "depth", (st["depth"] + 1 + c2[0] % 200) % 255),
             ("parent_fingerprint", "pfp", c2[4:8]), ("child_number", "num", int.from_bytes(c2[8:12], "big")),
             ("priv_version", "ver", v2 if v2 != st["ver"] else v1), ("network", "net", NETS[(net + 1 + k2 % 3) % 4]),
             ("chain_code", "cc", rc)]
    for n_, (fld, key, val) in enumerate(edits):
        st[key] = val
        setattr(k, fld, val)
        bad = xprv_checks(f"after setting .{fld} in place")
        if bad:
            return bad
        i = i1 + (H31 if n_ % 2 else 0)
        bad = chk_child(k.child(i), i, f"after setting .{fld} in place")
        if bad:
            return bad
    return None


def p_blind_history(seed, idx1, secrets):
    """module-level blind_xpub called several times with one xpub and different secret paths (repeats included):
    each answer is the xpub at the combined path, computed by the independent reference"""
    p1 = _path_text(idx1, 0)
    x = r_xpub(hd.XPUB["mainnet"], r_derive(seed, idx1)[-1])
    for step, idx2 in enumerate(secrets):
        r = blinding.blind_xpub(x, p1, _path_text(idx2, step % 4))
        want = r_xpub(hd.XPUB["mainnet"], r_derive(seed, idx1 + idx2)[-1])
        if r["blinded_child_xpub"] != want:
            return f"call {step}: blind_xpub with secret path {_path_text(idx2, 0)!r} differs from the reference xpub"
        if r["blinded_full_path"] != _path_text(idx1 + idx2, 1):
            return f"call {step}: blinded_full_path {r['blinded_full_path']!r}"
    return None


def p_text_spellings(idxs):
    """the six spellings (m|M) x ('|h|H) of one index list: HDPrivateKey.traverse reads every one back as exactly
    the list, HDPublicKey.traverse does iff no index is hardened and refuses otherwise, is_valid_bip32_path accepts
    (at most 255 components), combine_bip32_paths of two halves is the h-spelling of the whole"""
    want_valid = len(idxs) <= 255
    for m in "mM":
        for mark in "'hH":
            t = i_path_text(ord(m), ord(mark), idxs)
            got = i_path_indexes_priv(t.encode())
            if got != list(idxs):
                return f"HDPrivateKey.traverse reads {t!r} as {got}, written from {list(idxs)}"
            try:
                pub = i_path_indexes_pub(t.encode())
            except ValueError:
                pub = None
            if all(i < H31 for i in idxs):
                if pub != list(idxs):
                    return f"HDPublicKey.traverse reads {t!r} as {pub}"
            elif pub is not None:
                return f"HDPublicKey.traverse accepted the hardened path {t!r}: {pub}"
            if hd.is_valid_bip32_path(t) != want_valid:
                return f"is_valid_bip32_path({t!r}) is not {want_valid}"
            if want_valid:
                cut = len(idxs) // 2
                a = i_path_text(ord(m), ord(mark), idxs[:cut])
                b = i_path_text(ord("M" if m == "m" else "m"), ord({"'": "h", "h": "H", "H": "'"}[mark]), idxs[cut:])
                c = blinding.combine_bip32_paths(a, b)
                if c != i_path_text(109, 104, idxs):
                    return f"combine_bip32_paths({a!r}, {b!r}) = {c!r}"
                if t.count("/") != len(idxs):
                    return "number of separators"
    return None


def p_secure_secret_path(depth, draws, seed):
    """secure_secret_path(depth) with the given randbelow results: a valid path whose public traverse reads back the
    draws and that blind_xpub accepts, giving the xpub at the combined path (independent reference)"""
    path = i_secure_secret_path(depth, draws)
    if not hd.is_valid_bip32_path(path):
        return f"secure_secret_path returned the invalid path {path!r}"
    if i_path_indexes_pub(path.encode()) != list(draws) or path.count("/") != depth:
        return f"secure_secret_path returned {path!r} for the draws {draws}"
    x = r_xpub(hd.XPUB["mainnet"], r_derive(seed, [H31 + 1])[-1])
    r = blinding.blind_xpub(x, "m/1h", path)
    want = r_xpub(hd.XPUB["mainnet"], r_derive(seed, [H31 + 1] + list(draws))[-1])
    if r["blinded_child_xpub"] != want or r["blinded_full_path"] != i_path_text(109, 104, [H31 + 1] + list(draws)):
        return f"blind_xpub with the secure secret path {path!r} differs from the reference"
    return None


def p_depth_overflow(seed, idx):
    """a key of depth 255: child(idx) exists and has depth 256 (nothing checks the depth), but neither its xprv()
    nor its xpub() can be printed; the depth-255 key itself round-trips; the same on the public side"""
    k0 = HDPrivateKey.from_seed(seed)
    k = HDPrivateKey(k0.private_key, k0.chain_code, depth=255, parent_fingerprint=b"\x01\x02\x03\x04", child_number=7)
    if HDPrivateKey.parse(k.xprv()).depth != 255 or HDPublicKey.parse(k.xpub()).depth != 255:
        return "a depth-255 key does not round-trip"
    ch = k.child(idx)
    if ch.depth != 256 or ch.pub.depth != 256:
        return f"child of a depth-255 key has depth {ch.depth}"
    for f in (ch.xprv, ch.xpub, ch.pub.xpub, ch.pub.raw_serialize):
        try:
            out = f()
        except (ValueError, OverflowError):
            continue
        return f"a depth-256 key was serialised: {out!r}"
    if idx < H31:
        q = k.pub.child(idx)
        if q.depth != 256:
            return "public child depth"
        try:
            out = q.xpub()
        except (ValueError, OverflowError):
            return None
        return f"a depth-256 public key was serialised: {out!r}"
    return None


def p_blind_degenerate(seed, idx1, idx2, sty):
    """blind_xpub with the empty secret path "m" returns the starting xpub itself and the normalised starting path;
    with the root starting path "m" it returns the xpub at the secret path; "m" with "m" returns the root xpub"""
    k = HDPrivateKey.from_seed(seed)
    p1, p2 = _path_text(idx1, sty), _path_text(idx2, (sty + 1) % 4)
    start = k.traverse(p1)
    for e in ("m", "M"):
        r = blinding.blind_xpub(start.xpub(), p1, e)
        if r["blinded_child_xpub"] != start.xpub() or r["blinded_full_path"] != _path_text(idx1, 1):
            return f"blind_xpub(xpub at {p1!r}, {p1!r}, {e!r}) = {r}"
        r = blinding.blind_xpub(k.xpub(), e, p2)
        want = r_xpub(hd.XPUB["mainnet"], r_derive(seed, idx2)[-1])
        if r["blinded_child_xpub"] != want or r["blinded_full_path"] != _path_text(idx2, 1):
            return f"blind_xpub(root xpub, {e!r}, {p2!r}) = {r}"
        r = blinding.blind_xpub(k.xpub(), e, "m")
        if r["blinded_child_xpub"] != k.xpub() or r["blinded_full_path"] != "m":
            return f"blind_xpub(root xpub, {e!r}, 'm') = {r}"
    if idx1 and not _raises(blinding.blind_xpub, start.xpub(), "m", p2):
        return "blind_xpub accepted the root path for a key of depth > 0"
    return None


def p_norm_meaning(a, b):
    """the forgiving normalisation never changes what a text means: for texts is_valid_bip32_path accepts, whatever
    a traverse method reads out of the text it reads out of the normalised text (combine_bip32_paths(a, "m")), and
    the combination of two readable texts reads as the concatenation — tidy or not"""
    a, b = _txt(a), _txt(b)
    for reader in (i_path_indexes_priv, i_path_indexes_pub):
        got = []
        for t in (a, b):
            try:
                got.append(reader(t.encode()))
            except Exception:
                got.append(None)
        for t, ix in zip((a, b), got):
            if ix is None or not hd.is_valid_bip32_path(t):
                continue
            norm = blinding.combine_bip32_paths(t, "m")
            try:
                again = reader(norm.encode())
            except Exception as e:  # noqa
                return f"{reader.__name__}: {t!r} reads as {ix} but its normalised form {norm!r} raises {type(e).__name__}"
            if again != ix:
                return f"{reader.__name__}: {t!r} reads as {ix} but its normalised form {norm!r} as {again}"
        if None not in got and hd.is_valid_bip32_path(a) and hd.is_valid_bip32_path(b):
            z = blinding.combine_bip32_paths(a, b)
            try:
                zi = reader(z.encode())
            except Exception as e:  # noqa
                return f"{reader.__name__}: combined path {z!r} of {a!r} and {b!r} raises {type(e).__name__}"
            if zi != got[0] + got[1]:
                return f"{reader.__name__}: combined path {z!r} reads as {zi}, the parts as {got}"
    return None


def p_int_digit_limit(nd):
    """a path component of nd digit characters: is_valid_bip32_path, both traverse methods, combine_bip32_paths and
    blind_xpub agree with each other: up to 4300 digits "000...07" is index 7, from 4301 on every one refuses (int()
    raises ValueError) and none of them hangs or derives a key"""
    comp = "0" * (nd - 1) + "7"
    k = HDPrivateKey.from_seed(b"\x07" * 16)
    path = "m/" + comp
    ok = nd <= 4300
    if hd.is_valid_bip32_path(path) != ok or hd.is_valid_bip32_path(path + "h") != ok:
        return f"is_valid_bip32_path on a {nd}-digit component is not {ok}"
    for f, want in ((lambda: k.traverse(path).xprv(), k.child(7).xprv()),
                    (lambda: k.traverse(path + "'").xprv(), k.child(7 + H31).xprv()),
                    (lambda: k.pub.traverse(path).xpub(), k.pub.child(7).xpub()),
                    (lambda: blinding.combine_bip32_paths("m/1", path), "m/1/" + comp),
                    (lambda: blinding.blind_xpub(k.xpub(), "m", path)["blinded_child_xpub"], k.pub.child(7).xpub())):
        try:
            got = f()
        except ValueError:
            got = None
        if ok and got != want:
            return f"{nd}-digit component: got {got!r}, expected {want!r}"
        if not ok and got is not None:
            return f"{nd}-digit component (over CPython's 4300-digit limit) was accepted: {got!r}"
    return None


# ---- the 78-byte header: every field at its special values independently of the others
# (keys no derivation from a seed shows: depth > 0 under parent fingerprint 00000000 or ffffffff, child number
# 2^32-1 at depth 255, an all-zero chain code, ... — assembled field by field, printed by the independent
# Base58Check encoder above, never by the library)

_Z4, _F4 = b"\x00" * 4, b"\xff" * 4
# SLIP-0132 registry, written down here and not read from hd.py: (private prefix, public prefix), mainnet first
_SLIP132_PAIRS = [("0488ade4", "0488b21e"), ("049d7878", "049d7cb2"), ("04b2430c", "04b24746"), ("0295b005", "0295b43f"),
                  ("02aa7a99", "02aa7ed3"), ("04358394", "043587cf"), ("044a4e28", "044a5262"), ("045f18bc", "045f1cf6"),
                  ("024285b5", "024289ef"), ("02575048", "02575483")]
R_PRV = [bytes.fromhex(a) for a, _ in _SLIP132_PAIRS]
R_PUB = [bytes.fromhex(b) for _, b in _SLIP132_PAIRS]
_R_MAIN = set(R_PRV[:5]) | set(R_PUB[:5])
HM_DEPTH = [0, 1, 255]
HM_NUM = [0, H31 - 1, H31, 2 ** 32 - 1]


def r_decompress(sec):
    x = int.from_bytes(sec[1:], "big")
    y = pow((x * x * x + 7) % _P, (_P + 1) // 4, _P)
    if (y * y - x * x * x - 7) % _P or sec[0] not in (2, 3) or x >= _P:
        raise ValueError("not a point")
    return (x, y if (y & 1) == (sec[0] & 1) else _P - y)


def _hdr_text(raw):
    return (f"version {raw[:4].hex()}, depth {raw[4]}, parent fingerprint {raw[5:9].hex()}, child number "
            f"{int.from_bytes(raw[9:13], 'big')}, chain code {raw[13:17].hex()}.., key {raw[45:50].hex()}..")


def _bip32_calls_invalid(depth, pfp, num):
    """BIP32 test vector 5: 'zero depth with non-zero parent fingerprint / non-zero index' are invalid keys.  /repo
    accepts them today (pinned by the corr cases through the model); a parser that refuses them with ValueError is
    conformant, so the predicates below demand of these keys only: refused cleanly, or preserved exactly."""
    return depth == 0 and (pfp != _Z4 or num != 0)


def p_xkey_header(raw, is_priv, nets):
    """raw: 78-byte extended-key payload assembled by the generator field by field.  Its Base58Check string (independent
    encoder) parses, through parse() and through raw_parse(stream, network) for every network index in nets (-1 =
    None), into exactly the fields written; the network follows the SLIP-0132 prefix; the key prints back character
    for character, under each of the other nine prefixes of its class too; a key constructed from the same fields
    prints the same string; fingerprint / public side equal the independent reference"""
    assert len(raw) == 78
    ver, depth, pfp, num, cc, km = raw[:4], raw[4], raw[5:9], int.from_bytes(raw[9:13], "big"), raw[13:45], raw[45:]
    s = r_b58check(raw)
    cls = HDPrivateKey if is_priv else HDPublicKey
    lenient = _bip32_calls_invalid(depth, pfp, num)
    main = ver in _R_MAIN
    entries = [("parse", None)] + [("raw_parse(network=%r)" % (None if n < 0 else NETS[n]), n) for n in nets]
    if is_priv:
        secret = int.from_bytes(km[1:], "big")
        pt = r_point(secret)
        sec = r_serP(pt)
    else:
        pt = r_decompress(km)
        sec = km
    for what, n in entries:
        netarg = None if n is None or n < 0 else NETS[n]
        try:
            k = cls.parse(s) if n is None else cls.raw_parse(BytesIO(raw), network=netarg)
        except Exception as e:  # noqa
            if lenient and isinstance(e, ValueError):
                continue
            return f"{what} refuses the valid extended key {s} ({_hdr_text(raw)}): {type(e).__name__}: {e}"
        if is_priv:
            got = (k.priv_version, k.depth, k.parent_fingerprint, k.child_number, k.chain_code, k.private_key.secret)
            want = (ver, depth, pfp, num, cc, secret)
        else:
            got = (k.pub_version, k.depth, k.parent_fingerprint, k.child_number, k.chain_code, _vpoint(k.point))
            want = (ver, depth, pfp, num, cc, list(pt))
        if got != want:
            return f"{what} of {s} ({_hdr_text(raw)}) gives the fields {got}, written were {want}"
        wnet = "mainnet" if main else (netarg or "testnet")
        if k.network != wnet:
            return f"{what} of {s} gives network {k.network!r}, the prefix {ver.hex()} says {wnet!r}"
        back = k.xprv() if is_priv else k.xpub()
        if back != s:
            return f"{what} of {s} ({_hdr_text(raw)}) prints back as {back}"
        for v in (R_PRV if is_priv else R_PUB) if n is None else ():
            got = k.xprv(version=v) if is_priv else k.xpub(version=v)
            if got != r_b58check(v + raw[4:]):
                return f"{what} of {s} printed under the prefix {v.hex()} is {got}"
        if k.fingerprint() != r_hash160(sec)[:4]:
            return f"{what} of {s}: fingerprint() is not hash160(SEC)[:4]"
        if is_priv:
            dpub = R_PUB[0] if wnet == "mainnet" else R_PUB[5]      # pub_version=None: the default of the NETWORK
            if k.xpub() != r_b58check(dpub + raw[4:45] + sec) or k.pub.xpub() != k.xpub():
                return f"{what} of {s}: xpub() is not the same header over the public key under {dpub.hex()}"
            if (k.pub.depth, k.pub.parent_fingerprint, k.pub.child_number, k.pub.chain_code, _vpoint(k.pub.point)) != \
                    (depth, pfp, num, cc, list(pt)):
                return f"{what} of {s}: the .pub copy carries other fields"
            fresh = HDPrivateKey(k.private_key, cc, depth, pfp, num, wnet, priv_version=ver).xprv() if n is None else s
        else:
            if k.sec() != km:
                return f"{what} of {s}: sec() differs from the key bytes"
            fresh = HDPublicKey(S256Point(*pt), cc, depth, pfp, num, wnet, pub_version=ver).xpub() if n is None else s
        if fresh != s:
            return f"a key constructed from the fields ({_hdr_text(raw)}) prints {fresh}, the reference encoding is {s}"
    return None


def p_xkey_header_derive(hdr, secret, vi, i, hard):
    """hdr: the 41 bytes depth || parent fingerprint || child number || chain code, any combination of special
    values; the xpub and the xprv with this header over one key (independent encoder) are PARSED, and from the parsed
    objects: public child i = reference CKDpub, hardened refused; private child i (hard = 0), i + 2^31 (hard = 1) or
    both (hard = 2) = reference CKDpriv; public of the private child i = the public child; the children print as the reference strings (from
    depth 255: cannot be printed); blind_xpub(xpub, a starting path of `depth` components, m/i) returns exactly the
    child xpub and the combined path, with the empty secret path the xpub itself, and refuses a starting path of
    another depth"""
    pv, pb = R_PRV[vi % 10], R_PUB[vi % 10]
    depth, pfp, num, cc = hdr[0], hdr[1:5], int.from_bytes(hdr[5:9], "big"), hdr[9:41]
    pt = r_point(secret)
    sec = r_serP(pt)
    fp = r_hash160(sec)[:4]
    xpub = r_b58check(pb + hdr + sec)
    xprv = r_b58check(pv + hdr + b"\x00" + secret.to_bytes(32, "big"))
    lenient = _bip32_calls_invalid(depth, pfp, num)
    what = f"depth {depth}, parent fingerprint {pfp.hex()}, child number {num}, chain code {cc[:4].hex()}.."
    try:
        P = HDPublicKey.parse(xpub)
        Q = HDPrivateKey.parse(xprv)
    except Exception as e:  # noqa
        if lenient and isinstance(e, ValueError):
            return None
        return f"valid extended key ({what}; {xpub} / {xprv}) refused by parse: {type(e).__name__}: {e}"
    if _pubfields(Q.pub)[:6] != _pubfields(P)[:6]:
        return f"{what}: the public part of the parsed xprv differs from the parsed xpub"
    net = "mainnet" if vi % 10 < 5 else "testnet"
    # public child
    try:
        cp = P.child(i)
    except Exception as e:  # noqa
        return f"{what}: public derivation of child {i} from the parsed xpub {xpub} raised {type(e).__name__}: {e}"
    rp = r_ckd_pub(pt, cc, i)
    want = (list(rp[0]), rp[1], depth + 1, fp, i, net, pb)
    if _pubfields(cp) != want:
        return f"{what}: public child {i} of the parsed xpub is {_pubfields(cp)}, the reference gives {want}"
    for bad, f in ((i + H31, lambda: P.child(i + H31)), ("m/%dh" % i, lambda: P.traverse("m/%dh" % i)), (-1, lambda: P.child(-1))):
        if not _raises(f):
            return f"{what}: hardened / negative derivation {bad!r} from the parsed xpub was not refused"
    # private children
    kids = {}
    for j in ((i, i + H31) if hard == 2 else (i + H31 * hard,)):
        try:
            cq = Q.child(j)
        except Exception as e:  # noqa
            return f"{what}: private derivation of child {j} from the parsed xprv {xprv} raised {type(e).__name__}: {e}"
        rk, rc = r_ckd_priv(secret, cc, j)
        got = (cq.private_key.secret, cq.chain_code, cq.depth, cq.parent_fingerprint, cq.child_number, cq.network, cq.priv_version)
        if got != (rk, rc, depth + 1, fp, j, net, pv):
            return f"{what}: private child {j} of the parsed xprv is {got}, the reference gives {(rk, rc, depth + 1, fp, j, net, pv)}"
        kids[j] = (cq, rk, rc)
    if i in kids:
        cq, rk, rc = kids[i]
        if _pubfields(cq.pub)[:5] != _pubfields(cp)[:5] or list(r_point(rk)) != _vpoint(cp.point) or rc != rp[1]:
            return f"{what}: public key of the private child {i} differs from the public child {i}"
    i4 = i.to_bytes(4, "big")
    child_xpub = r_b58check(pb + bytes([(depth + 1) % 256]) + fp + i4 + rp[1] + r_serP(rp[0]))
    sp = "m" + "/1h" * (depth - 1) + ("/%dh" % (num - H31) if num >= H31 else "/%d" % num) if depth else "m"
    secret_path = "m/%d" % i
    if depth < 255:
        if cp.xpub() != child_xpub:
            return f"{what}: public child {i} prints as {cp.xpub()}, the reference string is {child_xpub}"
        for j, (cq, rk, rc) in kids.items():
            want = r_b58check(pv + bytes([depth + 1]) + fp + j.to_bytes(4, "big") + rc + b"\x00" + rk.to_bytes(32, "big"))
            if cq.xprv() != want:
                return f"{what}: private child {j} prints as {cq.xprv()}, the reference string is {want}"
        try:
            r_ = blinding.blind_xpub(xpub, sp, secret_path)
        except Exception as e:  # noqa
            return f"{what}: blind_xpub({xpub}, {sp!r}, {secret_path!r}) raised {type(e).__name__}: {e}"
        if r_ != {"blinded_child_xpub": child_xpub, "blinded_full_path": sp + "/%d" % i}:
            return f"{what}: blind_xpub({xpub}, {sp!r}, {secret_path!r}) = {r_}, the key at the combined path is {child_xpub}"
    else:
        for f in [cp.xpub, lambda: blinding.blind_xpub(xpub, sp, secret_path)] + [kid[0].xprv for kid in kids.values()]:
            try:
                out = f()
            except (ValueError, OverflowError):
                continue
            return f"{what}: a depth-256 key was serialised: {out!r}"
    try:
        r_ = blinding.blind_xpub(xpub, sp.upper().replace("H", "'") if vi % 2 else sp, "m")
    except Exception as e:  # noqa
        return f"{what}: blind_xpub({xpub}, {sp!r}, 'm') raised {type(e).__name__}: {e}"
    if r_ != {"blinded_child_xpub": xpub, "blinded_full_path": sp}:
        return f"{what}: blind_xpub({xpub}, {sp!r}, 'm') = {r_}"
    for wrong in (sp + "/0", "m" if depth else "m/0h"):
        if not _raises(blinding.blind_xpub, xpub, wrong, "m"):
            return f"{what}: blind_xpub accepted the starting path {wrong!r} for a key of depth {depth}"
    return None


# ---- entry points most callers bypass, defaults, results re-observed after later calls (audit of round 3)
# References written here: BIP39 seed (hashlib.pbkdf2_hmac), base58 / bech32 / bech32m address encodings, the
# BIP86 output key, BIP44 path layout.  The BIP39 word list is read as DATA from the tree under test (like the
# version tables); the four all-00 / all-ff / 7f.. / 80.. test-vector sentences are written down from memory and
# compared with what the encoder below makes of the list when the module is loaded.

import os as _os

_BECH = "qpzry9x8gf2tvdw0s3jn54khce6mua7l"
R_ADDR = {"mainnet": (0x00, 0x05, "bc"), "testnet": (0x6F, 0xC4, "tb"), "signet": (0x6F, 0xC4, "tb"),
          "regtest": (0x6F, 0xC4, "bcrt")}
R_DEFAULT_P2WSH = {"mainnet": "m/48h/0h/0h/2h", "testnet": "m/48h/1h/0h/2h", "signet": "m/48h/1h/0h/2h",
                   "regtest": "m/48h/1h/0h/2h"}


def _bech_polymod(values):
    gen = [0x3B6A57B2, 0x26508E6D, 0x1EA119FA, 0x3D4233DD, 0x2A1462B3]
    chk = 1
    for v in values:
        b = chk >> 25
        chk = (chk & 0x1FFFFFF) << 5 ^ v
        for i in range(5):
            chk ^= gen[i] if (b >> i) & 1 else 0
    return chk


def r_segwit_addr(hrp, witver, prog):
    data, acc, bits = [witver], 0, 0
    for byte in prog:
        acc, bits = (acc << 8) | byte, bits + 8
        while bits >= 5:
            bits -= 5
            data.append((acc >> bits) & 31)
    if bits:
        data.append((acc << (5 - bits)) & 31)
    const = 1 if witver == 0 else 0x2BC830A3
    exp = [ord(c) >> 5 for c in hrp] + [0] + [ord(c) & 31 for c in hrp]
    pm = _bech_polymod(exp + data + [0] * 6) ^ const
    return hrp + "1" + "".join(_BECH[d] for d in data + [(pm >> 5 * (5 - i)) & 31 for i in range(6)])


def r_address(purpose, pt, netname):
    """address of the BIP44 purpose for the public point pt (44' p2pkh, 49' p2sh-p2wpkh, 84' p2wpkh, 86' p2tr)"""
    p2pkh, p2sh, hrp = R_ADDR[netname]
    h = r_hash160(r_serP(pt))
    if purpose == "44'":
        return r_b58check(bytes([p2pkh]) + h)
    if purpose == "49'":
        return r_b58check(bytes([p2sh]) + r_hash160(b"\x00\x14" + h))
    if purpose == "84'":
        return r_segwit_addr(hrp, 0, h)
    x32 = pt[0].to_bytes(32, "big")
    tag = hashlib.sha256(b"TapTweak").digest()
    t = int.from_bytes(hashlib.sha256(tag + tag + x32).digest(), "big")
    even = (pt[0], pt[1] if pt[1] % 2 == 0 else _P - pt[1])
    q = _aff(_jadd(_jmul(t, (_GX, _GY, 1)), (even[0], even[1], 1)))
    return r_segwit_addr(hrp, 1, q[0].to_bytes(32, "big"))


def _bip39_words():
    with open(_os.path.join(_os.path.dirname(hd.__file__), "bip39_words.txt")) as f:
        return f.read().split()


def r_mnemonic(entropy):
    w = _bip39_words()
    cs = len(entropy) * 8 // 32
    n = (int.from_bytes(entropy, "big") << cs) | (hashlib.sha256(entropy).digest()[0] >> (8 - cs))
    nw = (len(entropy) * 8 + cs) // 11
    return " ".join(w[(n >> (11 * (nw - 1 - i))) & 2047] for i in range(nw))


def r_bip39_seed(mnemonic, password):
    return hashlib.pbkdf2_hmac("sha512", mnemonic.encode(), b"mnemonic" + password, 2048)


_BIP39_MEMORY = {b"\x00" * 16: "abandon " * 11 + "about", b"\xff" * 16: "zoo " * 11 + "wrong",
                 b"\x7f" * 16: "legal winner thank year wave sausage worth useful legal winner thank yellow",
                 b"\x80" * 16: "letter advice cage absurd amount doctor acoustic avoid letter advice cage above"}


def _bip39_selfcheck():
    try:
        return sum(1 for e, s in _BIP39_MEMORY.items() if r_mnemonic(e) == s)
    except Exception:
        return -1


BIP39_SENTENCES_OK = _bip39_selfcheck()


def _ver_pair(netname, vi):
    """(priv_version argument, pub_version argument, expected priv prefix, expected pub prefix); vi < 0: None"""
    base = 0 if netname == "mainnet" else 5
    if vi < 0:
        return None, None, R_PRV[base], R_PUB[base]
    return R_PRV[base + vi % 5], R_PUB[base + vi % 5], R_PRV[base + vi % 5], R_PUB[base + vi % 5]


def _chk_priv_node(k, node, netname, pv, pb, what):
    rk, rc, rd, rfp, ri = node
    got = (k.private_key.secret, k.chain_code, k.depth, k.parent_fingerprint, k.child_number, k.network, k.priv_version,
           k.pub.pub_version, k.pub.network)
    want = (rk, rc, rd, rfp, ri, netname, pv, pb, netname)
    if got != want:
        return f"{what}: key fields {got}, the reference gives {want}"
    if k.xprv() != r_xprv(pv, node) or k.xpub() != r_xpub(pb, node) or k.pub.xpub() != r_xpub(pb, node):
        return f"{what}: xprv()/xpub() are {k.xprv()} / {k.xpub()}, the reference gives {r_xprv(pv, node)} / {r_xpub(pb, node)}"
    return None


def p_from_mnemonic(entropy, password, idxs, style, net, vi, mode):
    """HDPrivateKey.from_mnemonic: BIP39 seed (PBKDF2-HMAC-SHA512, 2048 rounds, salt 'mnemonic' + password) -> BIP32
    master -> the key at `path`, on `network`, under the given / default version prefixes; mode selects which
    arguments are passed (0: the sentence alone -> password b'', path 'm', mainnet, defaults; 1: + password
    positionally; 2: path=; 3: network=; 4: all six positionally; 5: all by keyword); mode + 8: every word cut to
    its first four letters (the code normalises them before the KDF)"""
    full = r_mnemonic(entropy)
    mn = " ".join(w[:4] for w in full.split()) if mode & 8 else full
    m = mode & 7
    name = NETS[net]
    path = _path_text(idxs, style)
    apv, apb, pv, pb = _ver_pair(name, vi)
    if m == 0:
        k, use = HDPrivateKey.from_mnemonic(mn), (b"", [], "mainnet", -1)
    elif m == 1:
        k, use = HDPrivateKey.from_mnemonic(mn, password), (password, [], "mainnet", -1)
    elif m == 2:
        k, use = HDPrivateKey.from_mnemonic(mn, path=path), (b"", idxs, "mainnet", -1)
    elif m == 3:
        k, use = HDPrivateKey.from_mnemonic(mn, network=name), (b"", [], name, -1)
    elif m == 4:
        k, use = HDPrivateKey.from_mnemonic(mn, password, path, name, apv, apb), (password, idxs, name, vi)
    else:
        k, use = HDPrivateKey.from_mnemonic(mnemonic=mn, password=password, path=path, network=name, priv_version=apv,
                                            pub_version=apb), (password, idxs, name, vi)
    pw, ii, nm, v = use
    _, _, pv, pb = _ver_pair(nm, v)
    node = r_derive(r_bip39_seed(full, pw), ii)[-1]
    return _chk_priv_node(k, node, nm, pv, pb, f"from_mnemonic (argument mode {mode}) of {mn!r}")


def p_generate(entropy, password, extra, net, vi, mode):
    """HDPrivateKey.generate with secure_mnemonic replaced by a recorder that returns a given sentence: returns
    (that sentence, the key from_mnemonic makes of it with password / network / versions); mode 0 = no arguments"""
    mn = r_mnemonic(entropy)
    seen = []

    def fake(*a, **kw):
        seen.append((a, kw))
        return mn

    name = NETS[net]
    apv, apb, pv, pb = _ver_pair(name, vi)
    old = hd.secure_mnemonic
    hd.secure_mnemonic = fake
    try:
        if mode == 0:
            got_mn, k = HDPrivateKey.generate()
            pw, nm, want_extra = b"", "mainnet", 0
            _, _, pv, pb = _ver_pair("mainnet", -1)
        elif mode == 1:
            got_mn, k = HDPrivateKey.generate(password, extra, name, apv, apb)
            pw, nm, want_extra = password, name, extra
        else:
            got_mn, k = HDPrivateKey.generate(pub_version=apb, priv_version=apv, network=name, extra_entropy=extra,
                                              password=password)
            pw, nm, want_extra = password, name, extra
    finally:
        hd.secure_mnemonic = old
    if got_mn != mn:
        return f"generate returned the sentence {got_mn!r}, secure_mnemonic gave {mn!r}"
    if len(seen) != 1 or (seen[0][1].get("extra_entropy", seen[0][0][1] if len(seen[0][0]) > 1 else None) != want_extra):
        return f"generate called secure_mnemonic with {seen}, extra_entropy given was {want_extra}"
    node = r_derive(r_bip39_seed(mn, pw), [])[-1]
    return _chk_priv_node(k, node, nm, pv, pb, f"generate (argument mode {mode})")


def p_from_shares(entropy, passphrase, password, idxs, style, net, mode):
    """HDPrivateKey.from_shares with ShareSet.recover_mnemonic replaced by a recorder returning a given sentence:
    the shares and the passphrase go to the recovery, password / path / network to from_mnemonic (never mixed up);
    mode 0: shares alone; 1: all positionally; 2: all by keyword; 3: password= alone; 4: passphrase positionally
    alone; 5: path= and network= alone"""
    mn = r_mnemonic(entropy)
    shares = ["share %d of the audit" % i for i in range(1 + len(passphrase) % 3)]
    seen = []

    class FakeShareSet:
        @staticmethod
        def recover_mnemonic(*a, **kw):
            seen.append((a, kw))
            return mn

    name = NETS[net]
    path = _path_text(idxs, style)
    old = hd.ShareSet
    hd.ShareSet = FakeShareSet
    try:
        if mode == 0:
            k, use = HDPrivateKey.from_shares(shares), (b"", b"", [], "mainnet")
        elif mode == 1:
            k, use = HDPrivateKey.from_shares(shares, passphrase, password, path, name), (passphrase, password, idxs, name)
        elif mode == 2:
            k, use = HDPrivateKey.from_shares(network=name, path=path, password=password, passphrase=passphrase,
                                              share_mnemonics=shares), (passphrase, password, idxs, name)
        elif mode == 3:
            k, use = HDPrivateKey.from_shares(shares, password=password), (b"", password, [], "mainnet")
        elif mode == 4:
            k, use = HDPrivateKey.from_shares(shares, passphrase), (passphrase, b"", [], "mainnet")
        else:
            k, use = HDPrivateKey.from_shares(shares, path=path, network=name), (b"", b"", idxs, name)
    finally:
        hd.ShareSet = old
    pp, pw, ii, nm = use
    if len(seen) != 1:
        return f"from_shares called recover_mnemonic {len(seen)} times"
    a, kw = seen[0]
    got_shares = kw.get("share_mnemonics", a[0] if a else None)
    got_pp = kw.get("passphrase", a[1] if len(a) > 1 else b"")
    if got_shares != shares or got_pp != pp:
        return f"from_shares (argument mode {mode}) recovers with shares {got_shares!r} and passphrase {got_pp!r}; given were {shares!r} and {pp!r}"
    _, _, pv, pb = _ver_pair(nm, -1)
    node = r_derive(r_bip39_seed(mn, pw), ii)[-1]
    return _chk_priv_node(k, node, nm, pv, pb, f"from_shares (argument mode {mode}; password {pw!r}, path {_path_text(ii, style)!r}, {nm})")


def p_from_seed_defaults(seed, net, vi):
    """from_seed(seed) / (seed, network) / (seed, network, priv_version alone) / (seed, network, pub_version alone) /
    both: each default resolved on its own (a prefix given on one side leaves the other at the network's default)"""
    name = NETS[net]
    apv, apb, pv, pb = _ver_pair(name, max(vi, 0))
    _, _, dpv, dpb = _ver_pair(name, -1)
    node = r_derive(seed, [])[-1]
    for what, k, nm, wpv, wpb in (
            ("from_seed(seed)", HDPrivateKey.from_seed(seed), "mainnet", R_PRV[0], R_PUB[0]),
            ("from_seed(seed, %r)" % name, HDPrivateKey.from_seed(seed, name), name, dpv, dpb),
            ("from_seed(seed, network=%r, priv_version=%s)" % (name, pv.hex()),
             HDPrivateKey.from_seed(seed, network=name, priv_version=apv), name, pv, dpb),
            ("from_seed(seed, network=%r, pub_version=%s)" % (name, pb.hex()),
             HDPrivateKey.from_seed(seed, network=name, pub_version=apb), name, dpv, pb),
            ("from_seed(seed, %r, %s, %s)" % (name, pv.hex(), pb.hex()), HDPrivateKey.from_seed(seed, name, apv, apb), name, pv, pb)):
        bad = _chk_priv_node(k, node, nm, wpv, wpb, what)
        if bad:
            return bad
    return None


def p_ctor_defaults(secret, cc, net, vi, depth, pfp, num):
    """the two constructors called directly, with and without their optional arguments (depth 0, parent fingerprint
    00000000, child number 0, mainnet, version None -> the NETWORK's default, resolved separately on each side);
    repr(), .pub, sec / hash160 / fingerprint and the four address pass-throughs equal the reference for the
    key's own network; ONE PrivateKey object serves all the keys and the first key is asked again at the end"""
    name = NETS[net]
    apv, apb, pv, pb = _ver_pair(name, max(vi, 0))
    _, _, dpv, dpb = _ver_pair(name, -1)
    pk = PrivateKey(secret)
    pt = r_point(secret)
    sec = r_serP(pt)
    root, node = (secret, cc, 0, _Z4, 0), (secret, cc, depth, pfp, num)
    a = HDPrivateKey(pk, cc)
    keys = [("HDPrivateKey(key, chain_code)", a, root, "mainnet", R_PRV[0], R_PUB[0]),
            ("HDPrivateKey(key, chain_code, network=%r)" % name, HDPrivateKey(pk, cc, network=name), root, name, dpv, dpb),
            ("HDPrivateKey(.., priv_version=%s)" % pv.hex(), HDPrivateKey(pk, cc, depth, pfp, num, name, priv_version=apv),
             node, name, pv, dpb),
            ("HDPrivateKey(.., pub_version=%s)" % pb.hex(), HDPrivateKey(pk, cc, depth, pfp, num, name, pub_version=apb),
             node, name, dpv, pb),
            ("HDPrivateKey(.., positionally)", HDPrivateKey(pk, cc, depth, pfp, num, name, apv, apb), node, name, pv, pb)]
    for what, k, nd, nm, wpv, wpb in keys + keys[:1]:
        bad = _chk_priv_node(k, nd, nm, wpv, wpb, what)
        if bad:
            return bad
        if repr(k) != r_xprv(wpv, nd) or repr(k.pub) != r_xpub(wpb, nd):
            return f"{what}: repr() is not the xprv / xpub string"
        if k.sec() != sec or k.hash160() != r_hash160(sec) or k.fingerprint() != r_hash160(sec)[:4]:
            return f"{what}: sec()/hash160()/fingerprint() differ from the reference"
    pubs = [("HDPublicKey(point, chain_code, depth, fp, number)", HDPublicKey(S256Point(*pt), cc, depth, pfp, num), "mainnet", R_PUB[0]),
            ("HDPublicKey(.., network=%r)" % name, HDPublicKey(S256Point(*pt), cc, depth, pfp, num, network=name), name, dpb),
            ("HDPublicKey(.., pub_version=%s)" % pb.hex(), HDPublicKey(S256Point(*pt), cc, depth, pfp, num, pub_version=pb),
             "mainnet", pb),
            ("HDPublicKey(.., %r, %s)" % (name, pb.hex()), HDPublicKey(S256Point(*pt), cc, depth, pfp, num, name, pb), name, pb)]
    for what, q, nm, wpb in pubs:
        if (q.network, q.pub_version, q.xpub(), repr(q)) != (nm, wpb, r_xpub(wpb, node), r_xpub(wpb, node)):
            return f"{what}: network / version / xpub are {(q.network, q.pub_version, q.xpub())}, expected {(nm, wpb, r_xpub(wpb, node))}"
        if q.sec() != sec or q.hash160() != r_hash160(sec) or q.fingerprint() != r_hash160(sec)[:4]:
            return f"{what}: sec()/hash160()/fingerprint() differ from the reference"
    for what, k, nm in ((keys[4][0], keys[4][1], name), (keys[0][0], a, "mainnet"), (pubs[1][0], pubs[1][1], name)):
        got = (k.address(), k.p2sh_p2wpkh_address(), k.p2wpkh_address(), k.p2tr_address())
        want = tuple(r_address(p, pt, nm) for p in ("44'", "49'", "84'", "86'"))
        if got != want:
            return f"{what}: address pass-throughs give {got}, the reference for {nm} gives {want}"
        h = r_hash160(sec)
        got = (k.p2pkh_script().raw_serialize(), k.p2wpkh_script().raw_serialize())
        if got != (b"\x76\xa9\x14" + h + b"\x88\xac", b"\x00\x14" + h):
            return f"{what}: p2pkh_script() / p2wpkh_script() pass-throughs serialise as {got[0].hex()} / {got[1].hex()}"
        try:
            got = k.p2sh_p2wpkh_script().raw_serialize()
        except Exception as e:  # noqa
            return f"{what}: p2sh_p2wpkh_script() raised {type(e).__name__}: {e}"
        if got != b"\xa9\x14" + r_hash160(b"\x00\x14" + h) + b"\x87":
            return f"{what}: p2sh_p2wpkh_script() serialises as {got.hex()}, expected a914 hash160(0014 hash160(sec)) 87"
    return None


_HELPERS = [("get_p2pkh_receiving_address", "44'", True), ("get_p2pkh_change_address", "44'", False),
            ("get_p2sh_p2wpkh_receiving_address", "49'", True), ("get_p2sh_p2wpkh_change_address", "49'", False),
            ("get_p2wpkh_receiving_address", "84'", True), ("get_p2wpkh_change_address", "84'", False),
            ("get_p2tr_receiving_address", "86'", True), ("get_p2tr_change_address", "86'", False),
            ("get_p2tr_receiving_privkey", "86'", True), ("get_p2tr_change_privkey", "86'", False)]


def _call_helper(f, mode, account, addr):
    """mode 0: no arguments (account 0, address 0); 1: account_num= alone; 2: address_num= alone; 3: both
    positionally; 4: both by keyword -> (result, account expected, address expected)"""
    if mode == 0:
        return f(), 0, 0
    if mode == 1:
        return f(account_num=account), account, 0
    if mode == 2:
        return f(address_num=addr), 0, addr
    if mode == 3:
        return f(account, addr), account, addr
    return f(address_num=addr, account_num=account), account, addr


class _HelperRec:
    """stands for self inside the ten get_* helpers and inside _get_address: records what reaches the next layer"""

    def __init__(self, network):
        self.network = network
        self.calls = []

    def _get_address(self, purpose, account_num=0, is_external=True, address_num=0):
        self.calls.append(("_get_address", purpose, account_num, is_external, address_num))
        return self

    def get_private_key(self, purpose, account_num=0, is_external=True, address_num=0):
        self.calls.append(("get_private_key", purpose, account_num, is_external, address_num))
        return self


def p_helper_plumbing(net, mode, account, addr):
    """no key involved: each of the ten get_* helpers hands exactly (its purpose, the account, external / change,
    the address number) to the next layer, in every way of passing / omitting the two optional arguments; and
    get_private_key with its optional arguments omitted one by one writes the BIP44 path m/purpose/coin'/account'/
    chain/address with account 0, external chain, address 0 and coin 0' on mainnet, 1' elsewhere"""
    name = NETS[net]
    for fn, purpose, ext in _HELPERS:
        rec = _HelperRec(name)
        res, acc, ad = _call_helper(lambda *a, **kw: getattr(HDPrivateKey, fn)(rec, *a, **kw), mode, account, addr)
        layer = "get_private_key" if fn.endswith("privkey") else "_get_address"
        if rec.calls != [(layer, purpose, acc, ext, ad)] or res is not rec:
            return f"{fn} (argument mode {mode}, account {account}, address {addr}) calls {rec.calls}, expected {[(layer, purpose, acc, ext, ad)]}"
    coin = "0'" if name == "mainnet" else "1'"
    for purpose in ("44'", "49'", "84'", "86'", "48h"):
        for what, kw, acc, ext, ad in (("no optional argument", {}, 0, True, 0), ("account_num alone", {"account_num": account}, account, True, 0),
                                       ("is_external=False alone", {"is_external": False}, 0, False, 0),
                                       ("address_num alone", {"address_num": addr}, 0, True, addr),
                                       ("all three", {"account_num": account, "is_external": False, "address_num": addr}, account, False, addr)):
            r_ = _PathRec(name)
            HDPrivateKey.get_private_key(r_, purpose, **kw)
            want = "m/%s/%s/%d'/%d/%d" % (purpose, coin, acc, 0 if ext else 1, ad)
            if r_.path != want:
                return f"get_private_key({purpose!r}, {what}) on {name} traverses {r_.path!r}, BIP44 says {want!r}"
    r_ = _PathRec(name)
    HDPrivateKey.get_private_key(r_, "84'", account, False, addr)
    if r_.path != "m/84'/%s/%d'/1/%d" % (coin, account, addr):
        return f"get_private_key('84h', {account}, False, {addr}) positionally traverses {r_.path!r}"
    return None


def p_addr_helper(seed, net, which, mode, account, addr):
    """end to end with a real key: helper number `which` of a master key on `net` returns the address (or private key)
    of the reference key at m/purpose'/coin'/account'/chain/address, encoded for the key's network by the reference
    encoders (purpose 44 base58 p2pkh, 49 p2sh-p2wpkh, 84 bech32 v0, 86 bech32m of the BIP86 output key)"""
    name = NETS[net]
    fn, purpose, ext = _HELPERS[which]
    k = HDPrivateKey.from_seed(seed, name)
    res, acc, ad = _call_helper(getattr(k, fn), mode, account, addr)
    idxs = [int(purpose[:-1]) + H31, (0 if name == "mainnet" else 1) + H31, acc + H31, 0 if ext else 1, ad]
    rk = r_derive(seed, idxs)[-1][0]
    if fn.endswith("privkey"):
        if res.secret != rk or _sec_or_err(res.point) != r_serP(r_point(rk)):
            return f"{fn} (argument mode {mode}) on {name} returns the secret {res.secret:x}, the reference key at {_path_text(idxs)} is {rk:x}"
        return None
    want = r_address(purpose, r_point(rk), name)
    if res != want:
        return f"{fn} (argument mode {mode}) on {name} returns {res}, the reference address at {_path_text(idxs)} is {want}"
    if mode == 0 and which == 0:
        for bad in ("45'", "44", "84h", ""):
            try:
                out = k._get_address(bad)
            except ValueError:
                continue
            return f"_get_address({bad!r}) returned {out!r}"
    return None


def p_key_record(seed, net, vi, idxs, style, mode):
    """generate_p2wsh_key_record of a master key: '[' fingerprint '/' path in h notation without 'm/' ']' xpub at that
    path; mode 0: no arguments (the network's default m/48h/coin h/0h/2h, the key's own public prefix); 1: the path
    alone; 2: use_slip132_version_byte=True alone (Zpub / Vpub); 3: both positionally; a key that is not a master
    key (depth, parent fingerprint or child number set) is refused"""
    name = NETS[net]
    apv, apb, pv, pb = _ver_pair(name, vi)
    k = HDPrivateKey.from_seed(seed, name, apv, apb)
    path = _path_text(idxs, style & 1)
    slip = bytes.fromhex("02aa7ed3") if name == "mainnet" else bytes.fromhex("02575483")
    dflt = [48 + H31, (0 if name == "mainnet" else 1) + H31, H31, 2 + H31]
    if mode == 0:
        got, ii, ver = k.generate_p2wsh_key_record(), dflt, pb
    elif mode == 1:
        got, ii, ver = k.generate_p2wsh_key_record(path), idxs, pb
    elif mode == 2:
        got, ii, ver = k.generate_p2wsh_key_record(use_slip132_version_byte=True), dflt, slip
    else:
        got, ii, ver = k.generate_p2wsh_key_record(path, True), idxs, slip
    nodes = r_derive(seed, ii)
    fp = r_hash160(r_serP(r_point(nodes[0][0])))[:4]
    want = "[" + fp.hex() + "/" + _path_text(ii, 1)[2:] + "]" + r_xpub(ver, nodes[-1])
    if got != want:
        return f"generate_p2wsh_key_record (argument mode {mode}, {name}) = {got}, the reference gives {want}"
    if _path_text(dflt, 1) != R_DEFAULT_P2WSH[name]:
        return "reference table"
    if mode == 0:
        rk, rc = nodes[0][0], nodes[0][1]
        for what, kk in (("depth 1", HDPrivateKey(PrivateKey(rk), rc, 1, _Z4, 0, name)),
                         ("parent fingerprint set", HDPrivateKey(PrivateKey(rk), rc, 0, b"\x00\x00\x00\x01", 0, name)),
                         ("child number 1", HDPrivateKey(PrivateKey(rk), rc, 0, _Z4, 1, name))):
            try:
                out = kk.generate_p2wsh_key_record()
            except ValueError:
                continue
            return f"generate_p2wsh_key_record accepted a key with {what}: {out}"
        for badp in ("m/48h/x", "48h/0h", "m/2147483648"):
            try:
                out = k.generate_p2wsh_key_record(badp)
            except ValueError:
                continue
            return f"generate_p2wsh_key_record accepted the path {badp!r}: {out}"
    return None


def p_results_survive(seed, net, vi, idxs, i1, i2, seed2):
    """results are re-observed AFTER later calls and after in-place edits of their source (and the source after
    edits of a result): children / grandchildren / traversals / parsed copies taken from one private key and from
    its .pub keep printing the reference strings while further children are derived, a parsed twin is edited, a
    child is edited, the parent and its .pub are edited; two calls never return one object, a child shares neither
    the PrivateKey object nor the .pub of its parent"""
    name = NETS[net]
    apv, apb, pv, pb = _ver_pair(name, vi)
    k = HDPrivateKey.from_seed(seed, name, apv, apb)
    for j in idxs:
        k = k.child(j)

    def nd(extra):
        return r_derive(seed, idxs + extra)[-1]

    kept = []

    def keep(what, obj, extra, priv):
        want = r_xprv(pv, nd(extra)) if priv else r_xpub(pb, nd(extra))
        kept.append((what, obj, want, priv))

    def recheck(when, skip=()):
        for what, obj, want, priv in kept:
            if what in skip:
                continue
            got = obj.xprv() if priv else obj.xpub()
            if got != want:
                return f"{when}: {what} now prints {got}, it was derived as {want}"
            if priv and obj.xpub() != obj.pub.xpub():
                return f"{when}: {what}: xpub() and .pub.xpub() differ"
        return None

    own_prv, own_pub = r_xprv(pv, nd([])), r_xpub(pb, nd([]))
    P = k.pub
    c1 = k.child(i1)
    keep("child i1", c1, [i1], True)
    pc1 = P.child(i1)
    keep("public child i1", pc1, [i1], False)
    bad = recheck("right after derivation")
    if bad:
        return bad
    c2 = k.child(i2)
    keep("child i2", c2, [i2], True)
    c1h = k.child(i1 + H31)
    keep("hardened child i1", c1h, [i1 + H31], True)
    pc2 = P.child(i2)
    keep("public child i2", pc2, [i2], False)
    t = k.traverse("m/%d/%d" % (i1, i2))
    keep("traverse m/i1/i2", t, [i1, i2], True)
    g = c1.child(i2)
    keep("grandchild via child i1", g, [i1, i2], True)
    pg = pc1.child(i2)
    keep("public grandchild", pg, [i1, i2], False)
    pt_ = P.traverse("m/%d/%d" % (i2, i1))
    keep("public traverse m/i2/i1", pt_, [i2, i1], False)
    again = k.child(i1)
    keep("child i1, second call", again, [i1], True)
    if again is c1 or again.pub is c1.pub or again.private_key is c1.private_key or P.child(i1) is pc1:
        return "two child(i1) calls returned one object (or objects sharing .pub / .private_key)"
    if c1.pub is P or c1.private_key is k.private_key or t is g or t.pub is g.pub:
        return "a child shares .pub / .private_key with its parent"
    q1, q2 = HDPrivateKey.parse(own_prv), HDPrivateKey.parse(own_prv)
    Q1, Q2 = HDPublicKey.parse(own_pub), HDPublicKey.parse(own_pub)
    keep("parsed twin (private)", q2, [], True)
    keep("parsed twin (public)", Q2, [], False)
    bad = recheck("after all derivations")
    if bad:
        return bad
    if k.xprv() != own_prv or k.xpub() != own_pub or P.xpub() != own_pub:
        return "the source key prints differently after its children were derived"
    k2, c2_ = r_master(seed2)
    # a parsed copy edited in place: its twin and the original stay
    for obj in (q1, q1.pub, Q1):
        obj.chain_code, obj.depth, obj.child_number, obj.parent_fingerprint = c2_, 9, 77, c2_[:4]
    q1.private_key.secret = k2
    Q1.point = S256Point(*r_point(k2))
    bad = recheck("after editing a parsed copy of the source in place")
    if bad:
        return bad
    # a child edited in place: parent, siblings, the grandchild derived before
    c1.chain_code, c1.depth, c1.child_number, c1.network = c2_, 200, 5, NETS[(net + 1) % 4]
    c1.pub.chain_code, c1.pub.depth, c1.pub.point = c2_, 200, S256Point(*r_point(k2))
    c1.private_key.secret = k2
    pc1.chain_code, pc1.depth, pc1.point = c2_, 201, S256Point(*r_point(k2))
    skip = ("child i1", "public child i1")
    bad = recheck("after editing child i1 and public child i1 in place", skip)
    if bad:
        return bad
    if k.xprv() != own_prv or k.xpub() != own_pub or k.child(i1).xprv() != r_xprv(pv, nd([i1])) or \
            P.child(i1).xpub() != r_xpub(pb, nd([i1])):
        return "after editing child i1 in place the parent prints / derives differently"
    # the parent and its .pub edited in place: everything derived before stays
    k.chain_code, k.depth, k.child_number, k.parent_fingerprint, k.network = c2_, 100, 3, c2_[4:8], NETS[(net + 2) % 4]
    P.chain_code, P.depth, P.child_number, P.point, P.network = c2_, 100, 3, S256Point(*r_point(k2)), NETS[(net + 2) % 4]
    k.private_key.secret = k2
    return recheck("after editing the parent and its .pub in place", skip)


def p_raw_parse_stream(raw1, raw2, is_priv, net):
    """raw_parse reads exactly 78 bytes of a longer stream: two payloads written one after the other parse as the
    first and then the second key (independent encoder for the expected strings), the stream stands at 78 / 156;
    the network argument passed positionally, by keyword and omitted"""
    cls = HDPrivateKey if is_priv else HDPublicKey
    s = BytesIO(raw1 + raw2 + b"\xee\xee")
    outs = []
    for n_, raw in enumerate((raw1, raw2)):
        if net < 0:
            k = cls.raw_parse(s)
        elif n_ == 0:
            k = cls.raw_parse(s, NETS[net])
        else:
            k = cls.raw_parse(s, network=NETS[net])
        if s.tell() != 78 * (n_ + 1):
            return f"raw_parse left the stream at {s.tell()} after key {n_ + 1}"
        got = k.xprv() if is_priv else k.xpub()
        if got != r_b58check(raw):
            return f"key {n_ + 1} of the stream prints {got}, written was {r_b58check(raw)}"
        wnet = "mainnet" if raw[:4] in _R_MAIN else ("testnet" if net < 0 else NETS[net])
        if k.network != wnet:
            return f"key {n_ + 1} of the stream has network {k.network!r}, expected {wnet!r}"
        outs.append((k, raw))
    for k, raw in outs:
        if (k.xprv() if is_priv else k.xpub()) != r_b58check(raw):
            return "the first key prints differently after the second was parsed"
    return None


def p_secure_secret_path_default(draws):
    """secure_secret_path() without argument: depth 4"""
    left = list(draws)
    old_rb = blinding.randbelow
    blinding.randbelow = lambda n: left.pop(0)
    try:
        out = blinding.secure_secret_path()
    finally:
        blinding.randbelow = old_rb
    if out != "m/" + "/".join(str(d) for d in draws[:4]) or len(left) != len(draws) - 4:
        return f"secure_secret_path() = {out!r} for the draws {draws}"
    return None


def p_unhardened_child_path(base, root):
    """get_unhardened_child_path(base, root): either None, or a path text p such that the components of base followed
    by those of p are exactly the components of root and p has no hardened step (read through the real traverse
    loop with the recording stub); None only if base is not a component prefix of root or a hardened step is left"""
    base, root = _txt(base), _txt(root)
    try:
        p = hd.get_unhardened_child_path(base, root)
    except ValueError:
        return f"get_unhardened_child_path({base!r}, {root!r}) raised for a valid root path" if hd.is_valid_bip32_path(root) else None
    bi, ri = i_path_indexes_priv(base.strip().encode()), i_path_indexes_priv(root.strip().encode())
    is_prefix = ri[:len(bi)] == bi
    rest = ri[len(bi):]
    if p is None:
        if is_prefix and all(i < H31 for i in rest):
            return f"get_unhardened_child_path({base!r}, {root!r}) is None, but {_path_text(rest)!r} leads from one to the other"
        return None
    if p != "m" and not p.startswith("m/"):
        return f"get_unhardened_child_path({base!r}, {root!r}) = {p!r}, which is not a path: string prefix instead of component prefix"
    try:
        pi = i_path_indexes_pub(p.encode())
    except Exception:
        return f"get_unhardened_child_path({base!r}, {root!r}) = {p!r}, which is not an unhardened path"
    if bi + pi != ri:
        return f"get_unhardened_child_path({base!r}, {root!r}) = {p!r}: {bi} + {pi} is not {ri}"
    return None



PROPS = {"from_mnemonic": p_from_mnemonic, "generate": p_generate, "from_shares": p_from_shares,
         "from_seed_defaults": p_from_seed_defaults, "ctor_defaults": p_ctor_defaults, "helper_plumbing": p_helper_plumbing,
         "addr_helper": p_addr_helper, "key_record": p_key_record, "results_survive": p_results_survive,
         "raw_parse_stream": p_raw_parse_stream, "secure_secret_path_default": p_secure_secret_path_default,
         "unhardened_child_path": p_unhardened_child_path,
         "xkey_header": p_xkey_header, "xkey_header_derive": p_xkey_header_derive,
         "int_digit_limit": p_int_digit_limit, "norm_meaning": p_norm_meaning, "text_spellings": p_text_spellings,
         "secure_secret_path": p_secure_secret_path, "depth_overflow": p_depth_overflow,
         "blind_degenerate": p_blind_degenerate, "pub_reuse": p_pub_reuse, "priv_reuse": p_priv_reuse, "blind_history": p_blind_history,
         "commute": p_commute, "refuse": p_refuse, "compose": p_compose, "case_notation": p_case_notation,
         "pub_path_same_as_priv": p_pub_path_same_as_priv, "vs_reference": p_vs_reference,
         "xkey_roundtrip": p_xkey_roundtrip, "raw_roundtrip": p_raw_roundtrip, "bad_xkey": p_bad_xkey,
         "bad_xkey_str": p_bad_xkey_str,
         "blind": p_blind, "vectors": p_vectors, "versions_table": p_versions_table}

# ------------------------------------------------------------------ generators

BOUND_IDX = [0, 1, H31 - 1, H31, 2 ** 32 - 1]


def ridx(r, hardened_ok=True):
    c = r.random()
    if c < 0.3:
        i = r.choice(BOUND_IDX)
    elif c < 0.6:
        i = r.randrange(0, 50)
    elif c < 0.8:
        i = r.randrange(0, H31)
    else:
        i = r.randrange(H31, 2 ** 32)
    if not hardened_ok and i >= H31:
        i -= H31
    return i


def rpath(r, maxd=8, hardened_ok=True):
    return [ridx(r, hardened_ok) for _ in range(r.randrange(0, maxd + 1))]


def rseed(r, ctx, i=None):
    ln = (16 + i % 49) if i is not None else r.randrange(16, 65)
    return ctx.rbytes(ln)


def rprivargs(r, ctx, k=None):
    """canonical argument tuple of a random private key"""
    secret = r.choice([1, 2, N - 1, r.randrange(1, N), r.randrange(1, N)])
    net = r.randrange(4)
    return [secret, ctx.rbytes(32), r.choice([0, 1, 5, 254, 255, r.randrange(256)]), ctx.rbytes(4),
            ridx(r), net, r.choice(ALL_PRV), r.choice(ALL_PUB)]


def rpubargs(r, ctx):
    secret = r.choice([1, 2, N - 1, r.randrange(1, N), r.randrange(1, N)])
    pt = r_point(secret)
    return [list(pt), ctx.rbytes(32), r.choice([0, 1, 5, 254, 255, r.randrange(256)]), ctx.rbytes(4),
            ridx(r), r.randrange(4), r.choice(ALL_PUB)]


_FUZZ_ATOMS = ["m", "M", "/", "/", "/", "0", "1", "7", "9", "'", "h", "H", "-", "+", "_", " ", "\t", "\n", "\x1c",
               "2147483647", "2147483648", "4294967295", "4294967296", "x", "mm", "//", "0x1", "1e3"]


def rforgiving(r):
    """paths is_valid_bip32_path accepts, in the spellings its normalisation forgives"""
    out = r.choice(["m", "M"])
    for _ in range(r.randrange(0, 7)):
        n = r.choice([0, 1, 7, 44, 84, H31 - 1, r.randrange(0, H31)])
        body = r.choice(["%d", "%d", "%d", "00%d", "+%d", " %d", "%d ", "\t%d"]) % n
        if r.random() < 0.15 and n >= 10:
            body = str(n)[0] + "_" + str(n)[1:]
        out += r.choice(["/", "/", "/", "//"]) + body + r.choice(["", "", "'", "h", "H"])
    return r.choice(["", "", "", " ", "\n", "\x1c"]) + out + r.choice(["", "", "", " ", "\t", "\x1f"])


def rfuzzpath(r):
    c = r.random()
    if c < 0.25:
        return rforgiving(r)
    c = r.random()
    if c < 0.35:
        s = _path_text(rpath(r, 6), r.randrange(4))
        # mutate
        for _ in range(r.randrange(0, 3)):
            pos = r.randrange(0, len(s) + 1)
            s = s[:pos] + r.choice(_FUZZ_ATOMS) + s[pos + r.randrange(0, 2):]
        return s
    if c < 0.7:
        parts = [r.choice(["m", "M", "m", " m", "m ", "", "mx", "n"])]
        for _ in range(r.randrange(0, 5)):
            body = r.choice(["0", "1", "12", "007", "1_0", "_1", "1_", "1__0", "+3", "-3", "-0", " 4", "4 ", "\t5\n",
                             "\x1c6", "", " ", "2147483647", "2147483648", "4294967295", "4294967296", "99999999999999999999",
                             "1h2", "a", "0x10", "1.0", "1e2", "+", "-", "--1", "+-1", "1 2"])
            parts.append(body + r.choice(["", "", "'", "h", "H", "''", "'h", "h'", " '", "' "]))
        sep = r.choice(["/", "/", "/", "//"])
        return sep.join(parts) + r.choice(["", "", "", "/", " ", "\n"])
    return "".join(r.choice(_FUZZ_ATOMS) for _ in range(r.randrange(0, 9)))


def generate(ctx):
    r = ctx.rng
    yield ("prop", "versions_table", [0])
    ctx.label("bip32-test-vector-strings-kept", len(VECTORS))
    ctx.label("bip32-test-vector-strings-dropped-bad-checksum", VECTORS_DROPPED)
    yield ("prop", "vectors", [0])

    # ---- the 78-byte header at its special values: depth 0/1/255 x parent fingerprint 00000000/ffffffff/random x
    # child number 0/2^31-1/2^31/2^32-1 x chain code 00..00/ff..ff/random x key 1/n-1/random (both SEC parities),
    # every field independently of the others (no derived key shows depth > 0 under fingerprint 00000000, ...).
    # Public side (no scalar multiplication): the full product under all 10 public prefixes.  Private side and
    # derivation / blinding FROM the parsed keys: a sub-family covering every pair of field values (quick), the
    # full product (thorough).  Built with the independent encoder only.
    hm_secs = [1, N - 1, r.randrange(2, N - 1), r.randrange(2, N - 1)]
    hm_keys = [(k, r_point(k)) for k in hm_secs]

    def hm_fp():
        b = ctx.rbytes(4)
        return b if b not in (_Z4, _F4) else b"\x12\x34\x56\x78"

    combos = []
    for a, d in enumerate(HM_DEPTH):
        for b in range(3):
            for c, n_ in enumerate(HM_NUM):
                for e in range(3):
                    combos.append((a, b, c, e, bytes([d]) + (_Z4, _F4, hm_fp())[b] + n_.to_bytes(4, "big") +
                                   (b"\x00" * 32, b"\xff" * 32, ctx.rbytes(32))[e]))

    def hm_class(h):
        d, f, n_ = h[0], h[1:5], int.from_bytes(h[5:9], "big")
        return "header-matrix/" + ("depth0-with-parent-or-index(BIP32-invalid)" if _bip32_calls_invalid(d, f, n_) else
                                   "depth>0-parent-fp-00000000" if d and f == _Z4 else
                                   "depth>0-parent-fp-ffffffff" if d and f == _F4 else
                                   "master-shape" if d == 0 else "child-shape")

    for ci, (a, b, c, e, h) in enumerate(combos):
        for vi in range(10):
            k, pt = hm_keys[(ci + vi) % 4]
            raw = R_PUB[vi] + h + r_serP(pt)
            ctx.label(hm_class(h))
            yield ("corr", "parse_pub", [raw])
            yield ("prop", "xkey_header", [raw, 0, [(ci + vi) % 5 - 1, (ci + vi + 2) % 5 - 1]])
            if vi == ci % 10:
                pa = [list(pt), h[9:41], h[0], h[1:5], int.from_bytes(h[5:9], "big"), ci % 4, R_PUB[vi]]
                yield ("corr", "parse_pub_str", [r_b58check(raw)])
                yield ("corr", "raw_parse_pub", [raw, [[], 0, 1, 2, 3, 4][ci % 6]])
                yield ("corr", "xpub_raw", [pa, [[], R_PUB[(vi + 3) % 10]][ci % 2]])
                yield ("corr", "xpub_str", [pa, []])
                yield ("corr", "raw_serialize_pub", [pa])
    # private side: first the 36 (depth, fingerprint, child number) triples with chain code and prefix chosen so
    # that every pair (field value, chain-code class) and every (prefix, depth) / (prefix, fingerprint) pair occurs
    first = [(ci, (c + 4 * a + 4 * b) % 10) for ci, (a, b, c, e, h) in enumerate(combos) if e == (a + b + c) % 3]
    fset = set(first)
    rest = [(ci, vi) for ci in range(len(combos)) for vi in range(10) if (ci, vi) not in fset]
    r.shuffle(rest)
    for j, (ci, vi) in enumerate((first + rest)[:ctx.n(36, 1080)]):
        a, b, c, e, h = combos[ci]
        k, pt = hm_keys[(ci + vi) % 4]
        raw = R_PRV[vi] + h + b"\x00" + k.to_bytes(32, "big")
        ctx.label(hm_class(h) + "/private")
        yield ("prop", "xkey_header", [raw, 1, [[], [], [], [[-1, 0, 1, 2, 3][(j // 4) % 5]]][j % 4]])
        kv = [k, h[9:41], h[0], h[1:5], int.from_bytes(h[5:9], "big"), j % 4, R_PRV[vi], R_PUB[(vi + j) % 10]]
        if j % 4 == 0:
            yield ("corr", "parse_priv", [raw])
        elif j % 12 == 1:
            yield ("corr", "raw_parse_priv", [raw, [[], 0, 1, 2, 3][j % 5]])
        elif j % 12 == 5:
            yield ("corr", "parse_priv_str", [r_b58check(raw)])
        elif j % 12 == 9:
            yield ("corr", "xprv_raw", [kv, []])
    # derivation and blinding FROM parsed keys: first every (depth, fingerprint) pair twice, child number and chain
    # code rotating, then the rest of the product
    dfirst = [ci for ci, (a, b, c, e, h) in enumerate(combos) if (c == (a + b) % 4 and e == (a + 2 * b) % 3)] + \
             [ci for ci, (a, b, c, e, h) in enumerate(combos) if (c == (a + b + 2) % 4 and e == (a + 2 * b + 1) % 3)]
    dset = set(dfirst)
    drest = [ci for ci in range(len(combos)) if ci not in dset]
    r.shuffle(drest)
    for j, ci in enumerate((dfirst + drest)[:ctx.n(10, 108)]):
        a, b, c, e, h = combos[ci]
        k, pt = hm_keys[(ci + j) % 4]
        i = [0, 1, H31 - 1][j] if j < 3 else ridx(r, hardened_ok=False)
        ctx.label(hm_class(h) + "/derive+blind-from-parsed")
        yield ("prop", "xkey_header_derive", [h, k, j + a, i, j % 2 if ctx.tier == "quick" else 2])
        depth, num = h[0], int.from_bytes(h[5:9], "big")
        pa = [list(pt), h[9:41], depth, h[1:5], num, [0, 1][(j + a) % 10 >= 5], R_PUB[(j + a) % 10]]
        if j % 3 == 0:
            sp = "m" + "/1h" * (depth - 1) + ("/%dh" % (num - H31) if num >= H31 else "/%d" % num) if depth else "m"
            yield ("corr", "blind_xpub", [pa[6] + h + r_serP(pt), sp, "m/%d" % i])
        elif j % 3 == 1:
            yield ("corr", "child_pub", [pa, i])
        elif j % 12 == 2:
            yield ("corr", "child_priv", [[k, h[9:41], depth, h[1:5], num, pa[5], R_PRV[(j + a) % 10], pa[6]], i + H31 * (j % 2)])

    # ---- text level: int(), path parsing through the real traverse loops, validity, combination (cheap)
    ints = ["0", "1", "007", "1_0", "_1", "1_", "1__0", "+3", "-3", "-0", " 4", "4 ", "\t5\n", "\x1c6", "6\x1f", "", " ",
            "2147483647", "2147483648", "4294967296", "1h", "a", "0x10", "1.0", "+", "-", "--1", "+-1", "1 2", "+ 1",
            "\x0b1\x0c", "1\r", "12345678901234567890123456789"]
    for s in ints:
        yield ("corr", "py_int", [s])
    for _ in range(ctx.n(300, 6000)):
        s = "".join(r.choice("0123456789012345 _+-\t\x1c'hm/") for _ in range(r.randrange(0, 7)))
        yield ("corr", "py_int", [s])
    # CPython's int-string limit (sys.get_int_max_str_digits() = 4300): digit characters are counted, leading zeros
    # included, underscores / sign / blanks not.  Model: dig_lim in Model/Hd.v.
    for nd in (4299, 4300, 4301, 4302, 5000):
        ctx.label("int-digit-limit/%s" % ("refused" if nd > 4300 else "accepted"))
        for s in ("0" * nd, "1" + "0" * (nd - 1), "0" * (nd - 1) + "7", "+" + "0" * nd, "-" + "0" * (nd - 1) + "1",
                  " " + "0" * nd + "\n", "0_" * (nd - 1) + "5", "9" * nd):
            yield ("corr", "py_int", [s])
        for comp in ("0" * nd, "0" * (nd - 1) + "3", "0_" * (nd - 1) + "3"):
            for s in ("m/" + comp, "m/" + comp + "h", "M/1/" + comp + "'/2", "m/" + comp + "/" + comp):
                yield ("corr", "is_valid_path", [s])
                yield ("corr", "path_indexes_priv", [s])
                yield ("corr", "path_indexes_pub", [s])
                yield ("corr", "combine_paths", [s, "m/1"])
                yield ("corr", "combine_paths", ["m/1h", s])
                yield ("corr", "ltrim_path", [s, 1])
        yield ("prop", "int_digit_limit", [nd])
    fixed = ["m", "M", "m/", "m/0", "M/0/1", "m/0'/1h/2H", "M/0H", "m//0", "m/0//1", "m/0/", "/0", "0/1", "", " m/0", "m/0 ",
             "m/-1", "m/-1'", "m/-5h", "m/2147483648", "m/2147483648'", "m/2147483647'", "m/4294967295", "m/4294967296",
             "mh/0", "m'/0", "H/0", "h", "m/1_0", "m/+1", "m/ 1/2", "m/1'/", "m/1''", "m/'", "m/h", "m/1/m/2", "m/m",
             "m/44'/0'/0'/0/0", "m/48h/1h/0h/2h", "M/48H/1H/0H/2H/0/5"]
    for s in fixed + [rfuzzpath(r) for _ in range(ctx.n(500, 12000))]:
        s = "".join(ch for ch in s if ord(ch) < 128)
        yield ("corr", "path_indexes_priv", [s])
        yield ("corr", "path_indexes_pub", [s])
        yield ("corr", "is_valid_path", [s])
        ctx.label("path/valid" if hd.is_valid_bip32_path(s) else "path/invalid")
        t = r.choice(fixed) if r.random() < 0.3 else rfuzzpath(r) if r.random() < 0.3 else _path_text(rpath(r, 4), r.randrange(4))
        t = "".join(ch for ch in t if ord(ch) < 128)
        yield ("corr", "combine_paths", [s, t])
        yield ("corr", "combine_paths", [t, s])
        yield ("corr", "ltrim_path", [s, r.choice([0, 1, 2, 3, 8, -1, -2, 300])])
    # long valid paths: the 255/256 component boundary of is_valid_bip32_path
    for cnt in (254, 255, 256, 257):
        s = "m" + "/1" * cnt
        yield ("corr", "is_valid_path", [s])
        yield ("corr", "combine_paths", [s, "m/2"])
        yield ("corr", "path_indexes_priv", [s])

    # ---- the texts the library writes / every spelling of an index list (Model/HdText.v)
    for n in [0, 1, 9, 10, 11, 99, 100, 101, 255, 256, H31 - 2, H31 - 1, H31, 2 ** 32 - 1, 2 ** 32, 10 ** 18, -1, -10,
              -H31, 10 ** 40, -10 ** 40, 2 ** 64] + [r.randrange(-1000, 10 ** r.randrange(1, 30)) for _ in range(ctx.n(40, 1500))]:
        yield ("corr", "dec", [n])
    for i in range(ctx.n(40, 1500)):
        idxs = [BOUND_IDX, [], [0], [H31 - 1, H31, 2 ** 32 - 1, 0, 1]][i] if i < 4 else rpath(r, 8)
        m, mark = r.choice([109, 77]), r.choice([39, 104, 72])
        ctx.label("path-text/depth-%d" % len(idxs))
        yield ("corr", "path_text", [m, mark, idxs])
        t = i_path_text(m, mark, idxs)
        yield ("corr", "path_indexes_priv", [t])
        yield ("corr", "path_indexes_pub", [t])
        yield ("corr", "is_valid_path", [t])
        yield ("prop", "text_spellings", [idxs])
    for i in range(ctx.n(150, 4000)):
        ts = []
        for _ in range(2):
            c = r.random()
            t = rforgiving(r).lstrip() if c < 0.5 else _path_text(rpath(r, 4), r.randrange(4)) + r.choice(["", " ", "\n", "\t ", "\x1c"])
            if c > 0.9:
                t = rfuzzpath(r)
            ts.append("".join(ch for ch in t if ord(ch) < 128))
        ctx.label("norm-meaning/%s" % ("both-valid" if all(hd.is_valid_bip32_path(t) for t in ts) else "some-invalid"))
        yield ("prop", "norm_meaning", ts)
    yield ("prop", "norm_meaning", ["M/1H/2 ", "m/3\t"])
    yield ("corr", "path_text", [109, 39, [-1, 2 ** 32, 2 ** 33]])      # outside the index range: still str()
    for cnt in (255, 256):
        yield ("prop", "text_spellings", [[r.choice(BOUND_IDX) for _ in range(cnt)]])
    for depth in [-1, 0, 1, 2, 4, 31, 32, 33, 100]:
        n_draws = depth if 1 <= depth < 32 else 0
        draws = [r.choice([0, 1, H31 - 2, r.randrange(0, H31 - 1)]) for _ in range(n_draws)]
        ctx.label("secure_secret_path/depth-%s" % ("ok" if 1 <= depth < 32 else "refused"))
        yield ("corr", "secure_secret_path", [depth, draws])
        if 1 <= depth <= 4:
            yield ("prop", "secure_secret_path", [depth, draws, ctx.rbytes(16)])
    yield ("corr", "secure_secret_path", [3, [1, 2]])            # the code asks for a third draw
    yield ("corr", "secure_secret_path", [2, [1, 2, 3]])         # a draw left over
    for i in range(ctx.n(30, 600)):
        purpose = r.choice(["44'", "49'", "84'", "86'", "0", "48h", "%d'" % r.randrange(0, H31), "x", ""])
        acc = r.choice([0, 1, 5, H31 - 1, H31, -1, r.randrange(0, H31)])
        addr = r.choice([0, 1, 19, H31 - 1, H31, -1, r.randrange(0, H31)])
        yield ("corr", "get_private_key_path", [purpose, r.randrange(4), acc, r.randrange(2), addr])
    for i in range(ctx.n(2, 40)):
        purpose = ["44'", "86'", "84'", "49'"][i % 4]
        acc = [0, 3, H31 - 1][i % 3] if i < 3 else r.randrange(0, H31)
        yield ("corr", "get_private_key", [rprivargs(r, ctx), purpose, acc, i % 2, r.choice([0, 1, H31 - 1, r.randrange(0, H31)])])
    yield ("corr", "get_private_key", [rprivargs(r, ctx), "44'", -1, 1, 0])       # "-1'" is the unhardened index 2^31 - 1
    yield ("corr", "get_private_key", [rprivargs(r, ctx), "44'", 0, 1, H31])      # plain 2^31 is read as hardened 0
    yield ("corr", "get_private_key", [rprivargs(r, ctx), "44'", H31, 1, 0])      # 2^31' overflows: child() raises
    # the key tree + serialization format of Spec/Bip32.v against from_seed / child / xprv / xpub
    for i in range(ctx.n(4, 120)):
        idxs = [BOUND_IDX, []][i] if i < 2 else rpath(r, 4)
        yield ("corr", "spec_tree", [rseed(r, ctx, i), idxs, ALL_PRV[i % 10], ALL_PUB[(i * 3) % 10]])
    for i in range(ctx.n(4, 80)):
        pa = rpubargs(r, ctx)
        idxs = [[H31 - 1, 0], [], [0, H31]][i] if i < 3 else rpath(r, 3, hardened_ok=(i % 7 == 0))
        yield ("corr", "spec_tree_pub", [pa[0], pa[1], idxs, ALL_PUB[i % 10]])
    # the _raw memo of HDPublicKey.raw_serialize(): call histories with .depth reassigned in between
    for ds in ([0], [0, 0, 0], [1, 2, 2], [255, 0], [256, 5, 6], [-1, 256, 3, 4], [300, 300]):
        ctx.label("raw-memo/history")
        yield ("corr", "raw_serialize_history", [rpubargs(r, ctx), ds])
    for i in range(ctx.n(5, 100)):
        yield ("corr", "raw_serialize_history", [rpubargs(r, ctx), [r.choice([0, 1, 255, 256, -1, r.randrange(300)])
                                                                  for _ in range(r.randrange(1, 6))]])
    for i in range(ctx.n(2, 20)):
        yield ("prop", "depth_overflow", [ctx.rbytes(16), [0, H31][i] if i < 2 else ridx(r)])
        a = rpath(r, 3)
        b = rpath(r, 3, hardened_ok=False)
        yield ("prop", "blind_degenerate", [ctx.rbytes(16), a if i else [H31, 0], b if i else [H31 - 1], r.randrange(4)])

    # ---- keys: constructors, one-step derivations, both sides
    for i in range(ctx.n(12, 49 * 3)):
        seed = rseed(r, ctx, i)
        ctx.label("seed-len/%d" % len(seed))
        net = i % 4
        ver = [] if i % 3 == 0 else r.choice(ALL_PRV)
        pv = [] if i % 3 != 1 else r.choice(ALL_PUB)
        yield ("corr", "from_seed", [seed, net, ver, pv])
        yield ("corr", "spec_master", [seed])
    yield ("corr", "from_seed", [ctx.rbytes(16), 4, [], []])          # unknown network: KeyError
    yield ("corr", "from_seed", [ctx.rbytes(16), 5, ALL_PRV[0], ALL_PUB[0]])
    yield ("corr", "from_seed", [b"", 0, [], []])
    # the code checks no seed length (BIP32 recommends 16..64 bytes): shorter and longer seeds derive too
    for ln in (1, 15, 65, 128, 1000):
        ctx.label("seed-len/outside-16..64")
        sd = ctx.rbytes(ln)
        yield ("corr", "from_seed", [sd, ln % 4, [], []])
        yield ("corr", "spec_master", [sd])
    for idx in BOUND_IDX + [-1, 2 ** 32, 2 ** 32 + 5] + [ridx(r) for _ in range(ctx.n(12, 300))]:
        kv = rprivargs(r, ctx)
        ctx.label("child/hardened" if idx >= H31 else "child/normal")
        yield ("corr", "child_priv", [kv, idx])
        if 0 <= idx < 2 ** 32:
            yield ("corr", "spec_ckd_priv", [kv[0], kv[1], idx])
        pa = rpubargs(r, ctx)
        yield ("corr", "child_pub", [pa, idx])
        if 0 <= idx < 2 ** 32:
            yield ("corr", "spec_ckd_pub", [pa[0], pa[1], idx])
    # depth 255 -> 256 is derivable but not serialisable
    kv = rprivargs(r, ctx)
    kv[2] = 255
    yield ("corr", "child_priv", [kv, 0])
    kv2 = list(kv)
    kv2[2] = 256
    yield ("corr", "xprv_raw", [kv2, []])
    # secret out of range, point at infinity, point off curve
    for s in (0, N, N + 1, -1):
        kv = rprivargs(r, ctx)
        kv[0] = s
        yield ("corr", "child_priv", [kv, 0])
        yield ("corr", "pub_of", [kv])
    pa = rpubargs(r, ctx)
    pa[0] = []
    yield ("corr", "child_pub", [pa, 0])
    yield ("corr", "fingerprint", [pa])
    yield ("corr", "xpub_raw", [pa, []])
    pa = rpubargs(r, ctx)
    pa[0] = [pa[0][0], (pa[0][1] + 1) % _P]
    yield ("corr", "child_pub", [pa, 0])
    for _ in range(ctx.n(6, 100)):
        kv = rprivargs(r, ctx)
        yield ("corr", "pub_of", [kv])
        pa = rpubargs(r, ctx)
        yield ("corr", "fingerprint", [pa])
        yield ("corr", "raw_serialize_pub", [pa])
        yield ("corr", "xpub_raw", [pa, r.choice([[]] + ALL_PUB)])
        yield ("corr", "xprv_raw", [kv, r.choice([[]] + ALL_PRV)])

    # ---- traverse with real keys
    for i in range(ctx.n(10, 250)):
        kv = rprivargs(r, ctx)
        idxs = rpath(r, 8 if i % 5 == 0 else 4)
        st = r.randrange(4)
        ctx.label("traverse/depth-%d" % len(idxs))
        yield ("corr", "traverse_priv", [kv, _path_text(idxs, st)])
        pa = rpubargs(r, ctx)
        un = rpath(r, 4, hardened_ok=(i % 6 == 5))
        yield ("corr", "traverse_pub", [pa, _path_text(un, st)])
    for s in ["m/0/x", "m//0", "n/0", "m/0/-1", "m/0/4294967296", "m/0/2147483648'", " m/0", "M", "m/-5'"]:
        yield ("corr", "traverse_priv", [rprivargs(r, ctx), s])
        yield ("corr", "traverse_pub", [rpubargs(r, ctx), s])

    # ---- codec: all 20 prefixes, depth 0..255, malformed
    for i in range(ctx.n(20, 400)):
        kv = rprivargs(r, ctx)
        kv[6] = ALL_PRV[i % 10]
        pa = rpubargs(r, ctx)
        pa[6] = ALL_PUB[i % 10]
        if i < 8:
            kv[2] = pa[2] = [0, 1, 127, 128, 254, 255, 0, 255][i]
        rawp = i_xprv_raw(kv, [])
        rawq = i_xpub_raw(pa, [])
        ctx.label("codec/prefix-%s" % kv[6].hex())
        ctx.label("codec/prefix-%s" % pa[6].hex())
        yield ("corr", "parse_priv", [rawp])
        yield ("corr", "parse_pub", [rawq])
        yield ("prop", "raw_roundtrip", [rawp, 1])
        yield ("prop", "raw_roundtrip", [rawq, 0])
        yield ("corr", "raw_parse_priv", [rawp, r.choice([[], 0, 1, 2, 3, 4])])
        yield ("corr", "raw_parse_pub", [rawq, r.choice([[], 0, 1, 2, 3, 4])])
        # the string layer (Base58Check model of C09 under the 78-byte codec)
        yield ("corr", "xprv_str", [kv, r.choice([[]] + ALL_PRV)])
        yield ("corr", "xpub_str", [pa, r.choice([[]] + ALL_PUB)])
        sp_, sq_ = helper.encode_base58_checksum(rawp), helper.encode_base58_checksum(rawq)
        yield ("corr", "parse_priv_str", [sp_])
        yield ("corr", "parse_pub_str", [sq_])
        yield ("corr", "parse_priv_str", [sq_])
        for s_, fn in ((sp_, "parse_priv_str"), (sq_, "parse_pub_str")):
            pos = r.randrange(len(s_))
            yield ("corr", fn, [s_[:pos] + r.choice(_B58 + "0OIl ") + s_[pos + 1:]])      # substitution
            yield ("corr", fn, [s_[:pos]])                                               # truncation
            yield ("corr", fn, [s_[:pos] + s_[pos + 1:]])                                # deletion
        # more malformed STRINGS, each run through the model (corr) and required to be refused (prop):
        # extension / insertion, transposition, a leading '1' (= a zero byte in front), wrong check bytes,
        # payload altered under the original check bytes, correctly checksummed payloads of the wrong length
        for s_, raw_, fn, isp in ((sp_, rawp, "parse_priv_str", 1), (sq_, rawq, "parse_pub_str", 0)):
            pos = r.randrange(len(s_) + 1)
            tp = r.randrange(len(s_) - 1)
            chk = helper.hash256(raw_)[:4]
            cpos, ppos = r.randrange(4), r.randrange(78)
            badchk = chk[:cpos] + bytes([chk[cpos] ^ (1 << r.randrange(8))]) + chk[cpos + 1:]
            badpay = raw_[:ppos] + bytes([raw_[ppos] ^ (1 << r.randrange(8))]) + raw_[ppos + 1:]
            sub = r.randrange(len(s_))
            bads = [s_[:pos] + r.choice(_B58) + s_[pos:],                       # one character inserted
                    s_ + r.choice(_B58),                                        # extended at the end
                    "1" + s_,                                                   # leading '1'
                    s_[:tp] + s_[tp + 1] + s_[tp] + s_[tp + 2:],                # transposition
                    s_[:sub] + r.choice(_B58) + s_[sub + 1:],                   # one character changed (alphabet)
                    s_[:-1],                                                    # last character dropped
                    s_[1:],                                                     # first character dropped
                    helper.encode_base58(raw_ + badchk),                        # check bytes altered
                    helper.encode_base58(badpay + chk),                         # payload altered, check bytes kept
                    helper.encode_base58_checksum(raw_[:77]),                   # 77-byte payload, good checksum
                    helper.encode_base58_checksum(raw_ + bytes([r.randrange(256)])),   # 79 bytes
                    helper.encode_base58_checksum(b"\x00" + raw_[:77]),         # 78 bytes behind a zero byte
                    helper.encode_base58_checksum(b"\x00\x00" + raw_),          # two leading zero bytes, 80 bytes
                    helper.encode_base58_checksum(b""),                         # empty payload
                    "", "1", "1111"]
            for b_ in bads:
                yield ("corr", fn, [b_])
            yield ("prop", "bad_xkey_str", [s_, bads, isp])
            ctx.label("xkey-string/malformed-classes", len(bads))
        # wrong class of key
        yield ("corr", "parse_priv", [rawq])
        yield ("corr", "parse_pub", [rawp])
        # malformed: truncation / extension, byte flips, unknown version, bad key prefix
        for raw, fn, isp in ((rawp, "parse_priv", 1), (rawq, "parse_pub", 0)):
            cut = r.randrange(0, 78)
            yield ("corr", fn, [raw[:cut]])
            yield ("prop", "bad_xkey", [raw[:cut], isp])
            yield ("corr", "raw_" + fn, [raw[:cut], []])          # silent short reads of raw_parse
            yield ("corr", fn, [raw + ctx.rbytes(r.randrange(1, 3))])
            yield ("prop", "bad_xkey", [raw + b"\x00", isp])
            pos = r.randrange(0, 78)
            bad = raw[:pos] + bytes([raw[pos] ^ (1 << r.randrange(8))]) + raw[pos + 1:]
            yield ("corr", fn, [bad])
            badv = bytes([raw[0], raw[1], raw[2], raw[3] ^ 1]) + raw[4:]
            yield ("corr", fn, [badv])
            yield ("prop", "bad_xkey", [badv, isp])
            badk = raw[:45] + bytes([r.choice([1, 4, 5, 255] if isp else [0, 1, 4, 5, 255])]) + raw[46:]
            yield ("corr", fn, [badk])
            yield ("prop", "bad_xkey", [badk, isp])
        # private key bytes 0 and >= n
        for sec in (0, N, 2 ** 256 - 1):
            badp = rawp[:46] + sec.to_bytes(32, "big")
            yield ("corr", "parse_priv", [badp])
            yield ("prop", "bad_xkey", [badp, 1])
    for cut in range(0, 79):
        yield ("corr", "parse_priv", [rawp[:cut]])
        yield ("corr", "raw_parse_priv", [rawp[:cut], []])
        yield ("corr", "raw_parse_pub", [rawq[:cut], []])

    # ---- the property on the implementation
    for idx in BOUND_IDX + [-1, -2 ** 31, 2 ** 32, 2 ** 32 + 1, H31 + 1] + [ridx(r) for _ in range(ctx.n(6, 200))]:
        yield ("prop", "refuse", [ctx.rbytes(16), idx, r.randrange(4)])
    for i in range(ctx.n(14, 49 * 6)):
        seed = rseed(r, ctx, i)
        net = i % 4
        vi = -1 if i % 3 == 0 else i % 5
        idxs = rpath(r, 3)
        ci = [0, 1, H31 - 1][i % 3] if i < 6 else ridx(r, hardened_ok=False)
        yield ("prop", "commute", [seed, net, vi, idxs, ci])
        yield ("prop", "xkey_roundtrip", [seed, net, vi, idxs[:2], i, i + 3])
    for i in range(ctx.n(8, 200)):
        seed = rseed(r, ctx)
        net, vi = r.randrange(4), r.choice([-1, 0, 1, 2, 3, 4])
        d = 8 if i == 0 else r.randrange(0, 7)
        idxs = rpath(r, d) if i else [ridx(r) for _ in range(8)]
        cut = r.randrange(0, len(idxs) + 1)
        a, b = idxs[:cut], idxs[cut:]
        if i % 2:
            b = [j % H31 for j in b]
        yield ("prop", "compose", [seed, net, vi, a, b, r.randrange(4), r.randrange(4)])
        yield ("prop", "vs_reference", [seed, net, vi, rpath(r, 4) if i else BOUND_IDX + [H31 + 1, 5, 2 ** 32 - 2]])
    for i in range(ctx.n(5, 120)):
        idxs = rpath(r, 5)
        yield ("prop", "case_notation", [rseed(r, ctx), idxs])
    for s in ["M/0/1", "M", "M/2147483647", "m/0/1", "M/1_0", "M/ 3"]:
        yield ("prop", "pub_path_same_as_priv", [ctx.rbytes(16), s])
    for i in range(ctx.n(6, 150)):
        seed = rseed(r, ctx)
        a = rpath(r, 4)
        b = rpath(r, 4 if i else 8, hardened_ok=False)
        if i == 1:
            a, b = [], [0]
        if i == 2:
            a, b = [H31], []
        yield ("prop", "blind", [seed, r.randrange(4), r.choice([-1, 0, 1, 2, 3, 4]), a, b, r.randrange(4), r.randrange(4)])
        # correspondence of blind_xpub on the raw level
        k = _root(seed, i % 4, i % 5)
        st = k.traverse(_path_text(a, 0))
        raw = helper.raw_decode_base58(st.xpub())
        yield ("corr", "blind_xpub", [raw, _path_text(a, r.randrange(4)), _path_text(b, r.randrange(4))])
        if i % 3 == 0:
            yield ("corr", "blind_xpub", [raw, _path_text(a + [1], 0), _path_text(b, 0)])
            yield ("corr", "blind_xpub", [raw, _path_text(a, 0), _path_text(b + [H31], 0)])
            yield ("corr", "blind_xpub", [raw, "m" + "//1" * len(a), "m//2"])

    # ---- state kept across calls: one key object through a call history with in-place edits
    for i in range(ctx.n(3, 40)):
        seed, seed2 = rseed(r, ctx), ctx.rbytes(16)
        net, vi = (i + 1) % 4, [-1, 2, 0, 4][i % 4]
        idxs = rpath(r, 2)
        i1 = [5, H31 - 2][i % 2] if i < 2 else r.randrange(0, H31 - 1)
        i2 = r.choice([0, 1, i1 + 1, r.randrange(0, H31)])
        ctx.label("reuse/one-HDPublicKey-history+edits")
        yield ("prop", "pub_reuse", [seed, net, vi, idxs, i1, i2, i, i + 3 + r.randrange(5), seed2])
        ctx.label("reuse/one-HDPrivateKey-history+edits")
        yield ("prop", "priv_reuse", [rseed(r, ctx), (net + 2) % 4, [1, -1, 3][i % 3], rpath(r, 2),
                                      r.randrange(0, 50) if i % 2 == 0 else r.randrange(0, H31 - 1), i + 1, i + 2 + r.randrange(6),
                                      ctx.rbytes(16)])
    for i in range(ctx.n(2, 20)):
        s1, s2 = [ridx(r, False), ridx(r, False)], [ridx(r, False)]
        ctx.label("reuse/blind_xpub-history")
        yield ("prop", "blind_history", [rseed(r, ctx), rpath(r, 2), [s1, s2, s1, s1[:1] + s2, s2]])

    # ---- entry points most callers bypass, optional arguments left out, results re-observed after later calls
    ctx.label("bip39-memory-sentences-reproduced-by-the-reference-encoder", BIP39_SENTENCES_OK)
    ents = [b"\x00" * 16, b"\xff" * 32, b"\x7f" * 16, b"\x80" * 24]
    for i in range(ctx.n(8, 64)):
        mode = [0, 1, 2, 3, 4, 5, 4 + 8, 2 + 8][i % 8]
        ent = ents[i] if i < 4 else ctx.rbytes([16, 20, 24, 28, 32][i % 5])
        idxs = rpath(r, 2) or [H31 + 44]
        pw = [b"TREZOR", ctx.rbytes(1 + i % 7)][i % 2]
        ctx.label("from_mnemonic/argument-mode-%d" % mode)
        yield ("prop", "from_mnemonic", [ent, pw, idxs, r.randrange(4), 1 + i % 3, [-1, 1, 4][i % 3], mode])
    for i in range(ctx.n(3, 12)):
        ctx.label("generate/argument-mode-%d" % (i % 3))
        yield ("prop", "generate", [ctx.rbytes(32), ctx.rbytes(4), r.randrange(1, 2 ** 64), 1 + i % 3, [2, -1][i % 2], i % 3])
    for i in range(ctx.n(6, 24)):
        ctx.label("from_shares/argument-mode-%d" % (i % 6))
        yield ("prop", "from_shares", [ctx.rbytes(16), ctx.rbytes(1 + i % 5), ctx.rbytes(6), rpath(r, 2) or [H31], r.randrange(4),
                                       1 + i % 3, i % 6])
    for i in range(ctx.n(2, 12)):
        ctx.label("from_seed/optional-arguments-one-by-one")
        yield ("prop", "from_seed_defaults", [rseed(r, ctx), [1, 0, 2, 3][i % 4], i % 5])
    yield ("corr", "from_seed", [ctx.rbytes(16), 1, [], ALL_PUB[7]])              # priv_version None, pub_version given
    yield ("corr", "from_seed", [ctx.rbytes(16), 0, [], ALL_PUB[8]])
    for i in range(ctx.n(2, 12)):
        ctx.label("constructors-direct/optional-arguments-one-by-one")
        yield ("prop", "ctor_defaults", [r.choice([1, N - 1, r.randrange(1, N)]) if i else r.randrange(1, N), ctx.rbytes(32), [3, 1, 2, 0][i % 4],
                                         i % 5, [1, 255, 0, 7][i % 4], [_Z4, _F4, ctx.rbytes(4)][i % 3],
                                         [H31, 0, 2 ** 32 - 1, 5][i % 4]])
    for net in range(4):
        for mode in range(5):
            ctx.label("address-helpers/plumbing-argument-mode-%d" % mode)
            yield ("prop", "helper_plumbing", [net, mode, [3, H31 - 1, r.randrange(1, H31)][(net + mode) % 3],
                                               [7, 0, r.randrange(1, H31)][(net + 2 * mode) % 3] + (1 if mode else 0)])
    for j in range(ctx.n(12, 80)):
        w = j % 10
        mode = [0, 3, 1, 2, 4][(j + j // 10) % 5]
        ctx.label("address-helpers/end-to-end/%s/%s" % (_HELPERS[w][0], NETS[(j + j // 10) % 4]))
        yield ("prop", "addr_helper", [rseed(r, ctx), (j + j // 10) % 4, w, mode, r.choice([1, 2, H31 - 1, r.randrange(1, H31)]),
                                       r.choice([3, 19, H31 - 1, r.randrange(1, H31)])])
    for j in range(ctx.n(4, 24)):
        ctx.label("key-record/argument-mode-%d" % (j % 4))
        idxs = [[48 + H31, H31, 5], [45 + H31], [0, 1], [H31 + 1, 2, H31 - 1 + H31]][j % 4] if j < 8 else (rpath(r, 4) or [0])
        yield ("prop", "key_record", [rseed(r, ctx), [1, 0, 3, 2][j % 4] if j >= 4 or j != 1 else 0, [3, -1, 0][j % 3], idxs, j // 2, j % 4])
    for j in range(ctx.n(2, 16)):
        ctx.label("results-re-observed-after-later-calls-and-edits")
        i1 = [0, H31 - 1][j] if j < 2 else r.randrange(0, H31)
        yield ("prop", "results_survive", [rseed(r, ctx), j % 4, [2, -1][j % 2], rpath(r, 1), i1, r.choice([1, 2, r.randrange(1, H31 - 1)]),
                                           ctx.rbytes(16)])
    for j in range(ctx.n(5, 40)):
        isp = 1 if j % 4 == 3 else 0
        raws = []
        for t in range(2):
            k_ = r.randrange(1, N)
            hdr = bytes([r.choice([0, 1, 255])]) + ctx.rbytes(4) + ridx(r).to_bytes(4, "big") + ctx.rbytes(32)
            vi_ = 5 + (j + t) % 5 if (j + t) % 2 == 0 else (j + t) % 5
            raws.append((R_PRV[vi_] + hdr + b"\x00" + k_.to_bytes(32, "big")) if isp else (R_PUB[vi_] + hdr + r_serP(r_point(k_))))
        ctx.label("raw_parse/two-keys-in-one-stream")
        yield ("prop", "raw_parse_stream", [raws[0], raws[1], isp, j % 5 - 1])
    yield ("prop", "secure_secret_path_default", [[r.randrange(0, H31 - 1) for _ in range(6)]])
    # exactly ONE component hardened, at every position (and exactly one NOT hardened): the marker of one component
    # must not decide for the others
    for ln in range(1, 6):
        for pos in range(ln):
            base = [r.randrange(0, 50) for _ in range(ln)]
            one = [v + H31 if p_ == pos else v for p_, v in enumerate(base)]
            allbut = [v if p_ == pos else v + H31 for p_, v in enumerate(base)]
            ctx.label("path/one-component-hardened")
            for idxs in (one, allbut):
                yield ("prop", "text_spellings", [idxs])
                t = i_path_text(r.choice([109, 77]), r.choice([39, 104, 72]), idxs)
                yield ("corr", "path_indexes_priv", [t])
                yield ("corr", "path_indexes_pub", [t])
    for pos in range(3):
        idxs = [v + H31 if p_ == pos else v for p_, v in enumerate([r.randrange(0, 50) for _ in range(3)])]
        yield ("corr", "traverse_priv", [rprivargs(r, ctx), _path_text(idxs, pos)])
        yield ("corr", "traverse_pub", [rpubargs(r, ctx), _path_text(idxs, pos + 1)])
    # get_unhardened_child_path (psbt_helper reads it): component-aligned prefixes, hardened remainders, non-prefixes
    ucp = [("m/48h/1h", "m/48h/1h/0/5"), ("m", "m/0/1"), ("m/1", "m/1"), ("M/48H/1h", "m/48'/1'/3"), ("m/1", "m/2/3"),
           ("m/48h", "m/48h/1h/0"), ("m/1/2", "m/1"), ("m/4", "m/44h/0"), ("m/0'", "m/0h/7"), (" m/3", "m/3/4 ")]
    for j in range(ctx.n(10, 200)):
        whole = rpath(r, 6)
        cut = r.randrange(0, len(whole) + 1)
        tail_ = [v % H31 for v in whole[cut:]] if j % 3 else whole[cut:]
        ucp.append((_path_text(whole[:cut], r.randrange(4)), _path_text(whole[:cut] + tail_, r.randrange(4))))
    # string prefix that is no component prefix (was: 'm0/2' returned for m/1 and m/10/2; fixed in /repo)
    ucp += [("m/1", "m/10/2"), ("m/48h/1", "m/48h/10/2"), ("m/4", "m/44/1"), ("M/1", "m/1h/2"), ("m/1/2", "m/1/23/4"),
            ("m/4", "m/45/0/1"), ("m/48'", "m/48'0"), ("m/48'/0'", "m/48h/0h"), (" M/48H/1'/7 ", "\tm/48h/1H/7/0/1\n"),
            ("m/48h/1h", "M/48H/1H/2H"), ("m/48h/1h", "m/48h/1h/2/3h"), ("m/2147483647", "m/2147483647/2147483647")]
    for j in range(ctx.n(10, 200)):
        pre = rpath(r, 3)
        d_ = r.randrange(0, 200)
        root_ = pre + [d_ * 10 ** r.randrange(1, 3) + r.randrange(0, 10)] + rpath(r, 2, hardened_ok=False)
        ctx.label("unhardened-child-path/base-is-a-text-prefix-inside-a-component")
        ucp.append((_path_text(pre + [d_], r.randrange(4)), _path_text(root_, r.randrange(4))))
    for a_, b_ in ucp:
        ctx.label("unhardened-child-path")
        yield ("prop", "unhardened_child_path", [a_, b_])
