"""C14 — BIP39 mnemonics (entropy + checksum, word list with four-letter prefixes) and
seed derivation through the vendored PBKDF2 class."""
import hashlib
import hmac
from fractions import Fraction

import gen_coq

gen_coq.main()  # coq/Generated/Wordlists.v follows the word-list files of /repo on every run

from buidl import helper, mnemonic, hd, shamir  # noqa: E402
from buidl.pbkdf2 import PBKDF2  # noqa: E402
from vp.sexp import ERR  # noqa: E402,F401

PID = "C14"
RULE = ("Entropy of all five lengths incl. all-00/all-ff; random word sequences of every length 0..26 (mostly "
        "invalid), every single-word substitution position of sampled valid mnemonics, unknown/upper-case/"
        "truncated words, four-letter-prefix spellings, every Unicode whitespace class for split(); every word and "
        "every four-letter prefix of both shipped word lists is looked up; PBKDF2: three digests x iteration counts "
        "1,2,3,2048 x dkLen 0,1,19,20,21,31,32,33,63,64,65,130 x single and multiple reads, against "
        "hashlib.pbkdf2_hmac; passphrases empty, ASCII, UTF-8 non-ASCII and raw high bytes. Second layer: the real encoder "
        "against the bit-string BIP-0039 specification (five sizes, boundaries, inadmissible sizes); WordList[int] with "
        "negative / out-of-range indices and `in`; UTF-8 of every encoding length class and lone surrogates; PBKDF2 object "
        "sessions (read/hexread/close, reads after close, negative sizes) and hand-set block counters around 2^32-1; "
        "HDPrivateKey.from_mnemonic with root / derived / hardened / malformed paths x four networks x explicit versions "
        "(fields, xprv(), xpub()), invalid mnemonics, unknown network; HDPrivateKey.generate with randbits/clock replaced.")
TRUSTED = ["hashlib/hmac (sha256, hmac-sha512/sha256/sha1): universally quantified functions in the theorems",
           "harness/gen_coq.py copies the word-list files into coq/Generated/Wordlists.v with the same "
           "`read().split()` the library uses",
           "modelled, not verified: str.lower() beyond ASCII (unreachable after mnemonic_to_bytes accepted); "
           "HDPrivateKey.from_seed / traverse / xprv / xpub are the C08 models (Model/Hd.v, Model/HdStr.v) composed in "
           "Model/MnemonicHd.v; the curve multiplication inside PrivateKey is C03",
           "pb_read_state sets the name-mangled private attributes _PBKDF2__buf / _PBKDF2__blockNum of a fresh object"]
ASSUMPTIONS = ["the PRF has a fixed positive output length (hypothesis of pbkdf2_eq_rfc8018)",
               "sha256 returns a non-empty digest of bytes (hypothesis of the mnemonic theorems)",
               "int(time()*1_000_000) and randbits(num_bits) of secure_mnemonic are inputs of the model"]

# one secp256k1 scalar multiplication does not finish under vm_compute inside Coq (see c08.py)
VM_SKIP = {"hd_from_mnemonic", "hd_generate"}

WL = [mnemonic.BIP39, shamir.SLIP39]
WORDS = list(mnemonic.BIP39.words)
# independent reference for the lookup: full words, and first four letters of longer words
REF_IDX = {}
for _i, _w in enumerate(WORDS):
    REF_IDX[_w] = _i
for _i, _w in enumerate(WORDS):
    if len(_w) > 4:
        REF_IDX.setdefault(_w[:4], _i)
DIGESTS = [("sha512", hashlib.sha512), ("sha256", hashlib.sha256), ("sha1", hashlib.sha1)]


def _txt(a):
    if isinstance(a, bytes):
        return a.decode("latin-1")
    return "".join(chr(c) for c in a)


def _cps(s):
    """text argument: bytes when every code point fits a byte, else the code point list"""
    if all(ord(c) < 256 for c in s):
        return s.encode("latin-1")
    return [ord(c) for c in s]


def i_secure_mnemonic(nb, extra, rnd, t):
    old = (mnemonic.randbits, mnemonic.time)
    mnemonic.randbits = lambda n: rnd
    mnemonic.time = lambda: Fraction(t, 1000000)   # int(time() * 1_000_000) == t exactly
    try:
        return mnemonic.secure_mnemonic(nb, extra)
    finally:
        mnemonic.randbits, mnemonic.time = old


def i_pbkdf2_reads(alg, pw, salt, c, ns):
    o = PBKDF2(pw, salt, iterations=c, digestmodule=DIGESTS[alg][1], macmodule=hmac)
    return [o.read(n) for n in ns]


def i_pbkdf2_ref(alg, pw, salt, c, dk):
    if dk == 0 and c >= 1:
        return b""          # hashlib refuses dklen 0; RFC/spec side yields the empty key
    return hashlib.pbkdf2_hmac(DIGESTS[alg][0], pw, salt, c, dk)


def i_from_seed(seed):
    h = hd.HDPrivateKey.from_seed(seed)
    return [h.private_key.secret, h.chain_code]


def i_from_mnemonic(t, pw):
    seen = []
    real = hd.hmac_sha512_kdf

    def spy(msg, salt):
        s = real(msg, salt)
        seen.append(s)
        return s
    hd.hmac_sha512_kdf = spy
    try:
        h = hd.HDPrivateKey.from_mnemonic(_txt(t), pw)
    finally:
        hd.hmac_sha512_kdf = real
    return [seen[0], h.private_key.secret, h.chain_code]


NETS = ["mainnet", "testnet", "signet", "regtest"]


def _opt(v):
    return None if v == [] else v


def i_spec_indices(e):
    """the real encoder, compared with the bit-string transcription of BIP-0039 (Spec/Bip39S.v)"""
    return [WORDS.index(w) for w in mnemonic.bytes_to_mnemonic(e, len(e) * 8).split(" ")]


def i_pbkdf2_session(alg, pw, salt, c, ops):
    o = PBKDF2(pw, salt, iterations=c, digestmodule=DIGESTS[alg][1], macmodule=hmac)
    out = []
    for op in ops:
        if op[0] == 2:
            r = o.close()
            out.append(b"" if r is None else r)
        else:
            out.append(_tryE(o.read if op[0] == 0 else o.hexread, op[1]))
    return out


def i_pb_read_state(alg, pw, salt, c, buf, blk, n):
    o = PBKDF2(pw, salt, iterations=c, digestmodule=DIGESTS[alg][1], macmodule=hmac)
    o._PBKDF2__buf = buf
    o._PBKDF2__blockNum = blk
    r = o.read(n)
    return [r, o._PBKDF2__buf, o._PBKDF2__blockNum]


def i_hd_from_mnemonic(t, pw, path, net, ver, pubver):
    h = hd.HDPrivateKey.from_mnemonic(_txt(t), pw, path.decode("ascii"), NETS[net] if 0 <= net < 4 else "net%d" % net,
                                      priv_version=_opt(ver), pub_version=_opt(pubver))
    assert h.pub.chain_code == h.chain_code and h.pub.depth == h.depth and h.pub.network == h.network
    return [h.private_key.secret, h.chain_code, h.depth, h.parent_fingerprint, h.child_number,
            NETS.index(h.network), h.priv_version, h.pub.pub_version, h.xprv(), h.xpub()]


def _with_rng(rnd, t, f):
    old = (mnemonic.randbits, mnemonic.time)
    mnemonic.randbits = lambda n: rnd
    mnemonic.time = lambda: Fraction(t, 1000000)
    try:
        return f()
    finally:
        mnemonic.randbits, mnemonic.time = old


def i_hd_generate(pw, extra, rnd, t, net):
    m, h = _with_rng(rnd, t, lambda: hd.HDPrivateKey.generate(password=pw, extra_entropy=extra, network=NETS[net]))
    return [m, h.xprv()]


IMPL = {
    "spec_indices": i_spec_indices,
    "spec_sentence": lambda e: mnemonic.bytes_to_mnemonic(e, len(e) * 8),
    "pbkdf2_session": i_pbkdf2_session,
    "pb_read_state": i_pb_read_state,
    "utf8": lambda t: _txt(t).encode("utf-8"),
    "kdf_str": lambda t, salt: helper.hmac_sha512_kdf(_txt(t), salt),
    "seed_utf8": lambda t, pw: i_from_mnemonic(t, pw)[0],
    "wl_getitem_int": lambda w, i: WL[w][i],
    "wl_contains": lambda w, t: _txt(t) in WL[w],
    "hd_from_mnemonic": i_hd_from_mnemonic,
    "hd_generate": i_hd_generate,
    "split": lambda t: [[ord(c) for c in w] for w in _txt(t).split()],
    "wl_index": lambda w, t: WL[w][_txt(t)],
    "wl_word": lambda w, i: WL[w][i],
    "wl_normalize": lambda w, t: WL[w].normalize(_txt(t)),
    "bytes_to_indices": lambda b, nb: [WORDS.index(w) for w in mnemonic.bytes_to_mnemonic(b, nb).split(" ")],
    "bytes_to_mnemonic": lambda b, nb: mnemonic.bytes_to_mnemonic(b, nb),
    "mnemonic_to_bytes": lambda t: mnemonic.mnemonic_to_bytes(_txt(t)),
    "secure_mnemonic": i_secure_mnemonic,
    "pbkdf2_reads": i_pbkdf2_reads,
    "pbkdf2_spec": i_pbkdf2_ref,
    "kdf": lambda msg, salt: helper.hmac_sha512_kdf(msg, salt),
    "from_seed": i_from_seed,
    "from_mnemonic": i_from_mnemonic,
}

# ---------------------------------------------------------------- reference (independent of buidl)


def ref_indices(entropy):
    ent = len(entropy) * 8
    cs = ent // 32
    bits = (int.from_bytes(entropy, "big") << cs) | (hashlib.sha256(entropy).digest()[0] >> (8 - cs))
    n = (ent + cs) // 11
    return [(bits >> (11 * (n - 1 - i))) & 2047 for i in range(n)]


def ref_decode(text):
    """None when BIP39 (full words or four-letter prefixes of longer words) rejects, else the entropy"""
    ws = text.split()
    if len(ws) not in (12, 15, 18, 21, 24):
        return None
    if any(w not in REF_IDX for w in ws):
        return None
    bits = 0
    for w in ws:
        bits = bits * 2048 + REF_IDX[w]
    cs = len(ws) // 3
    ent = bits >> cs
    e = ent.to_bytes((len(ws) * 11 - cs) // 8, "big")
    if hashlib.sha256(e).digest()[0] >> (8 - cs) != bits & ((1 << cs) - 1):
        return None
    return e


def ref_seed(words_full, pw):
    seed = hashlib.pbkdf2_hmac("sha512", " ".join(words_full).encode("utf-8"), b"mnemonic" + pw, 2048, 64)
    h = hmac.new(b"Bitcoin seed", seed, hashlib.sha512).digest()
    return seed, int.from_bytes(h[:32], "big"), h[32:]


def _try(f, *a):
    try:
        return f(*a)
    except Exception:
        return None

# ---------------------------------------------------------------- property predicates


def p_roundtrip(entropy):
    nb = len(entropy) * 8
    m = mnemonic.bytes_to_mnemonic(entropy, nb)
    ws = m.split(" ")
    if [WORDS.index(w) if w in WORDS else -1 for w in ws] != ref_indices(entropy):
        return "mnemonic is not the 11-bit groups of entropy || first ENT/32 bits of sha256(entropy)"
    if len(ws) != (nb + nb // 32) // 11:
        return "wrong number of words"
    if mnemonic.mnemonic_to_bytes(m) != entropy:
        return "mnemonic does not decode to the entropy"
    short = " ".join(w[:4] for w in ws)
    if mnemonic.mnemonic_to_bytes(short) != entropy:
        return "four-letter-prefix spelling does not decode to the entropy"
    if [mnemonic.BIP39.normalize(w[:4]) for w in ws] != ws:
        return "normalize(prefix) is not the full word"
    return None


def p_accept_iff(t):
    text = _txt(t)
    want = ref_decode(text)
    got = _try(mnemonic.mnemonic_to_bytes, text)
    if want is None and got is not None:
        return "word sequence accepted although length/word/checksum is invalid"
    if want is not None and got is None:
        return "valid word sequence rejected"
    if want != got:
        return "decoded entropy differs from BIP39"
    return None


def p_lookup_all():
    """finite: every word and every four-letter prefix of both lists maps to its position"""
    for wl in WL:
        for i, w in enumerate(wl.words):
            if wl[w] != i or wl[i] != w:
                return f"word {w!r} does not map to its index"
            if len(w) > 4 and (wl[w[:4]] != i or wl.normalize(w[:4]) != w):
                return f"prefix {w[:4]!r} does not map to {w!r}"
        if len(set(w[:4] for w in wl.words)) != len(wl.words):
            return "four-letter prefixes are not unique"
    return None


def p_pbkdf2(alg, pw, salt, c, ns):
    total = sum(ns)
    o = PBKDF2(pw, salt, iterations=c, digestmodule=DIGESTS[alg][1], macmodule=hmac)
    got = b"".join(o.read(n) for n in ns)
    want = hashlib.pbkdf2_hmac(DIGESTS[alg][0], pw, salt, c, total) if total else b""
    if got != want:
        return f"vendored PBKDF2 reads {ns} differ from hashlib.pbkdf2_hmac({DIGESTS[alg][0]}, c={c}, dkLen={total})"
    return None


def p_seed(entropy, pw, spelling):
    """spelling 0: full words; 1: four-letter prefixes; 2: alternating"""
    ws = mnemonic.bytes_to_mnemonic(entropy, len(entropy) * 8).split(" ")
    sp = [w if spelling == 0 or (spelling == 2 and i % 2) else w[:4] for i, w in enumerate(ws)]
    got = i_from_mnemonic(" ".join(sp).encode(), pw)
    want = ref_seed(ws, pw)
    if got[0] != want[0]:
        return "seed is not PBKDF2-HMAC-SHA512(mnemonic, 'mnemonic'+passphrase, 2048, 64)"
    if (got[1], got[2]) != (want[1], want[2]):
        return "master key / chain code are not the halves of HMAC-SHA512('Bitcoin seed', seed)"
    return None


def p_secure(nb, extra, rnd, t):
    m = i_secure_mnemonic(nb, extra, rnd, t)
    e = ((extra & ((1 << nb) - 1)) if extra >= (1 << nb) else extra) ^ t ^ rnd
    if ref_decode(m) != e.to_bytes(nb // 8, "big"):
        return "secure_mnemonic does not encode randbits ^ extra_entropy ^ time"
    return None


def p_generate(pw, extra, rnd, t, net):
    """HDPrivateKey.generate with randbits / clock replaced: the mnemonic is the BIP39 sentence of
    randbits ^ extra_entropy(masked) ^ clock and the key is BIP32-master(PBKDF2(sentence, 'mnemonic'+password))"""
    m, h = _with_rng(rnd, t, lambda: hd.HDPrivateKey.generate(password=pw, extra_entropy=extra, network=NETS[net]))
    e = (((extra & ((1 << 256) - 1)) if extra >= (1 << 256) else extra) ^ t ^ rnd).to_bytes(32, "big")
    ws = [REF_WORDS[0][i] for i in ref_indices(e)]
    if m != " ".join(ws):
        return "generate(): the mnemonic is not the BIP39 sentence of randbits ^ extra_entropy ^ time"
    seed, sec, cc = ref_seed(ws, pw)
    ver = bytes.fromhex("0488ade4" if net == 0 else "04358394")
    if (h.private_key.secret, h.chain_code, h.depth, h.network) != (sec, cc, 0, NETS[net]):
        return "generate(): the key is not the BIP32 master key of PBKDF2(sentence, 'mnemonic'+password)"
    if h.xprv() != _b58check(ver + bytes(9) + cc + b"\x00" + sec.to_bytes(32, "big")):
        return "generate(): xprv() is not the BIP32 serialisation of the master key"
    return None


def p_xprv(entropy, pw, net, spelling):
    """observation point of the property: HDPrivateKey.from_mnemonic(...).xprv() against hashlib + a
    hand-written BIP32 serialisation"""
    ws = [REF_WORDS[0][i] for i in ref_indices(entropy)]
    sp = [w if spelling == 0 or (spelling == 2 and i % 2) else w[:4] for i, w in enumerate(ws)]
    h = hd.HDPrivateKey.from_mnemonic(" ".join(sp), pw, network=NETS[net])
    seed, sec, cc = ref_seed(ws, pw)
    ver = bytes.fromhex("0488ade4" if net == 0 else "04358394")
    if h.xprv() != _b58check(ver + bytes(9) + cc + b"\x00" + sec.to_bytes(32, "big")):
        return "from_mnemonic(...).xprv() is not Base58Check(version || 0^9 || chain code || 00 || master key)"
    return None


# ---------------------------------------------------------------- histories: the same objects / functions used repeatedly
# A step's result must equal the stateless reference for ITS arguments whatever was asked before (no memo on the
# word lists, no module-level cache keyed by only part of the arguments, no PBKDF2 stream state leaking between
# objects, no seed remembered per mnemonic regardless of the passphrase).

import os as _os  # noqa: E402

_DIR = _os.path.dirname(mnemonic.__file__)
REF_WORDS = [open(_os.path.join(_DIR, f)).read().split() for f in ("bip39_words.txt", "slip39_words.txt")]
REF_LOOKUP = []
for _ws in REF_WORDS:
    _d = {}
    for _i, _w in enumerate(_ws):
        _d[_w] = _i
        if len(_w) > 4:
            _d[_w[:4]] = _i          # same order of insertion as the specification: later entries win
    REF_LOOKUP.append(_d)
B58 = "123456789ABCDEFGHJKLMNPQRSTUVWXYZabcdefghijkmnopqrstuvwxyz"
HNETS = ["mainnet", "testnet", "signet", "regtest"]


def _b58check(raw):
    raw = raw + hashlib.sha256(hashlib.sha256(raw).digest()).digest()[:4]
    n = int.from_bytes(raw, "big")
    out = ""
    while n:
        n, k = divmod(n, 58)
        out = B58[k] + out
    return "1" * (len(raw) - len(raw.lstrip(b"\x00"))) + out


def _tryE(f, *a, **kw):
    try:
        return f(*a, **kw)
    except Exception:
        return ERR


def _wl_step(op):
    which, kind, arg = op
    wl, words, look = WL[which], REF_WORDS[which], REF_LOOKUP[which]
    if kind == b"idx":
        t = _txt(arg)
        return _tryE(wl.__getitem__, t), look.get(t, ERR)
    if kind == b"word":
        return _tryE(wl.__getitem__, arg), (words[arg] if -len(words) <= arg < len(words) else ERR)
    if kind == b"norm":
        t = _txt(arg)
        return _tryE(wl.normalize, t), (words[look[t.lower()]] if t.lower() in look else ERR)
    if kind == b"in":
        t = _txt(arg)
        return _tryE(wl.__contains__, t), t in words
    raise ValueError(kind)


def _mn_step(op):
    kind = op[0]
    if kind == b"enc":
        e = op[1]
        want = " ".join(REF_WORDS[0][i] for i in ref_indices(e)) if len(e) in (16, 20, 24, 28, 32) else ERR
        return _tryE(mnemonic.bytes_to_mnemonic, e, len(e) * 8), want
    if kind == b"dec":
        t = _txt(op[1])
        want = ref_decode(t)
        return _tryE(mnemonic.mnemonic_to_bytes, t), (ERR if want is None else want)
    if kind == b"kdf":
        return _tryE(helper.hmac_sha512_kdf, _txt(op[1]), op[2]), \
            hashlib.pbkdf2_hmac("sha512", _txt(op[1]).encode("utf-8"), op[2], 2048, 64)
    if kind == b"seed":
        t, pw, net = _txt(op[1]), op[2], HNETS[op[3]]
        if ref_decode(t) is None:
            want = ERR
        else:
            full = [REF_WORDS[0][REF_LOOKUP[0][w]] for w in t.split()]
            seed, sec, cc = ref_seed(full, pw)
            ver = bytes.fromhex("0488ade4" if net == "mainnet" else "04358394")
            want = [sec, cc, net, _b58check(ver + bytes(9) + cc + b"\x00" + sec.to_bytes(32, "big"))]
        h = _tryE(hd.HDPrivateKey.from_mnemonic, t, pw, network=net)
        got = h if h is ERR else [h.private_key.secret, h.chain_code, h.network, h.xprv()]
        return got, want
    if kind == b"wl":
        return _wl_step(op[1:])
    raise ValueError(kind)


def _session(ops, step):
    from vp.sexp import canon
    for i, op in enumerate(ops):
        got, want = step(op)
        if got is ERR and want is ERR:
            continue
        if got is ERR or want is ERR or canon(got) != canon(want):
            def sh(v):
                return "an exception" if v is ERR else repr(v)[:100]
            return (f"step {i} {[x if not isinstance(x, bytes) or len(x) < 40 else x[:40] + b'...' for x in op]!r}: got "
                    f"{sh(got)}, reference gives {sh(want)} — after {i} earlier call(s) in this session")
    return None


def p_wordlist_session(ops):
    """lookups on the two shipped WordList objects in arbitrary order: index of a word / prefix, word of an index,
    normalize, membership — each equals the word file's content, whatever was looked up before"""
    return _session(ops, _wl_step)


def p_mnemonic_session(ops):
    """bytes_to_mnemonic / mnemonic_to_bytes / hmac_sha512_kdf / HDPrivateKey.from_mnemonic (and word-list lookups)
    called repeatedly with related arguments: every call equals BIP39 / PBKDF2-HMAC-SHA512 / BIP32 for its own
    arguments"""
    return _session(ops, _mn_step)


def p_pbkdf2_session(specs, ops):
    """several PBKDF2 objects alive at once (same passphrase, other salt / iteration count / digest): read, hexread,
    close and re-creation interleaved; each object's stream is the hashlib stream of ITS parameters and a closed
    object refuses to read"""
    def mk(sp):
        return PBKDF2(sp[1], sp[2], iterations=sp[3], digestmodule=DIGESTS[sp[0]][1], macmodule=hmac)
    objs = [mk(sp) for sp in specs]
    pos = [0] * len(specs)
    closed = [False] * len(specs)
    for i, (k, kind, n) in enumerate(ops):
        sp = specs[k]
        if kind == b"new":
            objs[k], pos[k], closed[k] = mk(sp), 0, False
            continue
        if kind == b"close":
            objs[k].close()
            closed[k] = True
            if objs[k].closed is not True:
                return f"step {i}: close() did not mark object {k} closed"
            continue
        got = _tryE(objs[k].read if kind == b"read" else objs[k].hexread, n)
        if closed[k]:
            if got is not ERR:
                return f"step {i}: object {k} was closed and still returned {n} key bytes"
            continue
        want = hashlib.pbkdf2_hmac(DIGESTS[sp[0]][0], sp[1], sp[2], sp[3], pos[k] + n)[pos[k]:] if pos[k] + n else b""
        if kind == b"hex":
            want = want.hex()
        if got is ERR or got != want:
            return (f"step {i}: {kind.decode()}({n}) on object {k} ({DIGESTS[sp[0]][0]}, c={sp[3]}, {pos[k]} bytes read so "
                    f"far) is not bytes {pos[k]}..{pos[k] + n} of hashlib.pbkdf2_hmac for its parameters")
        pos[k] += n
    return None


PROPS = {"roundtrip": p_roundtrip, "accept_iff": p_accept_iff, "lookup_all": p_lookup_all,
         "pbkdf2": p_pbkdf2, "seed": p_seed, "secure": p_secure, "generate": p_generate, "xprv": p_xprv,
         "wordlist_session": p_wordlist_session, "mnemonic_session": p_mnemonic_session,
         "pbkdf2_session": p_pbkdf2_session}

# ---------------------------------------------------------------- generators

SPACES = [9, 10, 11, 12, 13, 28, 29, 30, 31, 32, 133, 160, 5760, 8192, 8195, 8202, 8232, 8233, 8239, 8287, 12288]
NOT_SPACES = [8, 14, 27, 33, 127, 132, 134, 159, 161, 5759, 5761, 6158, 8191, 8203, 8204, 8231, 8234, 8288, 12287,
              12289, 65279, 0]
PASSPHRASES = [b"", b"TREZOR", b"a", "パスワード".encode(), "päß wörd".encode(), b"\xff\xfe\x00\x80", bytes(range(256))]
DKLENS = [0, 1, 19, 20, 21, 31, 32, 33, 63, 64, 65, 130]


def rentropy(ctx, n=None):
    r = ctx.rng
    n = n or r.choice([16, 20, 24, 28, 32])
    k = r.random()
    if k < 0.05:
        return bytes(n)
    if k < 0.1:
        return b"\xff" * n
    return ctx.rbytes(n)


def splits(r, total):
    k = r.choice([1, 2, 3, 5])
    cuts = sorted(r.randrange(0, total + 1) for _ in range(k - 1))
    out, prev = [], 0
    for c in cuts + [total]:
        out.append(c - prev)
        prev = c
    return out


def _shuffle_repeat(r, ops, repeat=0.3):
    ops = list(ops)
    r.shuffle(ops)
    for op in list(ops):
        if r.random() < repeat:
            ops.insert(r.randrange(len(ops) + 1), op)
    return ops


def wl_ops(ctx, k):
    """lookups around a few words: full word, prefix, near misses that share the first letters, the other list"""
    r = ctx.rng
    ops = []
    common = [w for w in REF_WORDS[1] if w in REF_LOOKUP[0]]
    for _ in range(k):
        which = r.randrange(2)
        words = REF_WORDS[which]
        i = r.randrange(len(words))
        w = r.choice(common) if r.random() < 0.3 else words[i]
        for t in (w, w[:4], w[:3], w[:5], w + "x", w[:4] + "zz", w.upper(), w[:4].capitalize(), w[:4].upper()):
            ops.append([which, b"idx", t.encode()])
            ops.append([which, b"norm", t.encode()])
            if r.random() < 0.4:
                ops.append([1 - which, r.choice([b"idx", b"norm", b"in"]), t.encode()])
            if r.random() < 0.3:
                ops.append([which, b"in", t.encode()])
        for j in (i, -i, i + len(words), i - len(words) - 1, len(words) - 1 - i):
            ops.append([r.randrange(2), b"word", j])
    return _shuffle_repeat(r, ops)


def mn_ops(ctx, seeds=3):
    """one entropy and a near one: spellings, broken variants, passphrases and networks in every order"""
    r = ctx.rng
    W = REF_WORDS[0]
    e1 = rentropy(ctx)
    e2 = e1[:-1] + bytes([e1[-1] ^ 1])
    ops, texts = [], []
    for e in (e1, e2):
        ws = [W[i] for i in ref_indices(e)]
        full = " ".join(ws)
        pre = " ".join(w[:4] for w in ws)
        mix = " ".join(w[:4] if r.random() < 0.5 else w for w in ws)
        p = r.randrange(len(ws))
        variants = [full, pre, mix,
                    " ".join(ws[:p] + [ws[p] + "x"] + ws[p + 1:]),            # unknown word sharing a prefix
                    " ".join(ws[:p] + [ws[p][:4] + "zz"] + ws[p + 1:]),
                    " ".join(ws[:p] + [ws[p].upper()] + ws[p + 1:]),
                    " ".join(ws[:-1] + [W[(REF_LOOKUP[0][ws[-1]] ^ 1)]]),         # checksum off by one bit
                    " ".join(ws[:p] + [W[r.randrange(2048)]] + ws[p + 1:]),
                    " ".join(ws[:-1]), " ".join(ws + [ws[0]]), "  " + full.replace(" ", "\t ") + "\n"]
        texts.append((full, pre, mix, variants[3], variants[6]))
        for t in variants:
            ops.append([b"dec", t.encode()])
        ops.append([b"enc", e])
        ops.append([b"enc", e[:16]])
        ops.append([b"enc", e + e[:4] if len(e) < 32 else e[:28]])
        ops.append([b"enc", e[:-1]])
        for w in r.sample(ws, 3):
            ops.append([b"wl", 0, b"norm", w[:4].encode()])
            ops.append([b"wl", 0, b"idx", (w + "x").encode()])
    pws = [b"", r.choice(PASSPHRASES[1:]), ctx.rbytes(r.randrange(1, 12))]
    (f1, p1, m1, bad1, badc1), (f2, p2, _m2, _b2, _c2) = texts
    cand = [(f1, pws[0]), (f1, pws[1]), (p1, pws[1]), (m1, pws[2]), (f2, pws[1]), (f1, pws[1]), (p2, pws[0]),
            (bad1, pws[1]), (badc1, pws[0])]
    for (t, pw) in r.sample(cand, min(len(cand), seeds + 2)):
        ops.append([b"seed", t.encode(), pw, r.choice([0, 0, 1, 2, 3])])
    ops.append([b"seed", f1.encode(), pws[1], 0])
    ops.append([b"seed", f1.encode(), pws[2], 1])
    for (t, salt) in [(f1, b"mnemonic" + pws[1]), (f1, b"mnemonic" + pws[2]), (f2, b"mnemonic" + pws[1]), (f1, b"mnemonic")]:
        ops.append([b"kdf", t.encode(), salt])
    return _shuffle_repeat(r, ops, 0.2)


def pb_session(ctx):
    r = ctx.rng
    pw = ctx.rbytes(r.choice([0, 1, 8, 64, 65, 130]))
    salt = ctx.rbytes(r.choice([0, 4, 8, 16]))
    alg, c = r.randrange(3), r.choice([1, 2, 3, 5])
    specs = [[alg, pw, salt, c], [alg, pw, salt + b"\x00", c], [alg, pw, salt, c + 1], [(alg + 1) % 3, pw, salt, c],
             [alg, pw + b"\x00", salt, c], [alg, pw, salt, c]]
    specs = r.sample(specs[1:], r.choice([1, 2, 4])) + [specs[0]]
    ops = []
    for _ in range(r.randrange(8, 30)):
        k = r.randrange(len(specs))
        x = r.random()
        if x < 0.6:
            ops.append([k, b"read", r.choice([0, 1, 5, 19, 20, 21, 32, 63, 64, 65, 130, r.randrange(0, 200)])])
        elif x < 0.8:
            ops.append([k, b"hex", r.choice([0, 1, 20, 33, 64, r.randrange(0, 100)])])
        elif x < 0.9:
            ops.append([k, b"close", 0])
            ops.append([k, r.choice([b"read", b"hex"]), r.choice([0, 1, 20])])
            if r.random() < 0.5:
                ops.append([k, b"close", 0])
        else:
            ops.append([k, b"new", 0])
    return [specs, ops]


def histories(ctx):
    for _ in range(ctx.n(20, 200)):
        ctx.label("history/wordlist-lookups")
        yield ("prop", "wordlist_session", [wl_ops(ctx, 4)])
    for _ in range(ctx.n(30, 600)):
        ctx.label("history/pbkdf2-objects")
        yield ("prop", "pbkdf2_session", pb_session(ctx))
    for _ in range(ctx.n(8, 100)):
        ctx.label("history/mnemonic-kdf-seed")
        yield ("prop", "mnemonic_session", [mn_ops(ctx)])



def generate(ctx):
    r = ctx.rng
    yield ("prop", "lookup_all", [])
    # --- word lists: every word and every prefix (both lists), out-of-range indices, near misses
    for which, wl in enumerate(WL):
        n = len(wl.words)
        for i, w in enumerate(wl.words):
            yield ("corr", "wl_index", [which, w.encode()])
            if len(w) > 4 or i % 8 == 0:
                yield ("corr", "wl_index", [which, w[:4].encode()])
            if i % 16 == 0:
                ctx.label("wordlist/near-miss")
                yield ("corr", "wl_index", [which, w[:3].encode()])
                yield ("corr", "wl_index", [which, w[:5].encode()])
                yield ("corr", "wl_index", [which, w.upper().encode()])
                yield ("corr", "wl_index", [which, (w + "s").encode()])
                yield ("corr", "wl_normalize", [which, w.upper().encode()])
                yield ("corr", "wl_normalize", [which, w[:4].capitalize().encode()])
                yield ("corr", "wl_word", [which, i])
        for i in (0, 1, n - 1, n, n + 1, 2 * n):
            yield ("corr", "wl_word", [which, i])
        yield ("corr", "wl_index", [which, b""])
    # --- split(): every whitespace class, neighbours of the classes
    for c in SPACES + NOT_SPACES:
        ctx.label("split/space" if chr(c).isspace() else "split/non-space")
        yield ("corr", "split", [[97, c, 98]])
        yield ("corr", "split", [[c, 97, c, c, 98, 99, c]])
    for _ in range(ctx.n(150, 4000)):
        alpha = [97, 98, 122] + r.sample(SPACES, 3) + r.sample(NOT_SPACES, 2)
        yield ("corr", "split", [[r.choice(alpha) for _ in range(r.randrange(0, 14))]])
    # --- entropy -> mnemonic -> entropy, all five lengths, boundaries
    for n in (16, 20, 24, 28, 32):
        for e in (bytes(n), b"\xff" * n, b"\x80" + bytes(n - 1), bytes(n - 1) + b"\x01"):
            ctx.label(f"entropy/{n * 8}/boundary")
            yield ("prop", "roundtrip", [e])
            yield ("corr", "bytes_to_mnemonic", [e, n * 8])
            yield ("corr", "bytes_to_indices", [e, n * 8])
            yield ("corr", "mnemonic_to_bytes", [mnemonic.bytes_to_mnemonic(e, n * 8).encode()])
    valid = []
    for _ in range(ctx.n(120, 5000)):
        e = rentropy(ctx)
        nb = len(e) * 8
        ctx.label(f"entropy/{nb}")
        m = mnemonic.bytes_to_mnemonic(e, nb)
        valid.append((e, m))
        yield ("prop", "roundtrip", [e])
        yield ("corr", "bytes_to_mnemonic", [e, nb])
        yield ("corr", "bytes_to_indices", [e, nb])
        yield ("corr", "mnemonic_to_bytes", [m.encode()])
        yield ("prop", "accept_iff", [m.encode()])
        ws = m.split(" ")
        # prefix spellings, mixed, odd whitespace (incl. Unicode spaces)
        sp = " ".join(w[:4] if r.random() < 0.5 else w for w in ws)
        ctx.label("mnemonic/prefix-spelling")
        yield ("corr", "mnemonic_to_bytes", [sp.encode()])
        yield ("prop", "accept_iff", [sp.encode()])
        sep = [chr(r.choice(SPACES)) * r.randrange(1, 3) for _ in ws]
        odd = chr(r.choice(SPACES)) * r.randrange(0, 2) + "".join(w + s for w, s in zip(ws, sep))
        ctx.label("mnemonic/odd-whitespace")
        yield ("corr", "mnemonic_to_bytes", [_cps(odd)])
        yield ("prop", "accept_iff", [_cps(odd)])
    # wrong num_bits / entropy length mismatch (the code truncates or pads silently)
    for _ in range(ctx.n(40, 800)):
        e = ctx.rbytes(r.choice([0, 1, 15, 16, 17, 20, 31, 32, 33, 40]))
        nb = r.choice([128, 160, 192, 224, 256, 0, 96, 127, 129, 255, 257, 288, 512, -128])
        ctx.label("bytes_to_mnemonic/length-mismatch" if nb in (128, 160, 192, 224, 256) else "bytes_to_mnemonic/bad-num_bits")
        yield ("corr", "bytes_to_mnemonic", [e, nb])
        yield ("corr", "bytes_to_indices", [e, nb])
    # --- single-word substitutions of valid mnemonics: every position for a few, sampled for the rest
    for j, (e, m) in enumerate(valid[: ctx.n(30, 600)]):
        ws = m.split(" ")
        for pos in (range(len(ws)) if j < ctx.n(4, 40) else [r.randrange(len(ws))]):
            for _ in range(2):
                bad = list(ws)
                bad[pos] = WORDS[r.randrange(2048)]
                if r.random() < 0.3:
                    bad[pos] = bad[pos][:4]
                t = " ".join(bad).encode()
                ctx.label("mnemonic/substituted-accepted" if ref_decode(t.decode()) is not None else "mnemonic/substituted-rejected")
                yield ("prop", "accept_iff", [t])
                yield ("corr", "mnemonic_to_bytes", [t])
        # the last word re-chosen among those with the same entropy bits (exactly one checksum fits)
        if j < ctx.n(3, 20):
            idx = ref_indices(e)
            cs = len(e) * 8 // 32
            for low in range(1 << cs):
                bad = ws[:-1] + [WORDS[(idx[-1] >> cs << cs) | low]]
                t = " ".join(bad).encode()
                ctx.label("mnemonic/checksum-sweep")
                yield ("prop", "accept_iff", [t])
                yield ("corr", "mnemonic_to_bytes", [t])
    # --- random word sequences of every length 0..26, unknown words
    for n in list(range(0, 27)) + [r.randrange(0, 27) for _ in range(ctx.n(150, 6000))]:
        ws = [WORDS[r.randrange(2048)] for _ in range(n)]
        k = r.random()
        if ws and k < 0.15:
            p = r.randrange(n)
            ws[p] = r.choice([ws[p].upper(), ws[p][:3], ws[p] + "x", "", "zzzz", ws[p][:5], ws[p].capitalize(), "é"])
            ctx.label("mnemonic/unknown-word")
        t = " ".join(ws)
        ctx.label(f"mnemonic/random-words/{'valid-len' if n in (12, 15, 18, 21, 24) else 'bad-len'}")
        yield ("prop", "accept_iff", [_cps(t)])
        yield ("corr", "mnemonic_to_bytes", [_cps(t)])
    # --- secure_mnemonic
    for i in range(ctx.n(40, 1500)):
        nb = r.choice([128, 160, 192, 224, 256])
        extra = r.choice([0, 1, (1 << nb) - 1, 1 << nb, (1 << nb) + 1, r.getrandbits(nb), r.getrandbits(nb + 40),
                          r.getrandbits(r.randrange(1, 300))])
        rnd = r.choice([0, (1 << nb) - 1, r.getrandbits(nb)])
        t = r.choice([0, 1, r.getrandbits(51), 1700000000123456])
        ctx.label("secure_mnemonic/extra-masked" if extra >= (1 << nb) else "secure_mnemonic/extra-small")
        yield ("corr", "secure_mnemonic", [nb, extra, rnd, t])
        yield ("prop", "secure", [nb, extra, rnd, t])
    for bad in ([100, 0, 1, 2], [128, -1, 1, 2], [0, 0, 0, 0], [264, 5, 1, 2]):
        yield ("corr", "secure_mnemonic", bad)
    # --- PBKDF2: vendored class vs RFC spec vs hashlib
    for alg in range(3):
        for c in (1, 2, 3):
            for dk in DKLENS:
                pw, salt = ctx.rbytes(r.choice([0, 1, 8, 63, 64, 65, 129, 200])), ctx.rbytes(r.choice([0, 1, 8, 16, 70]))
                ctx.label(f"pbkdf2/{DIGESTS[alg][0]}/c={c}")
                yield ("corr", "pbkdf2_reads", [alg, pw, salt, c, [dk]])
                yield ("corr", "pbkdf2_spec", [alg, pw, salt, c, dk])
                yield ("prop", "pbkdf2", [alg, pw, salt, c, [dk]])
                ns = splits(r, dk + r.randrange(0, 70))
                ctx.label("pbkdf2/multiple-reads")
                yield ("corr", "pbkdf2_reads", [alg, pw, salt, c, ns])
                yield ("prop", "pbkdf2", [alg, pw, salt, c, ns])
    for _ in range(ctx.n(60, 2500)):
        alg, c = r.randrange(3), r.choice([1, 1, 2, 3, 4, 7])
        pw, salt = ctx.rbytes(r.randrange(0, 140)), ctx.rbytes(r.randrange(0, 40))
        ns = [r.choice([0, 0, 1, 5, 20, 32, 64, 100, r.randrange(0, 200)]) for _ in range(r.randrange(1, 6))]
        yield ("corr", "pbkdf2_reads", [alg, pw, salt, c, ns])
        yield ("prop", "pbkdf2", [alg, pw, salt, c, ns])
        yield ("corr", "pbkdf2_spec", [alg, pw, salt, c, sum(ns)])
    # negative read sizes (Python slice semantics; outside the theorem's domain, model only)
    for ns in ([10, -3, 5], [70, -100, 5], [-1], [5, -5, -1, 200], [0, -1, 0]):
        ctx.label("pbkdf2/negative-read")
        yield ("corr", "pbkdf2_reads", [r.randrange(3), ctx.rbytes(5), ctx.rbytes(4), r.choice([1, 2]), ns])
    for c in (0, -1, -5):
        ctx.label("pbkdf2/iterations<1")
        yield ("corr", "pbkdf2_reads", [0, b"p", b"s", c, [10]])
        yield ("corr", "pbkdf2_spec", [0, b"p", b"s", c, 10])
    for i in range(ctx.n(3, 40)):
        alg = i % 3
        pw, salt = PASSPHRASES[i % len(PASSPHRASES)], ctx.rbytes(12)
        ns = splits(r, r.choice([64, 65, 130]))
        ctx.label("pbkdf2/c=2048")
        yield ("corr", "pbkdf2_reads", [alg, pw, salt, 2048, ns])
        yield ("prop", "pbkdf2", [alg, pw, salt, 2048, ns])
    # --- seed and master key
    for i in range(ctx.n(7, 120)):
        e = rentropy(ctx, [16, 20, 24, 28, 32][i % 5])
        pw = PASSPHRASES[i % len(PASSPHRASES)] if i < 2 * len(PASSPHRASES) else ctx.rbytes(r.randrange(0, 40))
        m = mnemonic.bytes_to_mnemonic(e, len(e) * 8)
        sp = i % 3
        ws = m.split(" ")
        t = " ".join(w if sp == 0 or (sp == 2 and j % 2) else w[:4] for j, w in enumerate(ws))
        ctx.label(f"seed/spelling={sp}/passphrase={'empty' if not pw else 'ascii' if all(b < 128 for b in pw) else 'non-ascii'}")
        yield ("prop", "seed", [e, pw, sp])
        yield ("corr", "from_mnemonic", [t.encode(), pw])
        yield ("corr", "kdf", [m.encode(), b"mnemonic" + pw])
    # invalid mnemonics never reach the KDF
    for (e, m) in valid[: ctx.n(4, 40)]:
        ws = m.split(" ")
        ws[r.randrange(len(ws))] = WORDS[r.randrange(2048)]
        yield ("corr", "from_mnemonic", [" ".join(ws).encode(), b""])
        yield ("corr", "from_mnemonic", [" ".join(ws[:-1]).encode(), b"x"])
    for _ in range(ctx.n(10, 200)):
        yield ("corr", "from_seed", [ctx.rbytes(r.choice([0, 1, 16, 32, 64, 65]))])
    # --- second layer -------------------------------------------------------------------------------------------
    # the real encoder against the bit-string transcription of BIP-0039 (all five sizes, boundaries, bad sizes)
    for n in (16, 20, 24, 28, 32):
        for e in (bytes(n), b"\xff" * n, b"\x80" + bytes(n - 1), bytes(n - 1) + b"\x01"):
            ctx.label(f"bip39-spec/{n * 8}/boundary")
            yield ("corr", "spec_indices", [e])
            yield ("corr", "spec_sentence", [e])
    for _ in range(ctx.n(100, 4000)):
        e = rentropy(ctx)
        ctx.label(f"bip39-spec/{len(e) * 8}")
        yield ("corr", "spec_indices", [e])
        if r.random() < 0.3:
            yield ("corr", "spec_sentence", [e])
    for n in (0, 1, 4, 12, 15, 17, 19, 21, 31, 33, 36, 40, 64):
        ctx.label("bip39-spec/inadmissible-size")
        yield ("corr", "spec_indices", [ctx.rbytes(n)])
        yield ("corr", "spec_sentence", [ctx.rbytes(n)])
    # WordList[int] incl. negative indices, `in`
    for which, wl in enumerate(WL):
        n = len(wl.words)
        for i in (0, 1, n - 1, n, n + 1, -1, -2, -n, -n - 1, -n + 1, 2 * n, -2 * n, r.randrange(-n, n), r.randrange(-n, n)):
            ctx.label("wordlist/getitem-int/" + ("neg" if i < 0 else "nonneg") + ("" if -n <= i < n else "/out-of-range"))
            yield ("corr", "wl_getitem_int", [which, i])
        for _ in range(ctx.n(12, 300)):
            w = wl.words[r.randrange(n)]
            for t in (w, w[:4], w[:3], w + "s", w.upper(), ""):
                ctx.label("wordlist/contains/" + ("member" if t in wl.words else "non-member"))
                yield ("corr", "wl_contains", [which, t.encode()])
    # str -> UTF-8 (PBKDF2._setup) and the KDF on a str
    CPS = [0, 1, 65, 127, 128, 255, 256, 2047, 2048, 4095, 4096, 55295, 55296, 56320, 57343, 57344, 65535, 65536,
           0x1F600, 0x10FFFF]
    for c in CPS:
        ctx.label("utf8/" + ("surrogate" if 0xD800 <= c <= 0xDFFF else "1" if c < 128 else "2" if c < 2048 else "3" if c < 65536 else "4"))
        yield ("corr", "utf8", [[c]])
        yield ("corr", "utf8", [[97, c, 98]])
    for _ in range(ctx.n(60, 2000)):
        yield ("corr", "utf8", [[r.choice(CPS + [r.randrange(0, 0x110000)]) for _ in range(r.randrange(0, 8))]])
    for i in range(ctx.n(3, 40)):
        t = [[112, 228, 223], [0x30D1, 0x30B9], [97, 32, 98], [0xD800], [0x1F600, 65]][i % 5]
        ctx.label("kdf/str-passphrase/" + ("ascii" if max(t) < 128 else "surrogate" if 0xD800 in t else "non-ascii"))
        yield ("corr", "kdf_str", [t, ctx.rbytes(r.randrange(0, 12))])
    # PBKDF2 object sessions: read / hexread / close interleaved (also reads after close, double close, negative sizes)
    for _ in range(ctx.n(60, 2500)):
        alg, c = r.randrange(3), r.choice([1, 1, 2, 3, 5])
        pw, salt = ctx.rbytes(r.choice([0, 1, 8, 64, 65, 130])), ctx.rbytes(r.choice([0, 4, 8, 16]))
        ops = []
        for _ in range(r.randrange(1, 10)):
            x = r.random()
            if x < 0.5:
                ops.append([0, r.choice([0, 1, 5, 19, 20, 21, 32, 63, 64, 65, 130, r.randrange(0, 200)])])
            elif x < 0.8:
                ops.append([1, r.choice([0, 1, 20, 33, 64, r.randrange(0, 100)])])
            elif x < 0.9:
                ops.append([2])
            else:
                ops.append([r.randrange(2), -r.randrange(1, 80)])
        ctx.label("pbkdf2-object/" + ("with-close" if [2] in ops else "open") + ("/negative-size" if any(len(o) == 2 and o[1] < 0 for o in ops) else ""))
        yield ("corr", "pbkdf2_session", [alg, pw, salt, c, ops])
    for c in (0, -3):
        yield ("corr", "pbkdf2_session", [0, b"p", b"s", c, [[0, 4], [2]]])
    # the "derived key too long" branch: block counter set next to 2^32 - 1 by hand
    M = 0xFFFFFFFF
    for alg in range(3):
        hl = [64, 32, 20][alg]
        for (buf_n, blk, n) in [(0, M, 1), (0, M, 0), (5, M, 5), (5, M, 6), (0, M - 1, hl), (0, M - 1, hl + 1), (3, M - 1, hl + 3),
                                (3, M - 1, hl + 4), (0, M - 2, 2 * hl + 1), (0, M - 2, 2 * hl), (0, M + 1, 1), (0, M + 5, 1),
                                (0, -1, 1), (0, -2, 1), (0, -5, hl), (7, 3, -2), (0, 0, hl + 1), (2, 41, 70)]:
            ctx.label("pbkdf2/derived-key-too-long" if blk + -(-(max(n - buf_n, 0)) // hl) > M else "pbkdf2/state-read")
            yield ("corr", "pb_read_state", [alg, ctx.rbytes(4), ctx.rbytes(4), r.choice([1, 2]), ctx.rbytes(buf_n), blk, n])
    # the outermost entry points: from_mnemonic(mnemonic, password, path, network, versions) -> fields, xprv(), xpub()
    PATHS = [b"m", b"m", b"M", b"m/0", b"m/0'", b"m/44h/0H/0'", b"m/84'/1'/0'/0/5", b"m/2147483647", b"m/2147483648",
             b"", b"x/0", b"m/", b"m/abc", b"m/-1", b"m/0/", b"n"]
    for i in range(ctx.n(16, 150)):
        e = rentropy(ctx, [16, 20, 24, 28, 32][i % 5])
        pw = PASSPHRASES[i % len(PASSPHRASES)] if i < len(PASSPHRASES) else ctx.rbytes(r.randrange(0, 40))
        ws = mnemonic.bytes_to_mnemonic(e, len(e) * 8).split(" ")
        sp = i % 3
        t = " ".join(w if sp == 0 or (sp == 2 and j % 2) else w[:4] for j, w in enumerate(ws))
        path = PATHS[i % len(PATHS)]
        net = [0, 1, 2, 3, 0][i % 5]
        ver, pubver = [], []
        if i % 4 == 3:
            ver, pubver = bytes.fromhex("04b2430c"), bytes.fromhex("04b24746")
        ctx.label(f"from_mnemonic/path={'root' if path.lower() == b'm' else 'bad' if path in (b'', b'x/0', b'm/', b'm/abc', b'm/-1', b'm/0/', b'n') else 'derived'}/net={NETS[net]}")
        yield ("corr", "hd_from_mnemonic", [t.encode(), pw, path, net, ver, pubver])
        yield ("prop", "xprv", [e, pw, net, sp])
        if i < ctx.n(3, 30):
            yield ("corr", "seed_utf8", [t.encode(), pw])
    for (e, m) in valid[: ctx.n(2, 20)]:
        ws = m.split(" ")
        ws[r.randrange(len(ws))] = WORDS[r.randrange(2048)]
        ctx.label("from_mnemonic/invalid-mnemonic")
        yield ("corr", "hd_from_mnemonic", [" ".join(ws).encode(), b"", b"m/0", 0, [], []])
        yield ("corr", "hd_from_mnemonic", [" ".join(ws[:-1]).encode(), b"x", b"m", 1, [], []])
    yield ("corr", "hd_from_mnemonic", [valid[0][1].encode(), b"", b"m", 7, [], []])      # unknown network
    # HDPrivateKey.generate with randbits / clock replaced
    for i in range(ctx.n(4, 60)):
        extra = r.choice([0, 1, (1 << 256) - 1, 1 << 256, r.getrandbits(256), r.getrandbits(300)])
        rnd = r.choice([0, (1 << 256) - 1, r.getrandbits(256)])
        t = r.choice([0, r.getrandbits(51), 1700000000123456])
        pw = ctx.rbytes(r.randrange(0, 12))
        ctx.label("generate/extra-masked" if extra >= (1 << 256) else "generate/extra-small")
        yield ("corr", "hd_generate", [pw, extra, rnd, t, i % 4])
        yield ("prop", "generate", [pw, extra, rnd, t, i % 4])
    yield ("corr", "hd_generate", [b"", -1, 5, 6, 0])
    yield ("corr", "hd_generate", [b"", 0, 1 << 256, 6, 0])
    # --- histories: the same word lists / PBKDF2 objects / functions used repeatedly
    yield from histories(ctx)
