"""C14 — BIP39 mnemonics (entropy + checksum, word list with four-letter prefixes) and
seed derivation through the vendored PBKDF2 class."""
import hashlib
import hmac
from fractions import Fraction

import gen_coq

gen_coq.main()  # coq/Generated/Wordlists.v follows the word-list files of /repo on every run

from buidl import helper, mnemonic, hd, shamir  # noqa: E402
from buidl.pbkdf2 import PBKDF2  # noqa: E402
from vp.sexp import ERR  # noqa: E402,F401

PID = "C14"
RULE = ("Entropy of all five lengths incl. all-00/all-ff; random word sequences of every length 0..26 (mostly "
        "invalid), every single-word substitution position of sampled valid mnemonics, unknown/upper-case/"
        "truncated words, four-letter-prefix spellings, every Unicode whitespace class for split(); every word and "
        "every four-letter prefix of both shipped word lists is looked up; PBKDF2: three digests x iteration counts "
        "1,2,3,2048 x dkLen 0,1,19,20,21,31,32,33,63,64,65,130 x single and multiple reads, against "
        "hashlib.pbkdf2_hmac; passphrases empty, ASCII, UTF-8 non-ASCII and raw high bytes. Second layer: the real encoder "
        "against the bit-string BIP-0039 specification (five sizes, boundaries, inadmissible sizes); WordList[int] with "
        "negative / out-of-range indices and `in`; UTF-8 of every encoding length class and lone surrogates; PBKDF2 object "
        "sessions (read/hexread/close, reads after close, negative sizes) and hand-set block counters around 2^32-1; "
        "HDPrivateKey.from_mnemonic with root / derived / hardened / malformed paths x four networks x explicit versions "
        "(fields, xprv(), xpub()), invalid mnemonics, unknown network; HDPrivateKey.generate with randbits/clock replaced. Entry-point audit: every public way into the mechanism "
        "with optional arguments left out / by keyword / defaults again after explicit arguments (secure_mnemonic, "
        "from_mnemonic, generate incl. one version only, PBKDF2 constructor, crypt with and without salt, hmac_sha512_kdf "
        "with text or bytes), from_shares (recovery replaced by a recorder + SLIP-0039 vector 1), "
        "calc_valid_seedpicker_checksums (complete for 23 words), newly constructed WordList objects / iteration / keys of "
        "other types, the generation self-check with a sabotaged decoder; sentences made only of 3-, 4-, 5-, 8-letter "
        "words and with exactly one word of the other kind, whole-sentence upper/title case, checksum byte 00/ff, "
        "sentences of 127/128/129 bytes and PBKDF2 keys of block length -1/0/+1; unknown words in valid sentences with the "
        "neighbour compensating a reading as 0 / -1 / 2048, near spellings of the right word; exactly one word "
        "shortened / in full; refused PBKDF2 read at block 2^32-1 followed by admissible reads.")
TRUSTED = ["hashlib/hmac (sha256, hmac-sha512/sha256/sha1): universally quantified functions in the theorems",
           "harness/gen_coq.py copies the word-list files into coq/Generated/Wordlists.v with the same "
           "`read().split()` the library uses",
           "modelled, not verified: str.lower() beyond ASCII (unreachable after mnemonic_to_bytes accepted); "
           "HDPrivateKey.from_seed / traverse / xprv / xpub are the C08 models (Model/Hd.v, Model/HdStr.v) composed in "
           "Model/MnemonicHd.v; the curve multiplication inside PrivateKey is C03",
           "pb_read_state sets the name-mangled private attributes _PBKDF2__buf / _PBKDF2__blockNum of a fresh object"]
ASSUMPTIONS = ["the PRF has a fixed positive output length (hypothesis of pbkdf2_eq_rfc8018)",
               "sha256 returns a non-empty digest of bytes (hypothesis of the mnemonic theorems)",
               "int(time()*1_000_000) and randbits(num_bits) of secure_mnemonic are inputs of the model"]

# one secp256k1 scalar multiplication does not finish under vm_compute inside Coq (see c08.py)
VM_SKIP = {"hd_from_mnemonic", "hd_generate"}

WL = [mnemonic.BIP39, shamir.SLIP39]
WORDS = list(mnemonic.BIP39.words)
# independent reference for the lookup: full words, and first four letters of longer words
REF_IDX = {}
for _i, _w in enumerate(WORDS):
    REF_IDX[_w] = _i
for _i, _w in enumerate(WORDS):
    if len(_w) > 4:
        REF_IDX.setdefault(_w[:4], _i)
DIGESTS = [("sha512", hashlib.sha512), ("sha256", hashlib.sha256), ("sha1", hashlib.sha1)]


def _txt(a):
    if isinstance(a, bytes):
        return a.decode("latin-1")
    return "".join(chr(c) for c in a)


def _cps(s):
    """text argument: bytes when every code point fits a byte, else the code point list"""
    if all(ord(c) < 256 for c in s):
        return s.encode("latin-1")
    return [ord(c) for c in s]


def i_secure_mnemonic(nb, extra, rnd, t):
    old = (mnemonic.randbits, mnemonic.time)
    mnemonic.randbits = lambda n: rnd
    mnemonic.time = lambda: Fraction(t, 1000000)   # int(time() * 1_000_000) == t exactly
    try:
        return mnemonic.secure_mnemonic(nb, extra)
    finally:
        mnemonic.randbits, mnemonic.time = old


def i_pbkdf2_reads(alg, pw, salt, c, ns):
    o = PBKDF2(pw, salt, iterations=c, digestmodule=DIGESTS[alg][1], macmodule=hmac)
    return [o.read(n) for n in ns]


def i_pbkdf2_ref(alg, pw, salt, c, dk):
    if dk == 0 and c >= 1:
        return b""          # hashlib refuses dklen 0; RFC/spec side yields the empty key
    return hashlib.pbkdf2_hmac(DIGESTS[alg][0], pw, salt, c, dk)


def i_from_seed(seed):
    h = hd.HDPrivateKey.from_seed(seed)
    return [h.private_key.secret, h.chain_code]


def i_from_mnemonic(t, pw):
    seen = []
    real = hd.hmac_sha512_kdf

    def spy(msg, salt):
        s = real(msg, salt)
        seen.append(s)
        return s
    hd.hmac_sha512_kdf = spy
    try:
        h = hd.HDPrivateKey.from_mnemonic(_txt(t), pw)
    finally:
        hd.hmac_sha512_kdf = real
    return [seen[0], h.private_key.secret, h.chain_code]


NETS = ["mainnet", "testnet", "signet", "regtest"]


def _opt(v):
    return None if v == [] else v


def i_spec_indices(e):
    """the real encoder, compared with the bit-string transcription of BIP-0039 (Spec/Bip39S.v)"""
    return [WORDS.index(w) for w in mnemonic.bytes_to_mnemonic(e, len(e) * 8).split(" ")]


def i_pbkdf2_session(alg, pw, salt, c, ops):
    o = PBKDF2(pw, salt, iterations=c, digestmodule=DIGESTS[alg][1], macmodule=hmac)
    out = []
    for op in ops:
        if op[0] == 2:
            r = o.close()
            out.append(b"" if r is None else r)
        else:
            out.append(_tryE(o.read if op[0] == 0 else o.hexread, op[1]))
    return out


def i_pb_read_state(alg, pw, salt, c, buf, blk, n):
    o = PBKDF2(pw, salt, iterations=c, digestmodule=DIGESTS[alg][1], macmodule=hmac)
    o._PBKDF2__buf = buf
    o._PBKDF2__blockNum = blk
    r = o.read(n)
    return [r, o._PBKDF2__buf, o._PBKDF2__blockNum]


def i_hd_from_mnemonic(t, pw, path, net, ver, pubver):
    h = hd.HDPrivateKey.from_mnemonic(_txt(t), pw, path.decode("ascii"), NETS[net] if 0 <= net < 4 else "net%d" % net,
                                      priv_version=_opt(ver), pub_version=_opt(pubver))
    assert h.pub.chain_code == h.chain_code and h.pub.depth == h.depth and h.pub.network == h.network
    return [h.private_key.secret, h.chain_code, h.depth, h.parent_fingerprint, h.child_number,
            NETS.index(h.network), h.priv_version, h.pub.pub_version, h.xprv(), h.xpub()]


def _with_rng(rnd, t, f):
    old = (mnemonic.randbits, mnemonic.time)
    mnemonic.randbits = lambda n: rnd
    mnemonic.time = lambda: Fraction(t, 1000000)
    try:
        return f()
    finally:
        mnemonic.randbits, mnemonic.time = old


def i_hd_generate(pw, extra, rnd, t, net):
    m, h = _with_rng(rnd, t, lambda: hd.HDPrivateKey.generate(password=pw, extra_entropy=extra, network=NETS[net]))
    return [m, h.xprv()]


IMPL = {
    "spec_indices": i_spec_indices,
    "spec_sentence": lambda e: mnemonic.bytes_to_mnemonic(e, len(e) * 8),
    "pbkdf2_session": i_pbkdf2_session,
    "pb_read_state": i_pb_read_state,
    "utf8": lambda t: _txt(t).encode("utf-8"),
    "kdf_str": lambda t, salt: helper.hmac_sha512_kdf(_txt(t), salt),
    "seed_utf8": lambda t, pw: i_from_mnemonic(t, pw)[0],
    "wl_getitem_int": lambda w, i: WL[w][i],
    "wl_contains": lambda w, t: _txt(t) in WL[w],
    "hd_from_mnemonic": i_hd_from_mnemonic,
    "hd_generate": i_hd_generate,
    "split": lambda t: [[ord(c) for c in w] for w in _txt(t).split()],
    "wl_index": lambda w, t: WL[w][_txt(t)],
    "wl_word": lambda w, i: WL[w][i],
    "wl_normalize": lambda w, t: WL[w].normalize(_txt(t)),
    "bytes_to_indices": lambda b, nb: [WORDS.index(w) for w in mnemonic.bytes_to_mnemonic(b, nb).split(" ")],
    "bytes_to_mnemonic": lambda b, nb: mnemonic.bytes_to_mnemonic(b, nb),
    "mnemonic_to_bytes": lambda t: mnemonic.mnemonic_to_bytes(_txt(t)),
    "secure_mnemonic": i_secure_mnemonic,
    "pbkdf2_reads": i_pbkdf2_reads,
    "pbkdf2_spec": i_pbkdf2_ref,
    "kdf": lambda msg, salt: helper.hmac_sha512_kdf(msg, salt),
    "from_seed": i_from_seed,
    "from_mnemonic": i_from_mnemonic,
}

# ---------------------------------------------------------------- reference (independent of buidl)


def ref_indices(entropy):
    ent = len(entropy) * 8
    cs = ent // 32
    bits = (int.from_bytes(entropy, "big") << cs) | (hashlib.sha256(entropy).digest()[0] >> (8 - cs))
    n = (ent + cs) // 11
    return [(bits >> (11 * (n - 1 - i))) & 2047 for i in range(n)]


def ref_decode(text):
    """None when BIP39 (full words or four-letter prefixes of longer words) rejects, else the entropy"""
    ws = text.split()
    if len(ws) not in (12, 15, 18, 21, 24):
        return None
    if any(w not in REF_IDX for w in ws):
        return None
    bits = 0
    for w in ws:
        bits = bits * 2048 + REF_IDX[w]
    cs = len(ws) // 3
    ent = bits >> cs
    e = ent.to_bytes((len(ws) * 11 - cs) // 8, "big")
    if hashlib.sha256(e).digest()[0] >> (8 - cs) != bits & ((1 << cs) - 1):
        return None
    return e


def ref_seed(words_full, pw):
    seed = hashlib.pbkdf2_hmac("sha512", " ".join(words_full).encode("utf-8"), b"mnemonic" + pw, 2048, 64)
    h = hmac.new(b"Bitcoin seed", seed, hashlib.sha512).digest()
    return seed, int.from_bytes(h[:32], "big"), h[32:]


def _try(f, *a):
    try:
        return f(*a)
    except Exception:
        return None

# ---------------------------------------------------------------- property predicates


def p_roundtrip(entropy):
    nb = len(entropy) * 8
    m = mnemonic.bytes_to_mnemonic(entropy, nb)
    ws = m.split(" ")
    if [WORDS.index(w) if w in WORDS else -1 for w in ws] != ref_indices(entropy):
        return "mnemonic is not the 11-bit groups of entropy || first ENT/32 bits of sha256(entropy)"
    if len(ws) != (nb + nb // 32) // 11:
        return "wrong number of words"
    if mnemonic.mnemonic_to_bytes(m) != entropy:
        return "mnemonic does not decode to the entropy"
    short = " ".join(w[:4] for w in ws)
    if mnemonic.mnemonic_to_bytes(short) != entropy:
        return "four-letter-prefix spelling does not decode to the entropy"
    if [mnemonic.BIP39.normalize(w[:4]) for w in ws] != ws:
        return "normalize(prefix) is not the full word"
    return None


def p_accept_iff(t):
    text = _txt(t)
    want = ref_decode(text)
    got = _try(mnemonic.mnemonic_to_bytes, text)
    if want is None and got is not None:
        return "word sequence accepted although length/word/checksum is invalid"
    if want is not None and got is None:
        return "valid word sequence rejected"
    if want != got:
        return "decoded entropy differs from BIP39"
    return None


def p_lookup_all():
    """finite: every word and every four-letter prefix of both lists maps to its position"""
    for wl in WL:
        for i, w in enumerate(wl.words):
            if wl[w] != i or wl[i] != w:
                return f"word {w!r} does not map to its index"
            if len(w) > 4 and (wl[w[:4]] != i or wl.normalize(w[:4]) != w):
                return f"prefix {w[:4]!r} does not map to {w!r}"
        if len(set(w[:4] for w in wl.words)) != len(wl.words):
            return "four-letter prefixes are not unique"
    return None


def p_pbkdf2(alg, pw, salt, c, ns):
    total = sum(ns)
    o = PBKDF2(pw, salt, iterations=c, digestmodule=DIGESTS[alg][1], macmodule=hmac)
    got = b"".join(o.read(n) for n in ns)
    want = hashlib.pbkdf2_hmac(DIGESTS[alg][0], pw, salt, c, total) if total else b""
    if got != want:
        return f"vendored PBKDF2 reads {ns} differ from hashlib.pbkdf2_hmac({DIGESTS[alg][0]}, c={c}, dkLen={total})"
    return None


def p_seed(entropy, pw, spelling):
    """spelling 0: full words; 1: four-letter prefixes; 2: alternating"""
    ws = mnemonic.bytes_to_mnemonic(entropy, len(entropy) * 8).split(" ")
    sp = [w if spelling == 0 or (spelling == 2 and i % 2) else w[:4] for i, w in enumerate(ws)]
    got = i_from_mnemonic(" ".join(sp).encode(), pw)
    want = ref_seed(ws, pw)
    if got[0] != want[0]:
        return "seed is not PBKDF2-HMAC-SHA512(mnemonic, 'mnemonic'+passphrase, 2048, 64)"
    if (got[1], got[2]) != (want[1], want[2]):
        return "master key / chain code are not the halves of HMAC-SHA512('Bitcoin seed', seed)"
    return None


def p_secure(nb, extra, rnd, t):
    m = i_secure_mnemonic(nb, extra, rnd, t)
    e = ((extra & ((1 << nb) - 1)) if extra >= (1 << nb) else extra) ^ t ^ rnd
    if ref_decode(m) != e.to_bytes(nb // 8, "big"):
        return "secure_mnemonic does not encode randbits ^ extra_entropy ^ time"
    return None


def p_generate(pw, extra, rnd, t, net):
    """HDPrivateKey.generate with randbits / clock replaced: the mnemonic is the BIP39 sentence of
    randbits ^ extra_entropy(masked) ^ clock and the key is BIP32-master(PBKDF2(sentence, 'mnemonic'+password))"""
    m, h = _with_rng(rnd, t, lambda: hd.HDPrivateKey.generate(password=pw, extra_entropy=extra, network=NETS[net]))
    e = (((extra & ((1 << 256) - 1)) if extra >= (1 << 256) else extra) ^ t ^ rnd).to_bytes(32, "big")
    ws = [REF_WORDS[0][i] for i in ref_indices(e)]
    if m != " ".join(ws):
        return "generate(): the mnemonic is not the BIP39 sentence of randbits ^ extra_entropy ^ time"
    seed, sec, cc = ref_seed(ws, pw)
    ver = bytes.fromhex("0488ade4" if net == 0 else "04358394")
    if (h.private_key.secret, h.chain_code, h.depth, h.network) != (sec, cc, 0, NETS[net]):
        return "generate(): the key is not the BIP32 master key of PBKDF2(sentence, 'mnemonic'+password)"
    if h.xprv() != _b58check(ver + bytes(9) + cc + b"\x00" + sec.to_bytes(32, "big")):
        return "generate(): xprv() is not the BIP32 serialisation of the master key"
    return None


def p_xprv(entropy, pw, net, spelling):
    """observation point of the property: HDPrivateKey.from_mnemonic(...).xprv() against hashlib + a
    hand-written BIP32 serialisation"""
    ws = [REF_WORDS[0][i] for i in ref_indices(entropy)]
    sp = [w if spelling == 0 or (spelling == 2 and i % 2) else w[:4] for i, w in enumerate(ws)]
    h = hd.HDPrivateKey.from_mnemonic(" ".join(sp), pw, network=NETS[net])
    seed, sec, cc = ref_seed(ws, pw)
    ver = bytes.fromhex("0488ade4" if net == 0 else "04358394")
    if h.xprv() != _b58check(ver + bytes(9) + cc + b"\x00" + sec.to_bytes(32, "big")):
        return "from_mnemonic(...).xprv() is not Base58Check(version || 0^9 || chain code || 00 || master key)"
    return None


# ---------------------------------------------------------------- histories: the same objects / functions used repeatedly
# A step's result must equal the stateless reference for ITS arguments whatever was asked before (no memo on the
# word lists, no module-level cache keyed by only part of the arguments, no PBKDF2 stream state leaking between
# objects, no seed remembered per mnemonic regardless of the passphrase).

import os as _os  # noqa: E402

_DIR = _os.path.dirname(mnemonic.__file__)
REF_WORDS = [open(_os.path.join(_DIR, f)).read().split() for f in ("bip39_words.txt", "slip39_words.txt")]
REF_LOOKUP = []
for _ws in REF_WORDS:
    _d = {}
    for _i, _w in enumerate(_ws):
        _d[_w] = _i
        if len(_w) > 4:
            _d[_w[:4]] = _i          # same order of insertion as the specification: later entries win
    REF_LOOKUP.append(_d)
B58 = "123456789ABCDEFGHJKLMNPQRSTUVWXYZabcdefghijkmnopqrstuvwxyz"
HNETS = ["mainnet", "testnet", "signet", "regtest"]


def _b58check(raw):
    raw = raw + hashlib.sha256(hashlib.sha256(raw).digest()).digest()[:4]
    n = int.from_bytes(raw, "big")
    out = ""
    while n:
        n, k = divmod(n, 58)
        out = B58[k] + out
    return "1" * (len(raw) - len(raw.lstrip(b"\x00"))) + out


def _tryE(f, *a, **kw):
    try:
        return f(*a, **kw)
    except Exception:
        return ERR


def _wl_step(op):
    which, kind, arg = op
    wl, words, look = WL[which], REF_WORDS[which], REF_LOOKUP[which]
    if kind == b"idx":
        t = _txt(arg)
        return _tryE(wl.__getitem__, t), look.get(t, ERR)
    if kind == b"word":
        return _tryE(wl.__getitem__, arg), (words[arg] if -len(words) <= arg < len(words) else ERR)
    if kind == b"norm":
        t = _txt(arg)
        return _tryE(wl.normalize, t), (words[look[t.lower()]] if t.lower() in look else ERR)
    if kind == b"in":
        t = _txt(arg)
        return _tryE(wl.__contains__, t), t in words
    raise ValueError(kind)


def _mn_step(op):
    kind = op[0]
    if kind == b"enc":
        e = op[1]
        want = " ".join(REF_WORDS[0][i] for i in ref_indices(e)) if len(e) in (16, 20, 24, 28, 32) else ERR
        return _tryE(mnemonic.bytes_to_mnemonic, e, len(e) * 8), want
    if kind == b"dec":
        t = _txt(op[1])
        want = ref_decode(t)
        return _tryE(mnemonic.mnemonic_to_bytes, t), (ERR if want is None else want)
    if kind == b"kdf":
        return _tryE(helper.hmac_sha512_kdf, _txt(op[1]), op[2]), \
            hashlib.pbkdf2_hmac("sha512", _txt(op[1]).encode("utf-8"), op[2], 2048, 64)
    if kind == b"seed":
        t, pw, net = _txt(op[1]), op[2], HNETS[op[3]]
        if ref_decode(t) is None:
            want = ERR
        else:
            full = [REF_WORDS[0][REF_LOOKUP[0][w]] for w in t.split()]
            seed, sec, cc = ref_seed(full, pw)
            ver = bytes.fromhex("0488ade4" if net == "mainnet" else "04358394")
            want = [sec, cc, net, _b58check(ver + bytes(9) + cc + b"\x00" + sec.to_bytes(32, "big"))]
        h = _tryE(hd.HDPrivateKey.from_mnemonic, t, pw, network=net)
        got = h if h is ERR else [h.private_key.secret, h.chain_code, h.network, h.xprv()]
        return got, want
    if kind == b"wl":
        return _wl_step(op[1:])
    raise ValueError(kind)


def _session(ops, step):
    from vp.sexp import canon
    for i, op in enumerate(ops):
        got, want = step(op)
        if got is ERR and want is ERR:
            continue
        if got is ERR or want is ERR or canon(got) != canon(want):
            def sh(v):
                return "an exception" if v is ERR else repr(v)[:100]
            return (f"step {i} {[x if not isinstance(x, bytes) or len(x) < 40 else x[:40] + b'...' for x in op]!r}: got "
                    f"{sh(got)}, reference gives {sh(want)} — after {i} earlier call(s) in this session")
    return None


def p_wordlist_session(ops):
    """lookups on the two shipped WordList objects in arbitrary order: index of a word / prefix, word of an index,
    normalize, membership — each equals the word file's content, whatever was looked up before"""
    return _session(ops, _wl_step)


def p_mnemonic_session(ops):
    """bytes_to_mnemonic / mnemonic_to_bytes / hmac_sha512_kdf / HDPrivateKey.from_mnemonic (and word-list lookups)
    called repeatedly with related arguments: every call equals BIP39 / PBKDF2-HMAC-SHA512 / BIP32 for its own
    arguments"""
    return _session(ops, _mn_step)


def p_pbkdf2_session(specs, ops):
    """several PBKDF2 objects alive at once (same passphrase, other salt / iteration count / digest): read, hexread,
    close and re-creation interleaved; each object's stream is the hashlib stream of ITS parameters and a closed
    object refuses to read"""
    def mk(sp):
        return PBKDF2(sp[1], sp[2], iterations=sp[3], digestmodule=DIGESTS[sp[0]][1], macmodule=hmac)
    objs = [mk(sp) for sp in specs]
    pos = [0] * len(specs)
    closed = [False] * len(specs)
    for i, (k, kind, n) in enumerate(ops):
        sp = specs[k]
        if kind == b"new":
            objs[k], pos[k], closed[k] = mk(sp), 0, False
            continue
        if kind == b"close":
            objs[k].close()
            closed[k] = True
            if objs[k].closed is not True:
                return f"step {i}: close() did not mark object {k} closed"
            continue
        got = _tryE(objs[k].read if kind == b"read" else objs[k].hexread, n)
        if closed[k]:
            if got is not ERR:
                return f"step {i}: object {k} was closed and still returned {n} key bytes"
            continue
        want = hashlib.pbkdf2_hmac(DIGESTS[sp[0]][0], sp[1], sp[2], sp[3], pos[k] + n)[pos[k]:] if pos[k] + n else b""
        if kind == b"hex":
            want = want.hex()
        if got is ERR or got != want:
            return (f"step {i}: {kind.decode()}({n}) on object {k} ({DIGESTS[sp[0]][0]}, c={sp[3]}, {pos[k]} bytes read so "
                    f"far) is not bytes {pos[k]}..{pos[k] + n} of hashlib.pbkdf2_hmac for its parameters")
        pos[k] += n
    return None


# ---------------------------------------------------------------- entry-point audit: every public way into the mechanism
# Alternative entry points (from_shares, calc_valid_seedpicker_checksums, crypt, fresh WordList objects, iteration),
# default arguments (calls that leave optional arguments out, then explicit ones, then the defaults again), hand-built
# word sequences of unusual classes, lenient-decoder compensation, failure followed by a retry.  The references below use
# hashlib / hmac / base64 and a twenty-line secp256k1 only.

import base64 as _b64  # noqa: E402
import itertools as _it  # noqa: E402
import sys as _sys  # noqa: E402
from buidl import pbkdf2 as _pbmod  # noqa: E402

_P = 2 ** 256 - 2 ** 32 - 977
_N = 0xFFFFFFFFFFFFFFFFFFFFFFFFFFFFFFFEBAAEDCE6AF48A03BBFD25E8CD0364141
_G = (0x79BE667EF9DCBBAC55A06295CE870B07029BFCDB2DCE28D959F2815B16F81798,
      0x483ADA7726A3C4655DA4FBFC0E1108A8FD17B448A68554199C47D08FFB10D4B8)
XPRV_V = ["0488ade4", "04358394", "04358394", "04358394"]
XPUB_V = ["0488b21e", "043587cf", "043587cf", "043587cf"]


def _ec_add(a, b):
    if a is None:
        return b
    if b is None:
        return a
    if a[0] == b[0]:
        if (a[1] + b[1]) % _P == 0:
            return None
        lam = 3 * a[0] * a[0] * pow(2 * a[1], -1, _P) % _P
    else:
        lam = (b[1] - a[1]) * pow(b[0] - a[0], -1, _P) % _P
    x = (lam * lam - a[0] - b[0]) % _P
    return (x, (lam * (a[0] - x) - a[1]) % _P)


def _ref_sec(k):
    acc, q = None, _G
    while k:
        if k & 1:
            acc = _ec_add(acc, q)
        q = _ec_add(q, q)
        k >>= 1
    return bytes([2 + (acc[1] & 1)]) + acc[0].to_bytes(32, "big")


def _ref_xkeys(sec, cc, net, ver=None, pubver=None, depth=0, fpr=bytes(4), child=0):
    """(xprv, xpub) of BIP32 for a key given by its fields; versions default to the network's"""
    ver = ver if ver else bytes.fromhex(XPRV_V[net])
    pubver = pubver if pubver else bytes.fromhex(XPUB_V[net])
    mid = bytes([depth]) + fpr + child.to_bytes(4, "big") + cc
    return (_b58check(ver + mid + b"\x00" + sec.to_bytes(32, "big")), _b58check(pubver + mid + _ref_sec(sec)))


def _ref_hardened_child(sec, cc, idx):
    raw = hmac.new(cc, b"\x00" + sec.to_bytes(32, "big") + idx.to_bytes(4, "big"), hashlib.sha512).digest()
    fpr = hashlib.new("ripemd160", hashlib.sha256(_ref_sec(sec)).digest()).digest()[:4]
    return (int.from_bytes(raw[:32], "big") + sec) % _N, raw[32:], fpr


def _ref_F(alg, pw, salt, c, i):
    """block i of PBKDF2 written out (RFC 8018 5.2) — for block numbers no hashlib call reaches"""
    dg = DIGESTS[alg][0]
    u = hmac.new(pw, salt + i.to_bytes(4, "big"), dg).digest()
    acc = int.from_bytes(u, "big")
    for _ in range(c - 1):
        u = hmac.new(pw, u, dg).digest()
        acc ^= int.from_bytes(u, "big")
    return acc.to_bytes(len(u), "big")


def _sentence(entropy):
    return [REF_WORDS[0][i] for i in ref_indices(entropy)]


def _check_key(h, sec, cc, net, ver=None, pubver=None, what="key", depth=0, fpr=bytes(4), child=0):
    if h is ERR:
        return f"{what}: raised"
    xprv, xpub = _ref_xkeys(sec, cc, net, ver, pubver, depth, fpr, child)
    if (h.private_key.secret, h.chain_code) != (sec, cc):
        return f"{what}: secret / chain code are not those of BIP39 seed + BIP32 for the arguments given"
    if (h.depth, h.parent_fingerprint, h.child_number) != (depth, fpr, child):
        return f"{what}: depth / parent fingerprint / child number wrong"
    if h.network != NETS[net]:
        return f"{what}: network is {h.network!r}, asked for {NETS[net]!r}"
    if h.xprv() != xprv:
        return f"{what}: xprv() is not Base58Check(version || depth || fpr || child || chain code || 00 || key)"
    if h.xpub() != xpub:
        return f"{what}: xpub() is not Base58Check(pub version || ... || compressed point of the key)"
    return None


class _Rng:
    """replaces mnemonic.randbits / mnemonic.time and remembers how many bits were asked for"""

    def __init__(self, rnd, t):
        self.rnd, self.t, self.asked = rnd, t, []

    def __enter__(self):
        self.old = (mnemonic.randbits, mnemonic.time)
        mnemonic.randbits = self._randbits
        mnemonic.time = lambda: Fraction(self.t, 1000000)
        return self

    def _randbits(self, n):
        self.asked.append(n)
        return self.rnd

    def __exit__(self, *a):
        mnemonic.randbits, mnemonic.time = self.old


def _ref_secure(nb, extra, rnd, t):
    e = ((extra & ((1 << nb) - 1)) if extra >= (1 << nb) else extra) ^ t ^ rnd
    return e.to_bytes(nb // 8, "big")


def p_secure_entry(kind, nb, extra, rnd, t):
    """secure_mnemonic called with arguments left out / by keyword; the defaults are 256 bits and no extra entropy,
    before and after a call with other explicit arguments; randbits is asked for exactly num_bits bits"""
    calls = {0: (lambda: mnemonic.secure_mnemonic(), 256, 0),
             1: (lambda: mnemonic.secure_mnemonic(nb), nb, 0),
             2: (lambda: mnemonic.secure_mnemonic(extra_entropy=extra), 256, extra),
             3: (lambda: mnemonic.secure_mnemonic(extra_entropy=extra, num_bits=nb), nb, extra),
             4: (lambda: mnemonic.secure_mnemonic(nb, extra), nb, extra)}
    f, wnb, wextra = calls[kind]
    other_nb = 128 if wnb != 128 else 192
    steps = [(f, wnb, wextra), (lambda: mnemonic.secure_mnemonic(other_nb, 12345), other_nb, 12345),
             (lambda: mnemonic.secure_mnemonic(100), None, None),          # refused
             (lambda: mnemonic.secure_mnemonic(wnb, -1), None, None),      # refused
             (lambda: mnemonic.secure_mnemonic(wnb, "7"), None, None),     # refused: not an int
             (f, wnb, wextra)]
    for i, (g, b, x) in enumerate(steps):
        with _Rng(rnd & ((1 << b) - 1) if b else rnd, t) as rg:
            got = _tryE(g)
        if b is None:
            if got is not ERR:
                return f"call {i}: secure_mnemonic accepted inadmissible arguments"
            continue
        if got is ERR:
            return f"call {i}: secure_mnemonic raised"
        if not rg.asked or any(n != b for n in rg.asked):
            return f"call {i}: randbits was asked for {rg.asked} bits, the mnemonic has {b} bits of entropy"
        if ref_decode(got) != _ref_secure(b, x, rnd & ((1 << b) - 1), t) or got != " ".join(_sentence(ref_decode(got))):
            return (f"call {i}: secure_mnemonic (num_bits {'default' if kind in (0, 2) and g is f else b}) is not the BIP39 "
                    f"sentence of randbits({b}) ^ extra_entropy ^ time")
    return None


def p_self_check(kind, nb, rnd):
    """generation self-check: when encoder and decoder disagree secure_mnemonic must not hand out a mnemonic"""
    real_dec, real_enc = mnemonic.mnemonic_to_bytes, mnemonic.bytes_to_mnemonic
    try:
        if kind == 1:
            mnemonic.mnemonic_to_bytes = lambda m: bytes(a ^ 1 for a in real_dec(m))
        elif kind == 2:
            mnemonic.bytes_to_mnemonic = lambda b, n: " ".join(_sentence(b[:-1] + bytes([b[-1] ^ 1])))
        elif kind == 3:
            mnemonic.mnemonic_to_bytes = lambda m: real_dec(m)[:-1]
        with _Rng(rnd, 0):
            got = _tryE(mnemonic.secure_mnemonic, nb)
    finally:
        mnemonic.mnemonic_to_bytes, mnemonic.bytes_to_mnemonic = real_dec, real_enc
    if kind == 0:
        return None if got is not ERR and ref_decode(got) == rnd.to_bytes(nb // 8, "big") else "control: no mnemonic produced"
    if got is not ERR:
        return "secure_mnemonic returned a mnemonic although decoding it does not give back the generated entropy"
    return None


def _fm(*a, **kw):
    """HDPrivateKey.from_mnemonic with the KDF output observed"""
    seen = []
    real = hd.hmac_sha512_kdf

    def spy(msg, salt):
        s = real(msg, salt)
        seen.append(s)
        return s
    hd.hmac_sha512_kdf = spy
    try:
        h = _tryE(hd.HDPrivateKey.from_mnemonic, *a, **kw)
    finally:
        hd.hmac_sha512_kdf = real
    return seen, h


def p_seed_text(t, pw):
    """from_mnemonic on a hand-built word sequence: rejected exactly when BIP39 rejects it, else seed, key, xprv and
    xpub are those of the sentence with every word spelled in full"""
    text = _txt(t)
    e = ref_decode(text)
    seen, h = _fm(text, pw)
    if e is None:
        return None if h is ERR else "from_mnemonic derived a key from a word sequence that BIP39 rejects"
    if h is ERR:
        return "from_mnemonic rejected a valid word sequence"
    seed, sec, cc = ref_seed([REF_WORDS[0][REF_LOOKUP[0][w]] for w in text.split()], pw)
    if seen != [seed]:
        return "seed is not PBKDF2-HMAC-SHA512(full-word sentence, 'mnemonic'+passphrase, 2048, 64)"
    return _check_key(h, sec, cc, 0, what="from_mnemonic(text, password)")


def p_from_mnemonic_entry(kind, entropy, pw, net, ver, pubver):
    """from_mnemonic with optional arguments left out / by keyword / only one of the two versions; a call with the
    defaults gives the same key before and after a call with explicit arguments, and earlier results stay what they were"""
    ver, pubver = _opt(ver), _opt(pubver)
    ws = _sentence(entropy)
    m = " ".join(ws)
    F = hd.HDPrivateKey.from_mnemonic
    if kind == 0:
        steps = [(lambda: F(m), b"", 0, None, None)]
    elif kind == 1:
        steps = [(lambda: F(m, pw), pw, 0, None, None)]
    elif kind == 2:
        steps = [(lambda: F(m, network=NETS[net], password=pw), pw, net, None, None)]
    elif kind == 3:
        steps = [(lambda: F(m, pw, "m", NETS[net], ver, pubver), pw, net, ver, pubver)]
    elif kind == 4:
        steps = [(lambda: F(mnemonic=m, priv_version=ver), b"", 0, ver, None)]
    elif kind == 5:
        steps = [(lambda: F(m, pub_version=pubver, network=NETS[net]), b"", net, None, pubver)]
    else:
        steps = [(lambda: F(m), b"", 0, None, None),
                 (lambda: F(m, pw, "m", NETS[net], ver, pubver), pw, net, ver, pubver),
                 (lambda: F(m + " " + ws[0], pw), None, 0, None, None),       # refused
                 (lambda: F(m), b"", 0, None, None)]
    made = []
    for i, (g, p, n, v, pv) in enumerate(steps):
        h = _tryE(g)
        if p is None:
            if h is not ERR:
                return f"call {i}: a sentence with one word too many was accepted"
            continue
        _seed, sec, cc = ref_seed(ws, p)
        made.append((i, h, sec, cc, n, v, pv))
        for (j, hj, s, c, nn, vv, pvv) in made:          # every result so far, again
            bad = _check_key(hj, s, c, nn, vv, pvv, what=f"result of call {j} (looked at after call {i})")
            if bad:
                return bad
        if h.priv_version != (v or bytes.fromhex(XPRV_V[n])) or h.pub.pub_version != (pv or bytes.fromhex(XPUB_V[n])):
            return f"call {i}: priv_version / pub_version attribute is not the one given (or the network's default)"
    return None


def p_generate_entry(kind, pw, extra, rnd, t, net, ver, pubver):
    """HDPrivateKey.generate with optional arguments left out / versions given: 256 bits are drawn, the mnemonic is
    their BIP39 sentence and the key is its BIP32 master key under the given network and versions"""
    ver, pubver = _opt(ver), _opt(pubver)
    G = hd.HDPrivateKey.generate
    calls = {0: (lambda: G(), b"", 0, 0, None, None),
             1: (lambda: G(pw), pw, 0, 0, None, None),
             2: (lambda: G(extra_entropy=extra, password=pw), pw, extra, 0, None, None),
             3: (lambda: G(pw, extra, NETS[net], ver, pubver), pw, extra, net, ver, pubver),
             4: (lambda: G(network=NETS[net], priv_version=ver), b"", 0, net, ver, None),
             5: (lambda: G(network=NETS[net], pub_version=pubver), b"", 0, net, None, pubver),
             6: (lambda: G(network=NETS[net]), b"", 0, net, None, None)}
    g, p, x, n, v, pv = calls[kind]
    for i in range(2):
        with _Rng(rnd, t) as rg:
            got = _tryE(g)
        if got is ERR:
            return "generate raised"
        m, h = got
        if rg.asked != [256]:
            return f"generate asked randbits for {rg.asked} bits instead of 256 once"
        ws = _sentence(_ref_secure(256, x, rnd, t))
        if m != " ".join(ws):
            return "generate(): the mnemonic is not the BIP39 sentence of randbits(256) ^ extra_entropy ^ time"
        _seed, sec, cc = ref_seed(ws, p)
        bad = _check_key(h, sec, cc, n, v, pv, what=f"generate() call {i}")
        if bad:
            return bad
    return None


def p_from_shares(kind, entropy, passphrase, pw, net):
    """HDPrivateKey.from_shares: the SLIP39 recovery (decided by C15) is replaced by a recorder; the shares and the share
    passphrase go to the recovery, the BIP39 password, path and network go to from_mnemonic"""
    ws = _sentence(entropy)
    m = " ".join(ws)
    shares = ["share one", "share two"]
    seen = []

    class Recorder:
        @classmethod
        def recover_mnemonic(cls, share_mnemonics, passphrase=b""):
            seen.append((list(share_mnemonics), passphrase))
            return m
    F = hd.HDPrivateKey.from_shares
    calls = {0: (lambda: F(shares), b"", b"", 0, 0),
             1: (lambda: F(shares, passphrase, pw, "m", NETS[net]), passphrase, pw, 0, net),
             2: (lambda: F(shares, network=NETS[net], password=pw, passphrase=passphrase), passphrase, pw, 0, net),
             3: (lambda: F(shares, passphrase, pw, "m/1'", NETS[net]), passphrase, pw, 1, net),
             4: (lambda: F(shares, password=pw), b"", pw, 0, 0),
             5: (lambda: F(shares, passphrase), passphrase, b"", 0, 0)}
    g, wpp, wpw, hardened, n = calls[kind]
    real = hd.ShareSet
    hd.ShareSet = Recorder
    try:
        h = _tryE(g)
    finally:
        hd.ShareSet = real
    if seen != [(shares, wpp)]:
        return f"from_shares handed {seen!r} to the share recovery, expected the shares with passphrase {wpp!r}"
    _seed, sec, cc = ref_seed(ws, wpw)
    if hardened:
        idx = 0x80000001
        csec, ccc, fpr = _ref_hardened_child(sec, cc, idx)
        return _check_key(h, csec, ccc, n, what="from_shares(..., path=m/1')", depth=1, fpr=fpr, child=idx)
    return _check_key(h, sec, cc, n, what="from_shares")


SLIP39_VECTOR_1 = (b"duckling enlarge academic academic agency result length solution fridge kidney coal piece deal husband "
                   b"erode duke ajar critical decision keyboard", b"TREZOR", bytes.fromhex("bb54aac4b89dc868ba37d9cc21b2cece"))


def p_from_shares_vector(pw):
    """the first vector of SLIP-0039 (one share, no sharing) all the way through from_shares"""
    share, pp, secret = SLIP39_VECTOR_1
    h = _tryE(hd.HDPrivateKey.from_shares, [share.decode()], pp, pw)
    _seed, sec, cc = ref_seed(_sentence(secret), pw)
    return _check_key(h, sec, cc, 0, what="from_shares(SLIP-0039 vector 1)")


def p_seedpicker(entropy, nfirst, spelling, limit, junk):
    """calc_valid_seedpicker_checksums(first words): in word-list order exactly the words that complete the sentence to a
    valid BIP39 mnemonic (2^(11 - checksum bits) of them); anything else about the first words is an error"""
    ws = _sentence(entropy)[:nfirst]
    sp = [w if spelling == 0 or (spelling == 2 and i % 2) else w[:4] for i, w in enumerate(ws)]
    if junk != []:
        sp[junk[0]] = _txt(junk[1])
    text = " ".join(sp)
    want = [w for w in REF_WORDS[0] if ref_decode(text + " " + w) is not None]
    if limit:
        want = want[:limit]

    def run():
        gen = hd.calc_valid_seedpicker_checksums(text)
        return list(_it.islice(gen, limit)) if limit else list(gen)
    got = _tryE(run)
    if not want:
        if got is not ERR and got != []:
            return f"checksum words {got[:3]!r} offered for first words that cannot start a valid mnemonic"
        return None
    if got is ERR or got != want:
        return (f"checksum words for {nfirst} first words: got {'an exception' if got is ERR else got[:4]}, the valid "
                f"completions in word-list order start {want[:4]}")
    for w in got[:2]:
        if ref_decode(text + " " + w) != _try(mnemonic.mnemonic_to_bytes, text + " " + w):
            return "completed sentence does not decode"
    if not limit and (len(want) != 1 << (11 - (nfirst + 1) // 3)
                      or _tryE(hd.calc_num_valid_seedpicker_checksums, nfirst) != len(want)):
        return f"{len(want)} valid checksum words for {nfirst} first words, calc_num_valid_seedpicker_checksums disagrees"
    return None


def p_wordlist_fresh(which):
    """a newly constructed WordList equals the word file (words, lookup of words and prefixes, iteration, membership),
    refuses a wrong word count, and constructing it leaves the two shipped lists as they were; keys that are neither
    text nor int are refused"""
    fn, n = [("bip39_words.txt", 2048), ("slip39_words.txt", 1024)][which]
    for bad in (n - 1, n + 1, 0, [2048, 1024][1 - which]):
        if _tryE(mnemonic.WordList, fn, bad) is not ERR:
            return f"WordList({fn!r}, {bad}) accepted a wrong word count"
    wl = _tryE(mnemonic.WordList, fn, n)
    if wl is ERR:
        return "WordList(file, count) raised"
    for obj, words, look in [(wl, REF_WORDS[which], REF_LOOKUP[which]), (WL[0], REF_WORDS[0], REF_LOOKUP[0]),
                             (WL[1], REF_WORDS[1], REF_LOOKUP[1])]:
        if list(obj) != words or list(iter(obj)) != words or obj.words != words:
            return "iteration over the word list is not the word file"
        it1 = iter(obj)
        first = next(it1)
        if [w for w in obj][:3] != words[:3] or next(it1) != words[1] or first != words[0]:
            return "two iterations over the same word list disturb each other"
        if obj.lookup != look:
            return "lookup table is not {word: index} + {first four letters of longer words: index}"
        for k in (b"abandon", 1.0, None, (0,), words[0].encode()):
            try:
                obj[k]
                return f"WordList[{k!r}] returned a value"
            except KeyError:
                pass
            except Exception as ex:
                return f"WordList[{k!r}] raised {type(ex).__name__}, not KeyError"
        if (words[5] in obj) is not True or (words[5][:3] + "#" in obj) or (5 in obj) or (None in obj):
            return "membership test wrong"
    return None


def p_kdf_entry(kind, msg, salt):
    """helper.hmac_sha512_kdf with text / bytes in either position: text is UTF-8 encoded"""
    def conv(v, as_text):
        return _txt(v) if as_text else (_txt(v).encode("utf-8"))
    m, s = conv(msg, kind & 1), conv(salt, kind & 2)
    got = _tryE(helper.hmac_sha512_kdf, m, s)
    want = hashlib.pbkdf2_hmac("sha512", _txt(msg).encode("utf-8"), _txt(salt).encode("utf-8"), 2048, 64)
    if got is ERR or got != want:
        return (f"hmac_sha512_kdf({'str' if kind & 1 else 'bytes'} message, {'str' if kind & 2 else 'bytes'} salt) is not "
                "PBKDF2-HMAC-SHA512(utf8(message), utf8(salt), 2048, 64)")
    return None


def p_pbkdf2_entry(kind, alg, pw, salt, c, n):
    """PBKDF2 constructed with optional arguments left out (1000 rounds, SHA-1, HMAC), by keyword, with text arguments,
    defaults again after an explicit construction; arguments of the wrong type are refused"""
    name, dig = DIGESTS[alg]
    ref = hashlib.pbkdf2_hmac
    if kind == 5:
        for a, kw in [((5, salt), {}), ((pw, None), {}), ((bytearray(pw), salt), {}), ((pw, salt, 2.0), {}), ((pw, salt, "2"), {}),
                      ((pw, salt, None), {}), ((pw, salt, 0), {}), ((pw, salt), {"iterations": -1})]:
            if _tryE(PBKDF2, *a, **kw) is not ERR:
                return f"PBKDF2{a[2:] or ''} accepted arguments of the wrong type / range"
        return None
    tp, ts = _txt(pw), _txt(salt)
    bp, bs = tp.encode("utf-8"), ts.encode("utf-8")
    if kind == 3:
        steps = [(lambda: PBKDF2(tp, ts, c, dig, hmac), name, c), (lambda: PBKDF2(bp, ts, iterations=c), "sha1", c),
                 (lambda: PBKDF2(tp, bs, c, macmodule=hmac, digestmodule=dig), name, c)]
    else:
        pw, salt = bp, bs
        steps = {0: [(lambda: PBKDF2(pw, salt), "sha1", 1000)],
                 1: [(lambda: PBKDF2(pw, salt, c), "sha1", c)],
                 2: [(lambda: PBKDF2(pw, salt, digestmodule=dig), name, 1000), (lambda: PBKDF2(pw, salt, macmodule=hmac), "sha1", 1000)],
                 4: [(lambda: PBKDF2(pw, salt), "sha1", 1000), (lambda: PBKDF2(pw, salt, c, dig, hmac), name, c),
                     (lambda: PBKDF2(pw, salt, 0), None, 0), (lambda: PBKDF2(pw, salt), "sha1", 1000),
                     (lambda: PBKDF2(salt=salt, passphrase=pw, iterations=c), "sha1", c)]}[kind]
    objs = []
    for i, (g, d, cc) in enumerate(steps):
        o = _tryE(g)
        if d is None:
            if o is not ERR:
                return f"construction {i}: iterations 0 accepted"
            continue
        if o is ERR:
            return f"construction {i} raised"
        objs.append((i, o, d, cc, 0))
        for k, (j, oj, dj, cj, pos) in enumerate(objs):           # every object made so far reads on from where it was
            got = _tryE(oj.read, n)
            if got is ERR or got != ref(dj, bp, bs, cj, pos + n)[pos:]:
                return (f"object of construction {j} (read again after construction {i}): bytes {pos}..{pos + n} are not those "
                        f"of hashlib.pbkdf2_hmac({dj}, c={cj})")
            objs[k] = (j, oj, dj, cj, pos + n)
    return None


def _ref_crypt(word, salt, iterations):
    if iterations is None or iterations == 400:
        it, pre = 400, "$p5k2$$" + salt
    else:
        it, pre = iterations, "$p5k2$%x$%s" % (iterations, salt)
    return pre + "$" + _b64.b64encode(hashlib.pbkdf2_hmac("sha1", word, pre.encode("ascii"), it, 24), b"./").decode("ascii")


def p_crypt(kind, word, salt, iterations, rand):
    """pbkdf2.crypt / PBKDF2.crypt: $p5k2$<hex rounds or empty for 400>$<salt>$<base64 ./ of 24 bytes PBKDF2-HMAC-SHA1>;
    no salt: three 16-bit values of randint (replaced here); a previous result as salt reproduces itself"""
    iterations = _opt(iterations)
    w = _txt(word)
    wb = w.encode("utf-8")
    s = salt.decode("ascii")
    f = PBKDF2.crypt if kind & 8 else _pbmod.crypt
    k = kind & 7
    if k == 0:                                           # no salt
        seq = list(rand)
        old = _pbmod.randint
        _pbmod.randint = lambda a, b: seq.pop(0) if (a, b) == (0, 0xFFFF) else 1 // 0
        try:
            got = _tryE(f, w) if iterations is None else _tryE(f, w, None, iterations)
        finally:
            _pbmod.randint = old
        rs = _b64.b64encode(b"".join(x.to_bytes(2, _sys.byteorder) for x in rand), b"./").decode("ascii")
        want = _ref_crypt(wb, rs, iterations)
    elif k == 1:
        got, want = _tryE(f, w, s, iterations), _ref_crypt(wb, s, iterations)
    elif k == 2:                                         # bytes word, bytes salt, keyword
        got, want = _tryE(f, wb, salt=salt, iterations=iterations), _ref_crypt(wb, s, iterations)
    elif k == 3:                                         # a previous result as the salt: the rounds in it win
        prev = _ref_crypt(wb, s, iterations)
        got, want = _tryE(f, w, prev, 7), prev
        if got == want and _tryE(f, w + "x", prev) == prev:
            return "crypt gives the same hash for another word"
    elif k == 4:                                         # defaults again after explicit
        a, b_, c_ = _tryE(f, w, s), _tryE(f, w, s, iterations), _tryE(f, w, s)
        got, want = [a, b_, c_], [_ref_crypt(wb, s, None), _ref_crypt(wb, s, iterations), _ref_crypt(wb, s, None)]
    else:                                                # refused salts
        got, want = _tryE(f, w, s, iterations), ERR
    if got is ERR and want is ERR:
        return None
    if got is ERR or want is ERR or got != want:
        return f"crypt: got {'an exception' if got is ERR else got!r}, expected {'a refusal' if want is ERR else want!r}"
    return None


def p_pbkdf2_overflow_retry(alg, pw, salt, c, buf):
    """a read that would need block 2^32 is refused and leaves the object as it was: the next admissible read still gives
    the last block(s) (block function written out by hand), and the refusal repeats"""
    M = 0xFFFFFFFF
    hl = len(_ref_F(alg, pw, salt, 1, 1))
    o = PBKDF2(pw, salt, iterations=c, digestmodule=DIGESTS[alg][1], macmodule=hmac)
    o._PBKDF2__blockNum = M - 2
    o._PBKDF2__buf = buf
    stream = buf + _ref_F(alg, pw, salt, c, M - 1) + _ref_F(alg, pw, salt, c, M)
    if _tryE(o.read, len(stream) + 1) is not ERR:
        return "read beyond block 2^32-1 returned key bytes"
    if _tryE(o.hexread, len(stream) + hl) is not ERR:
        return "hexread beyond block 2^32-1 returned key bytes"
    k = len(buf) + hl + 1
    got = _tryE(o.read, k)
    if got is ERR or got != stream[:k]:
        return "after a refused read the object no longer continues its stream (state changed by the refused read)"
    if _tryE(o.read, hl) is not ERR:
        return "second read beyond block 2^32-1 returned key bytes"
    got = _tryE(o.read, hl - 1)
    if got is ERR or got != stream[k:]:
        return "the remaining bytes of block 2^32-1 are not served after a refused read"
    if _tryE(o.read, 0) != b"" or _tryE(o.read, 1) is not ERR:
        return "exhausted object: read(0) / read(1) wrong"
    return None


PROPS = {"roundtrip": p_roundtrip, "accept_iff": p_accept_iff, "lookup_all": p_lookup_all,
         "pbkdf2": p_pbkdf2, "seed": p_seed, "secure": p_secure, "generate": p_generate, "xprv": p_xprv,
         "wordlist_session": p_wordlist_session, "mnemonic_session": p_mnemonic_session,
         "pbkdf2_session": p_pbkdf2_session,
         "secure_entry": p_secure_entry, "self_check": p_self_check, "seed_text": p_seed_text,
         "from_mnemonic_entry": p_from_mnemonic_entry, "generate_entry": p_generate_entry, "from_shares": p_from_shares,
         "from_shares_vector": p_from_shares_vector, "seedpicker": p_seedpicker, "wordlist_fresh": p_wordlist_fresh,
         "kdf_entry": p_kdf_entry, "pbkdf2_entry": p_pbkdf2_entry, "crypt": p_crypt,
         "pbkdf2_overflow_retry": p_pbkdf2_overflow_retry}

# ---------------------------------------------------------------- generators

SPACES = [9, 10, 11, 12, 13, 28, 29, 30, 31, 32, 133, 160, 5760, 8192, 8195, 8202, 8232, 8233, 8239, 8287, 12288]
NOT_SPACES = [8, 14, 27, 33, 127, 132, 134, 159, 161, 5759, 5761, 6158, 8191, 8203, 8204, 8231, 8234, 8288, 12287,
              12289, 65279, 0]
PASSPHRASES = [b"", b"TREZOR", b"a", "パスワード".encode(), "päß wörd".encode(), b"\xff\xfe\x00\x80", bytes(range(256))]
DKLENS = [0, 1, 19, 20, 21, 31, 32, 33, 63, 64, 65, 130]


def rentropy(ctx, n=None):
    r = ctx.rng
    n = n or r.choice([16, 20, 24, 28, 32])
    k = r.random()
    if k < 0.05:
        return bytes(n)
    if k < 0.1:
        return b"\xff" * n
    return ctx.rbytes(n)


def splits(r, total):
    k = r.choice([1, 2, 3, 5])
    cuts = sorted(r.randrange(0, total + 1) for _ in range(k - 1))
    out, prev = [], 0
    for c in cuts + [total]:
        out.append(c - prev)
        prev = c
    return out


def _shuffle_repeat(r, ops, repeat=0.3):
    ops = list(ops)
    r.shuffle(ops)
    for op in list(ops):
        if r.random() < repeat:
            ops.insert(r.randrange(len(ops) + 1), op)
    return ops


def wl_ops(ctx, k):
    """lookups around a few words: full word, prefix, near misses that share the first letters, the other list"""
    r = ctx.rng
    ops = []
    common = [w for w in REF_WORDS[1] if w in REF_LOOKUP[0]]
    for _ in range(k):
        which = r.randrange(2)
        words = REF_WORDS[which]
        i = r.randrange(len(words))
        w = r.choice(common) if r.random() < 0.3 else words[i]
        for t in (w, w[:4], w[:3], w[:5], w + "x", w[:4] + "zz", w.upper(), w[:4].capitalize(), w[:4].upper()):
            ops.append([which, b"idx", t.encode()])
            ops.append([which, b"norm", t.encode()])
            if r.random() < 0.4:
                ops.append([1 - which, r.choice([b"idx", b"norm", b"in"]), t.encode()])
            if r.random() < 0.3:
                ops.append([which, b"in", t.encode()])
        for j in (i, -i, i + len(words), i - len(words) - 1, len(words) - 1 - i):
            ops.append([r.randrange(2), b"word", j])
    return _shuffle_repeat(r, ops)


def mn_ops(ctx, seeds=3):
    """one entropy and a near one: spellings, broken variants, passphrases and networks in every order"""
    r = ctx.rng
    W = REF_WORDS[0]
    e1 = rentropy(ctx)
    e2 = e1[:-1] + bytes([e1[-1] ^ 1])
    ops, texts = [], []
    for e in (e1, e2):
        ws = [W[i] for i in ref_indices(e)]
        full = " ".join(ws)
        pre = " ".join(w[:4] for w in ws)
        mix = " ".join(w[:4] if r.random() < 0.5 else w for w in ws)
        p = r.randrange(len(ws))
        variants = [full, pre, mix,
                    " ".join(ws[:p] + [ws[p] + "x"] + ws[p + 1:]),            # unknown word sharing a prefix
                    " ".join(ws[:p] + [ws[p][:4] + "zz"] + ws[p + 1:]),
                    " ".join(ws[:p] + [ws[p].upper()] + ws[p + 1:]),
                    " ".join(ws[:-1] + [W[(REF_LOOKUP[0][ws[-1]] ^ 1)]]),         # checksum off by one bit
                    " ".join(ws[:p] + [W[r.randrange(2048)]] + ws[p + 1:]),
                    " ".join(ws[:-1]), " ".join(ws + [ws[0]]), "  " + full.replace(" ", "\t ") + "\n"]
        texts.append((full, pre, mix, variants[3], variants[6]))
        for t in variants:
            ops.append([b"dec", t.encode()])
        ops.append([b"enc", e])
        ops.append([b"enc", e[:16]])
        ops.append([b"enc", e + e[:4] if len(e) < 32 else e[:28]])
        ops.append([b"enc", e[:-1]])
        for w in r.sample(ws, 3):
            ops.append([b"wl", 0, b"norm", w[:4].encode()])
            ops.append([b"wl", 0, b"idx", (w + "x").encode()])
    pws = [b"", r.choice(PASSPHRASES[1:]), ctx.rbytes(r.randrange(1, 12))]
    (f1, p1, m1, bad1, badc1), (f2, p2, _m2, _b2, _c2) = texts
    cand = [(f1, pws[0]), (f1, pws[1]), (p1, pws[1]), (m1, pws[2]), (f2, pws[1]), (f1, pws[1]), (p2, pws[0]),
            (bad1, pws[1]), (badc1, pws[0])]
    for (t, pw) in r.sample(cand, min(len(cand), seeds + 2)):
        ops.append([b"seed", t.encode(), pw, r.choice([0, 0, 1, 2, 3])])
    ops.append([b"seed", f1.encode(), pws[1], 0])
    ops.append([b"seed", f1.encode(), pws[2], 1])
    for (t, salt) in [(f1, b"mnemonic" + pws[1]), (f1, b"mnemonic" + pws[2]), (f2, b"mnemonic" + pws[1]), (f1, b"mnemonic")]:
        ops.append([b"kdf", t.encode(), salt])
    return _shuffle_repeat(r, ops, 0.2)


def pb_session(ctx):
    r = ctx.rng
    pw = ctx.rbytes(r.choice([0, 1, 8, 64, 65, 130]))
    salt = ctx.rbytes(r.choice([0, 4, 8, 16]))
    alg, c = r.randrange(3), r.choice([1, 2, 3, 5])
    specs = [[alg, pw, salt, c], [alg, pw, salt + b"\x00", c], [alg, pw, salt, c + 1], [(alg + 1) % 3, pw, salt, c],
             [alg, pw + b"\x00", salt, c], [alg, pw, salt, c]]
    specs = r.sample(specs[1:], r.choice([1, 2, 4])) + [specs[0]]
    ops = []
    for _ in range(r.randrange(8, 30)):
        k = r.randrange(len(specs))
        x = r.random()
        if x < 0.6:
            ops.append([k, b"read", r.choice([0, 1, 5, 19, 20, 21, 32, 63, 64, 65, 130, r.randrange(0, 200)])])
        elif x < 0.8:
            ops.append([k, b"hex", r.choice([0, 1, 20, 33, 64, r.randrange(0, 100)])])
        elif x < 0.9:
            ops.append([k, b"close", 0])
            ops.append([k, r.choice([b"read", b"hex"]), r.choice([0, 1, 20])])
            if r.random() < 0.5:
                ops.append([k, b"close", 0])
        else:
            ops.append([k, b"new", 0])
    return [specs, ops]


def _entropy_with_words(ctx, nbytes, placed):
    """random entropy whose sentence has word index idx at position p for every (p, idx) in placed (positions that lie
    wholly inside the entropy bits)"""
    ent = nbytes * 8
    v = int.from_bytes(ctx.rbytes(nbytes), "big")
    for p, idx in placed:
        sh = ent - 11 * (p + 1)
        assert sh >= 0
        v = (v & ~(2047 << sh)) | (idx << sh)
    return v.to_bytes(nbytes, "big")


def _grind_class(ctx, nwords, cls):
    """a valid sentence whose words all come from cls (the last word is searched among cls for the checksum)"""
    r = ctx.rng
    for _ in range(4000):
        first = [r.choice(cls) for _ in range(nwords - 1)]
        for last in r.sample(cls, min(len(cls), 300)):
            if ref_decode(" ".join(first + [last])) is not None:
                return first + [last]
    raise RuntimeError("no sentence found")


JUNK = ["zzzz", "0", "-1", "2047", "2048", "Abandon", "ABANDON", "aban.", "aban", "abandonn", "é", "King",
        "ａｂａｎｄｏｎ", "a\u0000", "None"]


def entry_points(ctx, scale=1):
    """deterministic classes of the entry-point audit (see the predicates above)"""
    r = ctx.rng
    W = REF_WORDS[0]
    SIZES = [16, 20, 24, 28, 32]

    def both(text, label):
        ctx.label(label)
        yield ("prop", "accept_iff", [_cps(text)])
        yield ("corr", "mnemonic_to_bytes", [_cps(text)])

    # --- (d) byte / character classes that random entropy does not show
    for n in SIZES:
        for target in (0x00, 0xFF):                      # checksum bits all 0 / all 1
            while True:
                e = ctx.rbytes(n)
                if hashlib.sha256(e).digest()[0] == target:
                    break
            ctx.label(f"class/checksum-byte-{target:02x}")
            yield ("prop", "roundtrip", [e])
            yield ("corr", "bytes_to_mnemonic", [e, n * 8])
            yield ("corr", "spec_indices", [e])
            yield from both(" ".join(_sentence(e)), f"class/checksum-byte-{target:02x}")
        for e in (b"\x55" * n, b"\xaa" * n, bytes(n - 2) + ctx.rbytes(2), ctx.rbytes(2) + bytes(n - 2), bytes(3) + ctx.rbytes(n - 3)):
            ctx.label("class/patterned-entropy")
            yield ("prop", "roundtrip", [e])
            yield ("corr", "bytes_to_mnemonic", [e, n * 8])
    by_len = {k: [w for w in W if len(w) == k] for k in range(3, 9)}
    classes = [("3-letter", by_len[3], 12), ("4-letter", by_len[4], 12), ("4-letter", by_len[4], 24),
               ("at-most-4", by_len[3] + by_len[4], 18), ("8-letter", by_len[8], 12), ("5-letter", by_len[5], 15),
               ("one-long-rest-short", None, 12), ("one-short-rest-long", None, 24)]
    for ci, (name, cls, nw) in enumerate(classes):
        if cls is None:                                   # the all(...) / any(...) over word lengths differs by one word
            short, long_ = by_len[3] + by_len[4], by_len[6] + by_len[7] + by_len[8]
            a, b_ = (short, long_) if name == "one-long-rest-short" else (long_, short)
            while True:
                ws = [r.choice(a) for _ in range(nw)]
                ws[r.randrange(nw - 1)] = r.choice(b_)
                fit = [w for w in a if ref_decode(" ".join(ws[:-1] + [w])) is not None]
                if fit:
                    ws[-1] = fit[0]
                    break
        else:
            ws = _grind_class(ctx, nw, cls)
        pw = PASSPHRASES[ci % len(PASSPHRASES)]
        for sp, text in (("full", " ".join(ws)), ("prefix", " ".join(w[:4] for w in ws))):
            if sp == "prefix" and text == " ".join(ws):
                continue
            yield from both(text, f"class/words-{name}/{sp}")
            if ci % scale == 0:
                yield ("prop", "seed_text", [text.encode(), pw])
                yield ("corr", "from_mnemonic", [text.encode(), pw])
    e = rentropy(ctx, 16)
    ws = _sentence(e)
    for text in (" ".join(ws).upper(), " ".join(ws).title(), " ".join(w[:4] for w in ws).upper(), " ".join(ws).swapcase(),
                 ",".join(ws), " ".join(ws) + ".", "　".join(ws), "​".join(ws), " ".join(ws).replace("a", "ａ")):
        yield from both(text, "class/whole-sentence-case-or-separator")
    yield ("prop", "seed_text", [" ".join(ws).upper().encode(), b""])
    # the sentence is the HMAC key: lengths around the SHA-512 block (128 bytes), where HMAC starts hashing the key
    need = {127, 128, 129}
    while need:
        e = ctx.rbytes(r.choice([24, 28]))
        text = " ".join(_sentence(e))
        if len(text) in need:
            need.discard(len(text))
            ctx.label(f"class/sentence-{len(text)}-bytes")
            yield ("prop", "seed_text", [text.encode(), b"" if len(text) == 128 else b"pw"])
            yield ("corr", "kdf", [text.encode(), b"mnemonic"])
    for alg in range(3):
        blk, hl = [128, 64, 64][alg], [64, 32, 20][alg]
        for L in (blk - 1, blk, blk + 1, 2 * blk):
            for pw in (ctx.rbytes(L), bytes(L), b"\xff" * L):
                ctx.label(f"class/pbkdf2-key-length-block{L - blk:+d}" if L < 2 * blk else "class/pbkdf2-key-length-2-blocks")
                salt = r.choice([b"", bytes(4), b"\xff" * 8, ctx.rbytes(8)])
                yield ("prop", "pbkdf2", [alg, pw, salt, 2, [hl + 1]])
                yield ("corr", "pbkdf2_reads", [alg, pw, salt, 2, [hl + 1]])
    # --- (e) lenient decoding with compensation: an unknown word read as 0 / -1 / 2048 / its first four letters
    for k in range(ctx.n(3, 12)):
        n = SIZES[k % 5]
        nw = n * 8 * 33 // 32 // 11
        p = r.randrange(1, nw - 1)
        a = r.randrange(1, 2046)
        e0 = _entropy_with_words(ctx, n, [(p, 0)])                           # junk read as 0 == "abandon"
        e1 = _entropy_with_words(ctx, n, [(p - 1, a), (p, 2047)])            # junk read as -1, neighbour + 1
        e2 = _entropy_with_words(ctx, n, [(p - 1, a), (p, 0)])               # junk read as 2048, neighbour - 1
        for j in r.sample(JUNK, 5) + ["", "abandon abandon"]:
            w0 = _sentence(e0)
            yield from both(" ".join(w0[:p] + [j] + w0[p + 1:]), "lenient/unknown-as-0")
            w1 = _sentence(e1)
            yield from both(" ".join(w1[:p - 1] + [W[a + 1], j] + w1[p + 1:]), "lenient/unknown-as--1-compensated")
            w2 = _sentence(e2)
            yield from both(" ".join(w2[:p - 1] + [W[a - 1], j] + w2[p + 1:]), "lenient/unknown-as-2048-compensated")
        if k == 0:
            yield ("prop", "seed_text", [" ".join(w0[:p] + ["zzzz"] + w0[p + 1:]).encode(), b""])
        ws = _sentence(rentropy(ctx, n))
        for p in (0, r.randrange(1, nw - 1), nw - 1):
            w = ws[p]
            for j in (w.upper(), w.capitalize(), w[:3], w[:2], w + "x", w + "s", w[:4] + "zz", w[:5], w[:4] + w[:4], w[:4] + ".",
                      " " + w + "​", w[:4].upper(), w[0] + "́" + w[1:], str(REF_LOOKUP[0][w])):
                yield from both(" ".join(ws[:p] + [j] + ws[p + 1:]), "lenient/near-spelling-of-the-right-word")
    # --- (f) the spelling differs between the words: only one word shortened / only one word in full
    e = rentropy(ctx, 20)
    ws = _sentence(e)
    longp = [i for i, w in enumerate(ws) if len(w) > 4]
    pats = [[longp[0]], [longp[-1]], longp[1:], longp[:-1]]
    for k, pat in enumerate(pats[: (4 if scale == 1 else 2)]):
        text = " ".join(w[:4] if i in pat else w for i, w in enumerate(ws))
        ctx.label("spelling/one-word-differs")
        yield ("prop", "seed_text", [text.encode(), PASSPHRASES[k + 1]])
        yield ("corr", "from_mnemonic", [text.encode(), PASSPHRASES[k + 1]])
        yield from both(text, "spelling/one-word-differs")
    # --- (a)/(b) entry points and default arguments
    for which in (0, 1):
        ctx.label("entry/WordList-constructed")
        yield ("prop", "wordlist_fresh", [which])
    kel = [[0, b"norm", _cps("King")], [0, b"idx", _cps("King")], [0, b"in", _cps("King")], [0, b"norm", b"KING"],
           [0, b"norm", _cps("İtem")], [0, b"norm", _cps("ｋing")], [1, b"norm", b"ACAD"], [0, b"norm", b"king"]]
    ctx.label("entry/normalize-non-ascii-case")
    yield ("prop", "wordlist_session", [kel])
    for kind in range(5):
        nb = SIZES[kind] * 8
        extra = [0, 1 << nb, r.getrandbits(nb), r.getrandbits(300), 5][kind]
        ctx.label("entry/secure_mnemonic-defaults")
        yield ("prop", "secure_entry", [kind, nb, extra, r.getrandbits(256), r.getrandbits(51)])
    for kind in range(4):
        ctx.label("entry/secure_mnemonic-self-check")
        yield ("prop", "self_check", [kind, SIZES[kind] * 8, r.getrandbits(SIZES[kind] * 8)])
    V1, V2 = bytes.fromhex("04b2430c"), bytes.fromhex("04b24746")
    for kind in range(7):
        ctx.label("entry/from_mnemonic-defaults" if kind != 6 else "entry/from_mnemonic-defaults-after-explicit")
        yield ("prop", "from_mnemonic_entry", [kind, rentropy(ctx, SIZES[kind % 5]), PASSPHRASES[1 + kind % 4], 1 + kind % 3, V1, V2])
    e = rentropy(ctx, 16)
    t = " ".join(_sentence(e)).encode()
    for (ver, pubver) in (([], V2), (V1, [])):
        ctx.label("entry/from_mnemonic-one-version-only")
        yield ("corr", "hd_from_mnemonic", [t, b"x", b"m", 1, ver, pubver])
    for kind in range(7):
        ctx.label("entry/generate-defaults-and-versions")
        yield ("prop", "generate_entry", [kind, ctx.rbytes(5), r.getrandbits(260), r.getrandbits(256), r.getrandbits(51),
                                          1 + kind % 3, V1, V2])
    for kind in range(6):
        ctx.label("entry/from_shares")
        yield ("prop", "from_shares", [kind, rentropy(ctx, SIZES[kind % 5]), b"share-passphrase", b"bip39-password", 1 + kind % 3])
    yield ("prop", "from_shares_vector", [b""])
    # seed picker: complete list for 23 first words, first completions for the other sizes, spellings, refusals
    ctx.label("entry/seedpicker")
    yield ("prop", "seedpicker", [rentropy(ctx, 32), 23, 0, 0, []])
    for k, (n, nfirst) in enumerate([(16, 11), (20, 14), (24, 17), (28, 20)]):
        ctx.label("entry/seedpicker")
        yield ("prop", "seedpicker", [rentropy(ctx, n), nfirst, k % 3, 1 if scale > 1 else 2, []])
    for (nfirst, junk) in ((12, []), (10, []), (22, []), (0, []), (11, [3, b"zzzz"]), (23, [0, b"Abandon"]), (11, [10, b"aban"])):
        ctx.label("entry/seedpicker-refused" if junk != [10, b"aban"] else "entry/seedpicker")
        yield ("prop", "seedpicker", [rentropy(ctx, 32), nfirst, 0, 1, junk])
    for kind in range(4):
        for (msg, salt) in ((_cps("päß wörd"), _cps("mnemonicパス")), (b"abandon about", b"mnemonic"),
                            (_cps("\U0001f600"), b"")):
            ctx.label("entry/kdf-text-or-bytes")
            yield ("prop", "kdf_entry", [kind, msg, salt])
    for kind in range(6):
        for alg in ((0, 1, 2) if kind in (2, 3) else (0,)):
            ctx.label("entry/PBKDF2-constructor-defaults")
            pw, salt = (_cps("pässパ"), _cps("sält")) if kind == 3 else (ctx.rbytes(9), ctx.rbytes(8))
            if kind != 3:
                pw, salt = bytes(b & 127 for b in pw), bytes(b & 127 for b in salt)      # text == bytes for the reference
            yield ("prop", "pbkdf2_entry", [kind, alg, pw, salt, r.choice([2, 3, 5]), r.choice([19, 20, 21, 41])])
    for kind, word, salt, its, rand in [
            (0, b"secret", b"", [], [0, 65535, 4660]), (8, b"secret", b"", [], [1, 2, 3]), (0, b"secret", b"", 5, [40000, 7, 65535]),
            (1, b"secret", b"XXXXXXXX", [], []), (1, _cps("päss"), b"ab./09AZ", 400, []), (9, b"", b"salt", 1, []),
            (1, b"secret", b"", 4096, []), (2, b"secret", b"saltSALT", 10, []), (10, b"pw", b"s", [], []),
            (3, b"secret", b"XXXXXXXX", [], []), (3, b"secret", b"XXXXXXXX", 1000, []), (11, b"w", b"abc", 17, []),
            (4, b"secret", b"salt", 3, []), (4, b"secret", b"salt", 401, []),
            (5, b"x", b"sa lt", [], []), (5, b"x", b"sa+lt", 5, []), (5, b"x", b"$p5k2$0A$salt$h", [], []),
            (5, b"x", b"$p5k2$0$salt$h", [], []), (5, b"x", b"$p5k2$00a$salt$h", [], []), (5, b"x", b"$p5k2$-1$salt$h", [], []),
            (13, b"x", b"$p5k2$a$sa,lt$h", [], [])]:
        ctx.label("entry/crypt" + ("-no-salt" if kind & 7 == 0 else "-refused" if kind & 7 == 5 else ""))
        yield ("prop", "crypt", [kind, word, salt, its, rand])
    # --- (g) failure, then the same object again
    for alg in range(3):
        for c in (1, 2):
            for nb in (0, 5):
                ctx.label("retry/pbkdf2-read-refused-then-read")
                yield ("prop", "pbkdf2_overflow_retry", [alg, ctx.rbytes(r.choice([0, 7, 70])), ctx.rbytes(6), c, ctx.rbytes(nb)])


def histories(ctx):
    for _ in range(ctx.n(20, 200)):
        ctx.label("history/wordlist-lookups")
        yield ("prop", "wordlist_session", [wl_ops(ctx, 4)])
    for _ in range(ctx.n(30, 600)):
        ctx.label("history/pbkdf2-objects")
        yield ("prop", "pbkdf2_session", pb_session(ctx))
    for _ in range(ctx.n(8, 100)):
        ctx.label("history/mnemonic-kdf-seed")
        yield ("prop", "mnemonic_session", [mn_ops(ctx)])



def generate(ctx):
    r = ctx.rng
    yield ("prop", "lookup_all", [])
    # --- word lists: every word and every prefix (both lists), out-of-range indices, near misses
    for which, wl in enumerate(WL):
        n = len(wl.words)
        for i, w in enumerate(wl.words):
            yield ("corr", "wl_index", [which, w.encode()])
            if len(w) > 4 or i % 8 == 0:
                yield ("corr", "wl_index", [which, w[:4].encode()])
            if i % 16 == 0:
                ctx.label("wordlist/near-miss")
                yield ("corr", "wl_index", [which, w[:3].encode()])
                yield ("corr", "wl_index", [which, w[:5].encode()])
                yield ("corr", "wl_index", [which, w.upper().encode()])
                yield ("corr", "wl_index", [which, (w + "s").encode()])
                yield ("corr", "wl_normalize", [which, w.upper().encode()])
                yield ("corr", "wl_normalize", [which, w[:4].capitalize().encode()])
                yield ("corr", "wl_word", [which, i])
        for i in (0, 1, n - 1, n, n + 1, 2 * n):
            yield ("corr", "wl_word", [which, i])
        yield ("corr", "wl_index", [which, b""])
    # --- split(): every whitespace class, neighbours of the classes
    for c in SPACES + NOT_SPACES:
        ctx.label("split/space" if chr(c).isspace() else "split/non-space")
        yield ("corr", "split", [[97, c, 98]])
        yield ("corr", "split", [[c, 97, c, c, 98, 99, c]])
    for _ in range(ctx.n(150, 4000)):
        alpha = [97, 98, 122] + r.sample(SPACES, 3) + r.sample(NOT_SPACES, 2)
        yield ("corr", "split", [[r.choice(alpha) for _ in range(r.randrange(0, 14))]])
    # --- entropy -> mnemonic -> entropy, all five lengths, boundaries
    for n in (16, 20, 24, 28, 32):
        for e in (bytes(n), b"\xff" * n, b"\x80" + bytes(n - 1), bytes(n - 1) + b"\x01"):
            ctx.label(f"entropy/{n * 8}/boundary")
            yield ("prop", "roundtrip", [e])
            yield ("corr", "bytes_to_mnemonic", [e, n * 8])
            yield ("corr", "bytes_to_indices", [e, n * 8])
            yield ("corr", "mnemonic_to_bytes", [mnemonic.bytes_to_mnemonic(e, n * 8).encode()])
    valid = []
    for _ in range(ctx.n(120, 5000)):
        e = rentropy(ctx)
        nb = len(e) * 8
        ctx.label(f"entropy/{nb}")
        m = mnemonic.bytes_to_mnemonic(e, nb)
        valid.append((e, m))
        yield ("prop", "roundtrip", [e])
        yield ("corr", "bytes_to_mnemonic", [e, nb])
        yield ("corr", "bytes_to_indices", [e, nb])
        yield ("corr", "mnemonic_to_bytes", [m.encode()])
        yield ("prop", "accept_iff", [m.encode()])
        ws = m.split(" ")
        # prefix spellings, mixed, odd whitespace (incl. Unicode spaces)
        sp = " ".join(w[:4] if r.random() < 0.5 else w for w in ws)
        ctx.label("mnemonic/prefix-spelling")
        yield ("corr", "mnemonic_to_bytes", [sp.encode()])
        yield ("prop", "accept_iff", [sp.encode()])
        sep = [chr(r.choice(SPACES)) * r.randrange(1, 3) for _ in ws]
        odd = chr(r.choice(SPACES)) * r.randrange(0, 2) + "".join(w + s for w, s in zip(ws, sep))
        ctx.label("mnemonic/odd-whitespace")
        yield ("corr", "mnemonic_to_bytes", [_cps(odd)])
        yield ("prop", "accept_iff", [_cps(odd)])
    # wrong num_bits / entropy length mismatch (the code truncates or pads silently)
    for _ in range(ctx.n(40, 800)):
        e = ctx.rbytes(r.choice([0, 1, 15, 16, 17, 20, 31, 32, 33, 40]))
        nb = r.choice([128, 160, 192, 224, 256, 0, 96, 127, 129, 255, 257, 288, 512, -128])
        ctx.label("bytes_to_mnemonic/length-mismatch" if nb in (128, 160, 192, 224, 256) else "bytes_to_mnemonic/bad-num_bits")
        yield ("corr", "bytes_to_mnemonic", [e, nb])
        yield ("corr", "bytes_to_indices", [e, nb])
    # --- single-word substitutions of valid mnemonics: every position for a few, sampled for the rest
    for j, (e, m) in enumerate(valid[: ctx.n(30, 600)]):
        ws = m.split(" ")
        for pos in (range(len(ws)) if j < ctx.n(4, 40) else [r.randrange(len(ws))]):
            for _ in range(2):
                bad = list(ws)
                bad[pos] = WORDS[r.randrange(2048)]
                if r.random() < 0.3:
                    bad[pos] = bad[pos][:4]
                t = " ".join(bad).encode()
                ctx.label("mnemonic/substituted-accepted" if ref_decode(t.decode()) is not None else "mnemonic/substituted-rejected")
                yield ("prop", "accept_iff", [t])
                yield ("corr", "mnemonic_to_bytes", [t])
        # the last word re-chosen among those with the same entropy bits (exactly one checksum fits)
        if j < ctx.n(3, 20):
            idx = ref_indices(e)
            cs = len(e) * 8 // 32
            for low in range(1 << cs):
                bad = ws[:-1] + [WORDS[(idx[-1] >> cs << cs) | low]]
                t = " ".join(bad).encode()
                ctx.label("mnemonic/checksum-sweep")
                yield ("prop", "accept_iff", [t])
                yield ("corr", "mnemonic_to_bytes", [t])
    # --- random word sequences of every length 0..26, unknown words
    for n in list(range(0, 27)) + [r.randrange(0, 27) for _ in range(ctx.n(150, 6000))]:
        ws = [WORDS[r.randrange(2048)] for _ in range(n)]
        k = r.random()
        if ws and k < 0.15:
            p = r.randrange(n)
            ws[p] = r.choice([ws[p].upper(), ws[p][:3], ws[p] + "x", "", "zzzz", ws[p][:5], ws[p].capitalize(), "é"])
            ctx.label("mnemonic/unknown-word")
        t = " ".join(ws)
        ctx.label(f"mnemonic/random-words/{'valid-len' if n in (12, 15, 18, 21, 24) else 'bad-len'}")
        yield ("prop", "accept_iff", [_cps(t)])
        yield ("corr", "mnemonic_to_bytes", [_cps(t)])
    # --- secure_mnemonic
    for i in range(ctx.n(40, 1500)):
        nb = r.choice([128, 160, 192, 224, 256])
        extra = r.choice([0, 1, (1 << nb) - 1, 1 << nb, (1 << nb) + 1, r.getrandbits(nb), r.getrandbits(nb + 40),
                          r.getrandbits(r.randrange(1, 300))])
        rnd = r.choice([0, (1 << nb) - 1, r.getrandbits(nb)])
        t = r.choice([0, 1, r.getrandbits(51), 1700000000123456])
        ctx.label("secure_mnemonic/extra-masked" if extra >= (1 << nb) else "secure_mnemonic/extra-small")
        yield ("corr", "secure_mnemonic", [nb, extra, rnd, t])
        yield ("prop", "secure", [nb, extra, rnd, t])
    for bad in ([100, 0, 1, 2], [128, -1, 1, 2], [0, 0, 0, 0], [264, 5, 1, 2]):
        yield ("corr", "secure_mnemonic", bad)
    # --- PBKDF2: vendored class vs RFC spec vs hashlib
    for alg in range(3):
        for c in (1, 2, 3):
            for dk in DKLENS:
                pw, salt = ctx.rbytes(r.choice([0, 1, 8, 63, 64, 65, 129, 200])), ctx.rbytes(r.choice([0, 1, 8, 16, 70]))
                ctx.label(f"pbkdf2/{DIGESTS[alg][0]}/c={c}")
                yield ("corr", "pbkdf2_reads", [alg, pw, salt, c, [dk]])
                yield ("corr", "pbkdf2_spec", [alg, pw, salt, c, dk])
                yield ("prop", "pbkdf2", [alg, pw, salt, c, [dk]])
                ns = splits(r, dk + r.randrange(0, 70))
                ctx.label("pbkdf2/multiple-reads")
                yield ("corr", "pbkdf2_reads", [alg, pw, salt, c, ns])
                yield ("prop", "pbkdf2", [alg, pw, salt, c, ns])
    for _ in range(ctx.n(60, 2500)):
        alg, c = r.randrange(3), r.choice([1, 1, 2, 3, 4, 7])
        pw, salt = ctx.rbytes(r.randrange(0, 140)), ctx.rbytes(r.randrange(0, 40))
        ns = [r.choice([0, 0, 1, 5, 20, 32, 64, 100, r.randrange(0, 200)]) for _ in range(r.randrange(1, 6))]
        yield ("corr", "pbkdf2_reads", [alg, pw, salt, c, ns])
        yield ("prop", "pbkdf2", [alg, pw, salt, c, ns])
        yield ("corr", "pbkdf2_spec", [alg, pw, salt, c, sum(ns)])
    # negative read sizes (Python slice semantics; outside the theorem's domain, model only)
    for ns in ([10, -3, 5], [70, -100, 5], [-1], [5, -5, -1, 200], [0, -1, 0]):
        ctx.label("pbkdf2/negative-read")
        yield ("corr", "pbkdf2_reads", [r.randrange(3), ctx.rbytes(5), ctx.rbytes(4), r.choice([1, 2]), ns])
    for c in (0, -1, -5):
        ctx.label("pbkdf2/iterations<1")
        yield ("corr", "pbkdf2_reads", [0, b"p", b"s", c, [10]])
        yield ("corr", "pbkdf2_spec", [0, b"p", b"s", c, 10])
    for i in range(ctx.n(3, 40)):
        alg = i % 3
        pw, salt = PASSPHRASES[i % len(PASSPHRASES)], ctx.rbytes(12)
        ns = splits(r, r.choice([64, 65, 130]))
        ctx.label("pbkdf2/c=2048")
        yield ("corr", "pbkdf2_reads", [alg, pw, salt, 2048, ns])
        yield ("prop", "pbkdf2", [alg, pw, salt, 2048, ns])
    # --- seed and master key
    for i in range(ctx.n(7, 120)):
        e = rentropy(ctx, [16, 20, 24, 28, 32][i % 5])
        pw = PASSPHRASES[i % len(PASSPHRASES)] if i < 2 * len(PASSPHRASES) else ctx.rbytes(r.randrange(0, 40))
        m = mnemonic.bytes_to_mnemonic(e, len(e) * 8)
        sp = i % 3
        ws = m.split(" ")
        t = " ".join(w if sp == 0 or (sp == 2 and j % 2) else w[:4] for j, w in enumerate(ws))
        ctx.label(f"seed/spelling={sp}/passphrase={'empty' if not pw else 'ascii' if all(b < 128 for b in pw) else 'non-ascii'}")
        yield ("prop", "seed", [e, pw, sp])
        yield ("corr", "from_mnemonic", [t.encode(), pw])
        yield ("corr", "kdf", [m.encode(), b"mnemonic" + pw])
    # invalid mnemonics never reach the KDF
    for (e, m) in valid[: ctx.n(4, 40)]:
        ws = m.split(" ")
        ws[r.randrange(len(ws))] = WORDS[r.randrange(2048)]
        yield ("corr", "from_mnemonic", [" ".join(ws).encode(), b""])
        yield ("corr", "from_mnemonic", [" ".join(ws[:-1]).encode(), b"x"])
    for _ in range(ctx.n(10, 200)):
        yield ("corr", "from_seed", [ctx.rbytes(r.choice([0, 1, 16, 32, 64, 65]))])
    # --- second layer -------------------------------------------------------------------------------------------
    # the real encoder against the bit-string transcription of BIP-0039 (all five sizes, boundaries, bad sizes)
    for n in (16, 20, 24, 28, 32):
        for e in (bytes(n), b"\xff" * n, b"\x80" + bytes(n - 1), bytes(n - 1) + b"\x01"):
            ctx.label(f"bip39-spec/{n * 8}/boundary")
            yield ("corr", "spec_indices", [e])
            yield ("corr", "spec_sentence", [e])
    for _ in range(ctx.n(100, 4000)):
        e = rentropy(ctx)
        ctx.label(f"bip39-spec/{len(e) * 8}")
        yield ("corr", "spec_indices", [e])
        if r.random() < 0.3:
            yield ("corr", "spec_sentence", [e])
    for n in (0, 1, 4, 12, 15, 17, 19, 21, 31, 33, 36, 40, 64):
        ctx.label("bip39-spec/inadmissible-size")
        yield ("corr", "spec_indices", [ctx.rbytes(n)])
        yield ("corr", "spec_sentence", [ctx.rbytes(n)])
    # WordList[int] incl. negative indices, `in`
    for which, wl in enumerate(WL):
        n = len(wl.words)
        for i in (0, 1, n - 1, n, n + 1, -1, -2, -n, -n - 1, -n + 1, 2 * n, -2 * n, r.randrange(-n, n), r.randrange(-n, n)):
            ctx.label("wordlist/getitem-int/" + ("neg" if i < 0 else "nonneg") + ("" if -n <= i < n else "/out-of-range"))
            yield ("corr", "wl_getitem_int", [which, i])
        for _ in range(ctx.n(12, 300)):
            w = wl.words[r.randrange(n)]
            for t in (w, w[:4], w[:3], w + "s", w.upper(), ""):
                ctx.label("wordlist/contains/" + ("member" if t in wl.words else "non-member"))
                yield ("corr", "wl_contains", [which, t.encode()])
    # str -> UTF-8 (PBKDF2._setup) and the KDF on a str
    CPS = [0, 1, 65, 127, 128, 255, 256, 2047, 2048, 4095, 4096, 55295, 55296, 56320, 57343, 57344, 65535, 65536,
           0x1F600, 0x10FFFF]
    for c in CPS:
        ctx.label("utf8/" + ("surrogate" if 0xD800 <= c <= 0xDFFF else "1" if c < 128 else "2" if c < 2048 else "3" if c < 65536 else "4"))
        yield ("corr", "utf8", [[c]])
        yield ("corr", "utf8", [[97, c, 98]])
    for _ in range(ctx.n(60, 2000)):
        yield ("corr", "utf8", [[r.choice(CPS + [r.randrange(0, 0x110000)]) for _ in range(r.randrange(0, 8))]])
    for i in range(ctx.n(3, 40)):
        t = [[112, 228, 223], [0x30D1, 0x30B9], [97, 32, 98], [0xD800], [0x1F600, 65]][i % 5]
        ctx.label("kdf/str-passphrase/" + ("ascii" if max(t) < 128 else "surrogate" if 0xD800 in t else "non-ascii"))
        yield ("corr", "kdf_str", [t, ctx.rbytes(r.randrange(0, 12))])
    # PBKDF2 object sessions: read / hexread / close interleaved (also reads after close, double close, negative sizes)
    for _ in range(ctx.n(60, 2500)):
        alg, c = r.randrange(3), r.choice([1, 1, 2, 3, 5])
        pw, salt = ctx.rbytes(r.choice([0, 1, 8, 64, 65, 130])), ctx.rbytes(r.choice([0, 4, 8, 16]))
        ops = []
        for _ in range(r.randrange(1, 10)):
            x = r.random()
            if x < 0.5:
                ops.append([0, r.choice([0, 1, 5, 19, 20, 21, 32, 63, 64, 65, 130, r.randrange(0, 200)])])
            elif x < 0.8:
                ops.append([1, r.choice([0, 1, 20, 33, 64, r.randrange(0, 100)])])
            elif x < 0.9:
                ops.append([2])
            else:
                ops.append([r.randrange(2), -r.randrange(1, 80)])
        ctx.label("pbkdf2-object/" + ("with-close" if [2] in ops else "open") + ("/negative-size" if any(len(o) == 2 and o[1] < 0 for o in ops) else ""))
        yield ("corr", "pbkdf2_session", [alg, pw, salt, c, ops])
    for c in (0, -3):
        yield ("corr", "pbkdf2_session", [0, b"p", b"s", c, [[0, 4], [2]]])
    # the "derived key too long" branch: block counter set next to 2^32 - 1 by hand
    M = 0xFFFFFFFF
    for alg in range(3):
        hl = [64, 32, 20][alg]
        for (buf_n, blk, n) in [(0, M, 1), (0, M, 0), (5, M, 5), (5, M, 6), (0, M - 1, hl), (0, M - 1, hl + 1), (3, M - 1, hl + 3),
                                (3, M - 1, hl + 4), (0, M - 2, 2 * hl + 1), (0, M - 2, 2 * hl), (0, M + 1, 1), (0, M + 5, 1),
                                (0, -1, 1), (0, -2, 1), (0, -5, hl), (7, 3, -2), (0, 0, hl + 1), (2, 41, 70)]:
            ctx.label("pbkdf2/derived-key-too-long" if blk + -(-(max(n - buf_n, 0)) // hl) > M else "pbkdf2/state-read")
            yield ("corr", "pb_read_state", [alg, ctx.rbytes(4), ctx.rbytes(4), r.choice([1, 2]), ctx.rbytes(buf_n), blk, n])
    # the outermost entry points: from_mnemonic(mnemonic, password, path, network, versions) -> fields, xprv(), xpub()
    PATHS = [b"m", b"m", b"M", b"m/0", b"m/0'", b"m/44h/0H/0'", b"m/84'/1'/0'/0/5", b"m/2147483647", b"m/2147483648",
             b"", b"x/0", b"m/", b"m/abc", b"m/-1", b"m/0/", b"n"]
    for i in range(ctx.n(16, 150)):
        e = rentropy(ctx, [16, 20, 24, 28, 32][i % 5])
        pw = PASSPHRASES[i % len(PASSPHRASES)] if i < len(PASSPHRASES) else ctx.rbytes(r.randrange(0, 40))
        ws = mnemonic.bytes_to_mnemonic(e, len(e) * 8).split(" ")
        sp = i % 3
        t = " ".join(w if sp == 0 or (sp == 2 and j % 2) else w[:4] for j, w in enumerate(ws))
        path = PATHS[i % len(PATHS)]
        net = [0, 1, 2, 3, 0][i % 5]
        ver, pubver = [], []
        if i % 4 == 3:
            ver, pubver = bytes.fromhex("04b2430c"), bytes.fromhex("04b24746")
        ctx.label(f"from_mnemonic/path={'root' if path.lower() == b'm' else 'bad' if path in (b'', b'x/0', b'm/', b'm/abc', b'm/-1', b'm/0/', b'n') else 'derived'}/net={NETS[net]}")
        yield ("corr", "hd_from_mnemonic", [t.encode(), pw, path, net, ver, pubver])
        yield ("prop", "xprv", [e, pw, net, sp])
        if i < ctx.n(3, 30):
            yield ("corr", "seed_utf8", [t.encode(), pw])
    for (e, m) in valid[: ctx.n(2, 20)]:
        ws = m.split(" ")
        ws[r.randrange(len(ws))] = WORDS[r.randrange(2048)]
        ctx.label("from_mnemonic/invalid-mnemonic")
        yield ("corr", "hd_from_mnemonic", [" ".join(ws).encode(), b"", b"m/0", 0, [], []])
        yield ("corr", "hd_from_mnemonic", [" ".join(ws[:-1]).encode(), b"x", b"m", 1, [], []])
    yield ("corr", "hd_from_mnemonic", [valid[0][1].encode(), b"", b"m", 7, [], []])      # unknown network
    # HDPrivateKey.generate with randbits / clock replaced
    for i in range(ctx.n(4, 60)):
        extra = r.choice([0, 1, (1 << 256) - 1, 1 << 256, r.getrandbits(256), r.getrandbits(300)])
        rnd = r.choice([0, (1 << 256) - 1, r.getrandbits(256)])
        t = r.choice([0, r.getrandbits(51), 1700000000123456])
        pw = ctx.rbytes(r.randrange(0, 12))
        ctx.label("generate/extra-masked" if extra >= (1 << 256) else "generate/extra-small")
        yield ("corr", "hd_generate", [pw, extra, rnd, t, i % 4])
        yield ("prop", "generate", [pw, extra, rnd, t, i % 4])
    yield ("corr", "hd_generate", [b"", -1, 5, 6, 0])
    yield ("corr", "hd_generate", [b"", 0, 1 << 256, 6, 0])
    # --- histories: the same word lists / PBKDF2 objects / functions used repeatedly
    yield from histories(ctx)
    # --- entry-point audit: alternative entry points, default arguments, hand-built classes, lenient decoding, retries
    yield from entry_points(ctx)
