"""C07 — script interpreter (buidl/op.py, buidl/script.py Script.evaluate, buidl/timelock.py)
versus Bitcoin consensus semantics (coq/Spec/Consensus.v, extracted).

corr  : real op code functions / Script.evaluate  vs  the extracted Coq model (Model/Op.v, Model/Interp.v)
prop  : real op code functions / Script.evaluate  vs  the extracted consensus spec (skip OutOfScope),
        and the number codec laws on the real encode_num / decode_num.
"""
import itertools

from buidl import op as bop
from buidl import script as bscript
from buidl.script import Script
from buidl.tx import Tx, TxIn
from buidl.witness import Witness
from vp.core import ImplTimeout      # the engine's watchdog: must never be swallowed by an `except Exception` here

PID = "C07"
RULE = ("Single op codes: every implemented op code (and a set of unknown ones) x every stack over the alphabet "
        "{'',00,01,80,81,02,7f,ff00,5-byte} up to depth 3 (quick) / 4 (thorough), deeper stacks (<=7) sampled, "
        "alt-stack variations; programs: random structured programs <= 40 operations, IF/NOTIF nesting <= 4, "
        "multiple ELSE, plus mutants with unbalanced IF/ENDIF and stray ELSE; number codec: 0, +-1, "
        "+-(2^7,2^8,2^15,2^16,2^23,2^24,2^31,2^32,2^39,2^63)+-1, random integers, all 0..1-byte strings, "
        "2- and 3-byte strings over a boundary alphabet exhaustively and sampled at random; time locks: grid over "
        "locktime/operand around 500000000, sequence/operand bits 16, 22 and 31, MAX values, versions 0,1,2,3,2^32-1. "
        "Script.evaluate is run with allow_p2sh=allow_witness=False (no byte pattern special-cased) for every program and "
        "additionally with the default flags for every fifth program, all fixed programs and a stream salted with the "
        "P2SH / witness-program shapes (the model then answers 2 = special case entered, the spec OutOfScope). "
        "Failure mode: where consensus fails an op code or rejects a script, the library must RETURN False; an exception "
        "counts as a violation unless it is the KeyError of the table look-up for a command that is no implemented op code "
        "(unknown / disabled op codes, ELSE / ENDIF outside a conditional). Every op code as a whole script at every stack "
        "depth 0..arity+1; minimal pushes -4..20; Locktime / Sequence class API on all pairs of boundary values; the two "
        "dispatch tables compared entry by entry. Every single-op-code, op_if and Script.evaluate case is ALSO compared with the "
        "failure-mode model (Model/OpMode.v: stacks / returned False / KeyError / IndexError / ValueError). Every program is "
        "also judged against consensus WITH its resource limits (Spec/ConsensusLimits.v) when it lies inside the static bounds "
        "of C07_limits_unreachable; the four witnesses beyond the bounds (521-byte push, 202 NOPs, 1001 items, 10460-byte "
        "script) and their in-bounds neighbours are correspondence cases. Locktime / Sequence classes: every pair of "
        "boundary values and random pairs against the model (Model/Timelock.v) and against the extracted BIP65/68/112 spec "
        "(Spec/Timelocks.v); constructors from_relative_time / from_relative_blocks in range, at the 16-bit edge, beyond "
        "it and negative; parse on 0..6-byte streams. Small-number helpers (number_to_op_code, op_code_to_number, "
        "encode_minimal_num) for -5..129 and large / random numbers against Model/OpNum.v; the prefix "
        "<encode_minimal_num(n)> CLTV|CSV DROP 1 for every operand class x context class. Alternative entry points "
        "(predicate eval_entry, fixed + timelock + random programs): the default-constructed Script()/Script(None) edited in "
        "place (and a second default object observed), the sub-classes ScriptPubKey/RedeemScript/WitnessScript, a + b at "
        "four split points (operands observed afterwards, the sum edited in place), Script.parse raw/stream/hex, "
        "RedeemScript.convert, WitnessScript.convert, ScriptPubKey.parse on an independently written wire form (shortest "
        "push and PUSHDATA1/2/4 forms), Tx.verify_input with push-only script_sig + script_pubkey (other inputs carrying "
        "scripts of the opposite verdict), and contexts from Tx.parse (legacy / BIP144) / parse_hex / clone, from "
        "Locktime/Sequence objects, from witness=None and from the constructors' defaults (no locktime / no sequence "
        "argument). Several inputs of ONE transaction object (predicate eval_inputs): each input with its own script and "
        "sequence, verified forwards, backwards and through Tx.verify_input without resetting anything, the transaction "
        "object compared field by field after every step. Data pushes whose bytes are control op codes (63 64 67 68 6a) in "
        "taken and skipped branches.")
TRUSTED = ["hashlib (ripemd160, sha1, sha256) — the hash op codes call the same hashlib through the oracle; the "
           "theorems quantify over arbitrary hash functions",
           "Spec/Consensus.v is a hand transcription of Bitcoin Core's EvalScript for the implemented op code set "
           "(legacy rules, CLTV and CSV active, policy flags off); it is not itself checked against Bitcoin Core",
           "harness instrumentation: a sentinel witness object and a stub for buidl.script.encode_varstr detect when "
           "Script.evaluate enters its P2SH / witness special cases (reported as outcome 2)"]
ASSUMPTIONS = ["the transaction context is a Tx with 1..3 TxIns (the evaluated one at a varying index, with the sentinel witness, no "
               "witness or a real witness): 0 <= locktime, sequence < 2^32, 0 <= version < 2^32",
               "the signature op codes 172-175/186 are outside the op code set of this property (C06 covers them)",
               "consensus resource limits (520-byte pushes, 10000-byte scripts, 201 op codes, 1000 stack items): the library "
               "enforces none of them (C07_resource_limits_refuted).  Spec/Consensus.v answers OutOfScope for pushes > 520 "
               "bytes and scripts > 10000 bytes and does not count op codes / stack items; Spec/ConsensusLimits.v has all "
               "four, and C07_limits_unreachable proves that they cannot fire inside the static bounds that contain every "
               "program of <= 40 operations with pushes <= 520 bytes"]
BUDGET_S = {"quick": 600, "thorough": 3000}

bscript.print = lambda *a, **k: None        # Script.evaluate prints "bad op" on every failure
bop.print = lambda *a, **k: None


# ---------------------------------------------------------------- implementation wrappers

class _Special(Exception):
    """Script.evaluate entered one of its P2SH / witness-program special cases"""


class _Fail(Exception):
    """an op code function returned False"""


class _SentinelWitness(Witness):
    def __init__(self):
        pass

    def __bool__(self):
        return True

    def __len__(self):
        raise _Special()

    def clone(self):
        return self

    @property
    def items(self):
        raise _Special()


def _raise_special(*a, **k):
    raise _Special()


def mk_tx(lt, sq, ver, wit=0):
    """The transaction context.  Consensus looks only at nLockTime, nVersion and the nSequence of the input being
    spent, so the context is completed (deterministically from the three values) to a transaction with 1..3 inputs
    in which the evaluated input sits at index tx.verif_idx and the OTHER inputs carry sequences of the other
    classes (final / non-final, disable bit, time/height type): a rule that looks at another input or at all of them
    shows up as a disagreement with the model, which is given (lt, sq, ver) only.
    wit: 0 the sentinel witness (detects the witness special cases), 1 no witness at all (the TxIn default, an
    empty Witness: Script.evaluate then works with witness = None), 2 a real non-empty witness.  1 and 2 are
    used only with allow_witness=False, where the witness is never looked at."""
    h = (lt * 2654435761 + sq * 40503 + ver * 97 + 12345) & 0xFFFFFFFF
    k = 1 + (h >> 3) % 3
    idx = (h >> 7) % k
    others = [0xFFFFFFFF, 0, 0xFFFFFFFE, sq ^ 0x80000000, sq ^ 0x00400000, (sq + 1) & 0xFFFFFFFF, 0x00400001, 5]
    if sq == 0xFFFFFFFF:
        others = [0, 0xFFFFFFFE, 5, 0x00400001]
    ins = []
    for j in range(k):
        s_j = sq if j == idx else others[((h >> 11) + j) % len(others)]
        txin = TxIn(bytes([j]) * 32, j, sequence=s_j)
        if wit == 0 or j != idx:
            txin.witness = _SentinelWitness()
        elif wit == 2:
            txin.witness = Witness([b"\x01", b"", bytes(range(33))])
        ins.append(txin)
    tx = Tx(ver, ins, [], lt)
    tx.verif_idx = idx
    return tx


TX_OPS = (172, 173, 174, 175, 177, 178, 186)


def call_op(o, stack, alt, tx):
    """the dispatch of Script.evaluate for one integer command other than 99/100"""
    fn = bop.OP_CODE_FUNCTIONS[o]
    if o in (107, 108):
        return fn(stack, alt)
    if o in TX_OPS:
        return fn(stack, tx, tx.verif_idx)
    return fn(stack)


def i_op(o, st, alt, lt, sq, ver):
    stack, a = list(st), list(alt)
    if not call_op(o, stack, a, mk_tx(lt, sq, ver)):
        raise _Fail()
    return [stack, a]


def i_op_if(neg, st, items):
    stack, its = list(st), list(items)
    fn = bop.op_notif if neg else bop.op_if
    if not fn(stack, its):
        raise _Fail()
    return [stack, its]


EXN_CODE = {KeyError: 11, IndexError: 12, ValueError: 13}


def _mode(fn):
    """run fn(); an exception of one of the three modelled classes becomes its code (Model/OpMode.v: 11 KeyError,
    12 IndexError, 13 ValueError), any other exception stays an exception (= a disagreement with the model)"""
    try:
        return fn()
    except _Fail:
        return 0
    except ImplTimeout:
        raise
    except Exception as e:  # noqa
        if type(e) in EXN_CODE:
            return EXN_CODE[type(e)]
        raise


def i_op_mode(o, st, alt, lt, sq, ver):
    """one integer command with its failure mode: [stack, alt] / 0 (returned False) / 11.. (raised)"""
    def go():
        stack, a = list(st), list(alt)
        fn = bop.OP_CODE_FUNCTIONS[o]          # the look-up of Script.evaluate: KeyError for a command not in the table
        tx = mk_tx(lt, sq, ver)
        ok = fn(stack, a) if o in (107, 108) else fn(stack, tx, tx.verif_idx) if o in TX_OPS else fn(stack)
        return [stack, a] if ok else 0
    return _mode(go)


def i_op_if_mode(neg, st, items):
    def go():
        stack, its = list(st), list(items)
        return [stack, its] if (bop.op_notif if neg else bop.op_if)(stack, its) else 0
    return _mode(go)


def i_evaluate_mode(cmds, lt, sq, ver, ap=0, aw=0):
    """Script.evaluate with its failure mode: 1 True, 0 False, 2 special case entered, 11.. the exception class"""
    wit = 0 if aw else (len(cmds) + lt + sq + ver) % 3
    tx = mk_tx(lt, sq, ver, wit)
    saved = bscript.encode_varstr
    bscript.encode_varstr = _raise_special
    try:
        return _mode(lambda: 1 if Script(list(cmds)).evaluate(tx, tx.verif_idx, allow_p2sh=bool(ap),
                                                               allow_witness=bool(aw)) else 0)
    except _Special:
        return 2
    finally:
        bscript.encode_varstr = saved


# ---- the classes of buidl/timelock.py, in the shape of the dispatcher ops "timelock", "timelock_ctor", "timelock_parse"

def _res(fn):
    """value / ValueError -> the canonical error"""
    from vp.sexp import ERR
    try:
        return fn()
    except ValueError:
        return ERR


def i_timelock(a, b):
    from buidl.timelock import Locktime, Sequence
    out = [_res(lambda: int(Locktime(a))), _res(lambda: int(Sequence(a)))]
    if not (0 <= a <= U32 and 0 <= b <= U32):
        return out + [[]]
    la, lb, sa, sb = Locktime(a), Locktime(b), Sequence(a), Sequence(b)
    out.append([
        la.serialize(), sa.serialize(),
        bool(la.is_comparable(lb)), _res(lambda: bool(la < lb)), bool(la < b),
        la.block_height(), la.mtp(),
        bool(sa.is_relative()), bool(sa.is_relative_time()), bool(sa.is_relative_block()),
        bool(sa.is_max()), bool(sa.is_rbf_able()),
        sa.relative_blocks(), sa.relative_time(),
        bool(sa.is_comparable(sb)), _res(lambda: bool(sa < sb)), bool(sa < b),
    ])
    return out


def i_timelock_ctor(n):
    from buidl.timelock import Locktime, Sequence
    return [_res(lambda: int(Sequence.from_relative_time(n))), _res(lambda: int(Sequence.from_relative_blocks(n))),
            int(Locktime()), int(Sequence())]


def i_timelock_parse(s):
    from io import BytesIO
    from buidl.timelock import Locktime, Sequence
    return [_res(lambda: int(Locktime.parse(BytesIO(s)))), _res(lambda: int(Sequence.parse(BytesIO(s))))]


def i_op_num(n):
    return [_res(lambda: bop.number_to_op_code(n)), _res(lambda: bop.number_to_op_code_byte(n)),
            _res(lambda: bop.op_code_to_number(n)), _res(lambda: bop.encode_minimal_num(n))]


def table_miss(e):
    """the one exception the interpreter raises by construction: the look-up of a command that is not in its op
    code table (disabled / reserved / unknown op codes, OP_ELSE / OP_ENDIF met outside a conditional)"""
    return (isinstance(e, KeyError) and len(e.args) == 1 and isinstance(e.args[0], int)
            and not isinstance(e.args[0], bool) and e.args[0] not in bop.OP_CODE_FUNCTIONS)


def eval_obj(script, tx, ap, aw):
    """Script.evaluate on GIVEN objects -> (outcome, exc): outcome 1 True, 0 False or exception, 2 a special case
    was entered; exc names the exception when the rejection was an exception other than a table miss"""
    saved = bscript.encode_varstr
    bscript.encode_varstr = _raise_special
    try:
        return (1 if script.evaluate(tx, tx.verif_idx, allow_p2sh=bool(ap), allow_witness=bool(aw)) else 0), None
    except _Special:
        return 2, None
    except ImplTimeout:
        raise
    except Exception as e:  # noqa
        return 0, (None if table_miss(e) else type(e).__name__)
    finally:
        bscript.encode_varstr = saved


def eval_outcome(cmds, lt, sq, ver, ap=0, aw=0):
    # with allow_witness off the witness of the input is never used: vary it (sentinel / none / real)
    wit = 0 if aw else (len(cmds) + lt + sq + ver) % 3
    tx = mk_tx(lt, sq, ver, wit)
    return eval_obj(Script(list(cmds)), tx, ap, aw)


def run_evaluate(cmds, lt, sq, ver, ap=0, aw=0):
    """Script.evaluate with allow_p2sh=ap, allow_witness=aw: 1 True, 0 False or exception, 2 a special case was entered"""
    return eval_outcome(cmds, lt, sq, ver, ap, aw)[0]


RAISES = ("the interpreter reports failure by returning False (Script.evaluate does not catch exceptions, "
          "Tx.verify_input passes them on)")


def op_outcome(o, st, alt, tx):
    """one op code function on copies of the stacks -> (new [stack, alt] or None for failure, exc)"""
    stack, a = list(st), list(alt)
    try:
        ok = call_op(o, stack, a, tx)
    except ImplTimeout:
        raise
    except Exception as e:  # noqa
        return None, (None if table_miss(e) else type(e).__name__)
    return ([stack, a] if ok else None), None


def ref_encode_num(n):
    """CScriptNum serialisation written independently of buidl.op (used by the GENERATORS: a defect in the
    library's encoder must surface in the cases about the encoder, not stop case generation)"""
    if n == 0:
        return b""
    a, neg, out = abs(n), n < 0, bytearray()
    while a:
        out.append(a & 0xFF)
        a >>= 8
    if out[-1] & 0x80:
        out.append(0x80 if neg else 0)
    elif neg:
        out[-1] |= 0x80
    return bytes(out)


def ref_minimal_push(n):
    """the shortest command that pushes the script number n: OP_0 / OP_1NEGATE / OP_1..OP_16 for -1..16, else the
    data push of its serialisation (written independently of buidl.op.encode_minimal_num)"""
    if n == 0:
        return 0
    if n == -1:
        return 79
    if 1 <= n <= 16:
        return 80 + n
    return ref_encode_num(n)


IMPL = {
    "encode_num": lambda n: bop.encode_num(n),
    "decode_num": lambda e: bop.decode_num(e),
    "op": i_op,
    "op_if": i_op_if,
    "evaluate": run_evaluate,
    "op_mode": i_op_mode,
    "op_if_mode": i_op_if_mode,
    "evaluate_mode": i_evaluate_mode,
    "timelock": i_timelock,
    "timelock_ctor": i_timelock_ctor,
    "timelock_parse": i_timelock_parse,
    "op_num": i_op_num,
}

# ---------------------------------------------------------------- the extracted spec as oracle

_drv = None


def spec(fn, *args):
    global _drv
    if _drv is None:
        from vp import build
        from vp.driver import Driver
        _drv = Driver(build.build_driver(PID))
    return _drv.call(fn, *args)


# ---------------------------------------------------------------- property predicates

def ref_cast_to_bool(v):
    for i, b in enumerate(v):
        if b != 0:
            return not (i == len(v) - 1 and b == 0x80)
    return False


def ref_minimal(v):
    if not v:
        return True
    if v[-1] & 0x7F == 0:
        return len(v) > 1 and (v[-2] & 0x80) != 0
    return True


def ref_value(v):
    if not v:
        return 0
    r = int.from_bytes(v, "little")
    if v[-1] & 0x80:
        return -(r & ~(0x80 << (8 * (len(v) - 1))))
    return r


def p_codec_int(n):
    e = bop.encode_num(n)
    if bop.decode_num(e) != n:
        return f"decode_num(encode_num({n})) = {bop.decode_num(e)}"
    want_len = 0 if n == 0 else abs(n).bit_length() // 8 + 1
    if len(e) != want_len:
        return f"encode_num({n}) has {len(e)} bytes, the shortest encoding has {want_len}"
    if not ref_minimal(e):
        return f"encode_num({n}) = {e.hex()} is not minimally encoded"
    s = spec("spec_serialize", n)
    if s != e:
        return f"encode_num({n}) = {e.hex()} but CScriptNum::serialize gives {s.hex()}"
    return None


def p_codec_bytes(e):
    n = bop.decode_num(e)
    val, reser, ctb, mini = spec("spec_num", e)
    if n != val or n != ref_value(e):
        return f"decode_num({e.hex()}) = {n}, CScriptNum says {val}"
    if (n == 0) != (not ref_cast_to_bool(e)) or ctb != (1 if ref_cast_to_bool(e) else 0):
        return f"decode_num({e.hex()}) == 0 is {n == 0} but CastToBool is {bool(ctb)}"
    if mini != (1 if ref_minimal(e) else 0):
        return "spec and reference disagree on minimality (harness/spec bug)"
    back = bop.encode_num(n)
    if ref_minimal(e) and back != e:
        return f"minimally encoded {e.hex()} re-encodes as {back.hex()}"
    if len(back) > len(e) or bop.decode_num(back) != n:
        return f"encode_num(decode_num({e.hex()})) = {back.hex()} is longer or a different number"
    return None


def p_op(o, st, alt, lt, sq, ver):
    """one op code on the implementation == the consensus step (skip OutOfScope); a failure is `return False`"""
    want = spec("spec_op", o, st, alt, lt, sq, ver)
    if want == 2:
        return None
    got, exc = op_outcome(o, st, alt, mk_tx(lt, sq, ver))
    from vp.sexp import ERR
    if want is ERR or want == ERR:
        if got is None:
            if exc:
                return (f"op code {o} raises {exc} on stack {[x.hex() for x in st]} where consensus fails the "
                        f"script: {RAISES}")
            return None
        return f"op code {o}: consensus fails, the library succeeds with stack {[x.hex() for x in got[0]]}"
    if got is None:
        return (f"op code {o}: the library fails{' (raises ' + exc + ')' if exc else ''}, consensus gives stack "
                f"{[x.hex() for x in want[0]]}")
    if got != want:
        return (f"op code {o}: library stack/alt {[x.hex() for x in got[0]]}/{[x.hex() for x in got[1]]}, consensus "
                f"{[x.hex() for x in want[0]]}/{[x.hex() for x in want[1]]}")
    return None


def p_eval(cmds, lt, sq, ver, ap=0, aw=0):
    """Script.evaluate(allow_p2sh=ap, allow_witness=aw) accepts exactly when the consensus spec accepts (skip
    OutOfScope; with the flags set the spec excludes the byte patterns the library then special-cases); a
    rejection is `return False` (or the table miss on a command that is no implemented op code)"""
    want = spec("spec_eval", cmds, lt, sq, ver, ap, aw)
    if want == 2:
        return None
    got, exc = eval_outcome(cmds, lt, sq, ver, ap, aw)
    if got == 2:
        return "Script.evaluate entered a P2SH/witness special case on a script the spec does not exclude"
    if got != want:
        return (f"Script.evaluate {'accepts' if got else 'rejects'}{' (raises ' + exc + ')' if exc else ''}, "
                f"consensus {'accepts' if want else 'rejects'}")
    if exc:
        return f"Script.evaluate raises {exc} on a script that consensus rejects: {RAISES}"
    return None


def p_eval_defaults(cmds, lt, sq, ver):
    """Script(cmds).evaluate(tx, i) — the call of the property statement, no flags given — is the evaluation with
    the P2SH and the witness rule both enabled"""
    tx = mk_tx(lt, sq, ver)
    saved = bscript.encode_varstr
    bscript.encode_varstr = _raise_special
    try:
        got = 1 if Script(list(cmds)).evaluate(tx, tx.verif_idx) else 0
    except _Special:
        got = 2
    except ImplTimeout:
        raise
    except Exception:  # noqa
        got = 0
    finally:
        bscript.encode_varstr = saved
    want = run_evaluate(cmds, lt, sq, ver, 1, 1)
    if got != want:
        return (f"evaluate(tx, i) gives {got}, evaluate(tx, i, allow_p2sh=True, allow_witness=True) gives {want} "
                f"(1 accept, 0 reject, 2 special case entered)")
    return None


# ---- one object / one process, many calls: evaluation must not keep state
# "for every script and every transaction context the result is what consensus says" also holds for the second,
# third … call on the same Script object, on a transaction object whose fields were edited in between, and for
# the op code functions called one after the other in any order.

def _set_ctx(tx, lt, sq, ver):
    from buidl.timelock import Locktime, Sequence
    tx.locktime = Locktime(lt)
    tx.tx_ins[tx.verif_idx].sequence = Sequence(sq)
    tx.version = ver


def _snap(cmds):
    return [(type(c), c) for c in cmds]


def p_eval_reuse(cmds, ctxs, ap=0, aw=0):
    """ONE Script object evaluated for every context of ctxs: first against ONE transaction object whose locktime /
    sequence / version are edited in place between the calls, then against fresh transaction objects in the
    reverse order.  Every result = consensus (when in scope) = the result of a fresh Script on a fresh Tx; the
    Script's command list is left as it was."""
    s = Script(list(cmds))
    tx = mk_tx(*ctxs[0])
    plan = [(c, tx) for c in ctxs] + [(c, None) for c in reversed(ctxs)]
    for k, (c, t) in enumerate(plan):
        lt, sq, ver = c
        if t is None:
            t = mk_tx(lt, sq, ver)
        else:
            _set_ctx(t, lt, sq, ver)
        got, exc = eval_obj(s, t, ap, aw)
        if _snap(s.commands) != _snap(cmds):
            return f"call {k}: Script.evaluate changed the Script's own command list"
        fresh = run_evaluate(cmds, lt, sq, ver, ap, aw)
        want = spec("spec_eval", cmds, lt, sq, ver, ap, aw)
        if got != fresh:
            return (f"call {k} (context {c}): the reused Script/Tx objects give {got}, fresh objects give {fresh} "
                    f"(1 accept, 0 reject, 2 special case)")
        if want != 2 and got != want:
            return f"call {k} (context {c}): Script.evaluate gives {got}, consensus {want}"
        if want != 2 and exc:
            return f"call {k} (context {c}): Script.evaluate raises {exc} on a script that consensus rejects: {RAISES}"
    return None


def p_eval_seq(items):
    """programs evaluated one after the other in one process, forwards and then backwards: nothing may leak from
    one evaluation into the next (stack, alt stack, conditional state, memoised verdicts)"""
    for k, it in enumerate(list(items) + list(reversed(items))):
        cmds, lt, sq, ver, ap, aw = it
        want = spec("spec_eval", cmds, lt, sq, ver, ap, aw)
        got, exc = eval_outcome(cmds, lt, sq, ver, ap, aw)
        if want != 2 and got != want:
            return (f"evaluation {k} of the sequence: Script.evaluate gives {got}, consensus {want} "
                    f"(the same program alone: {run_evaluate(cmds, lt, sq, ver, ap, aw)})")
        if want != 2 and exc:
            return f"evaluation {k} of the sequence: Script.evaluate raises {exc} where consensus rejects: {RAISES}"
    return None


def p_op_seq(items):
    """op code functions called one after the other (forwards, then backwards) with ONE transaction object edited
    in place: each call = the consensus step on its own arguments"""
    from vp.sexp import ERR
    tx = mk_tx(0, 0, 1)
    for k, it in enumerate(list(items) + list(reversed(items))):
        o, st, alt, lt, sq, ver = it
        want = spec("spec_op", o, st, alt, lt, sq, ver)
        if want == 2:
            continue
        _set_ctx(tx, lt, sq, ver)
        got, exc = op_outcome(o, st, alt, tx)
        if want is ERR or want == ERR:
            if got is not None:
                return f"call {k}: op code {o} succeeds on {[x.hex() for x in st]} where consensus fails"
            if exc:
                return f"call {k}: op code {o} raises {exc} on {[x.hex() for x in st]} where consensus fails: {RAISES}"
        elif got != want:
            return (f"call {k}: op code {o} on {[x.hex() for x in st]} in context {(lt, sq, ver)} gives "
                    f"{None if got is None else [x.hex() for x in got[0]]}, consensus {[x.hex() for x in want[0]]}")
    return None


def p_minimal_push(n):
    """encode_minimal_num / number_to_op_code / op_code_to_number / number_to_op_code_byte: -1..16 are the op codes
    OP_1NEGATE, OP_0, OP_1..OP_16 (whose execution pushes exactly the serialisation of n), every other number is
    the data push of its minimal serialisation"""
    want = ref_minimal_push(n)
    got = bop.encode_minimal_num(n)
    if type(got) is not type(want) or got != want:
        return f"encode_minimal_num({n}) = {got!r}, the minimal push is {want!r}"
    if isinstance(want, int):
        st = []
        if bop.OP_CODE_FUNCTIONS[got](st) is not True or st != [ref_encode_num(n)]:
            return f"op code {got} chosen for {n} leaves {[x.hex() for x in st]}"
        if bop.number_to_op_code(n) != want or bop.number_to_op_code_byte(n) != bytes([want]):
            return f"number_to_op_code({n}) / number_to_op_code_byte({n}) are not {want}"
        if bop.op_code_to_number(want) != n:
            return f"op_code_to_number({want}) = {bop.op_code_to_number(want)}, not {n}"
    else:
        for f in (bop.number_to_op_code, bop.number_to_op_code_byte):
            try:
                r = f(n)
            except ValueError:
                continue
            return f"{f.__name__}({n}) returns {r!r}: there is no op code for this number"
    return None


def p_op_code_to_number(o):
    """op_code_to_number inverts number_to_op_code and rejects every other op code (80 = OP_RESERVED is read as 0
    by the library's list of accepted codes: not asserted either way)"""
    small = {0: 0, 79: -1}
    small.update({80 + k: k for k in range(1, 17)})
    if o == 80:
        return None
    try:
        r = bop.op_code_to_number(o)
    except ValueError:
        return f"op_code_to_number({o}) raises, the op code pushes {small[o]}" if o in small else None
    if o not in small:
        return f"op_code_to_number({o}) = {r!r}: {o} is not a small-number op code"
    return None if r == small[o] else f"op_code_to_number({o}) = {r!r}, not {small[o]}"


U32 = 2 ** 32 - 1


def _expect(desc, fn, want):
    """fn() == want, where want may be the class ValueError (fn must raise it)"""
    try:
        got = fn()
    except ValueError:
        return None if want is ValueError else f"{desc} raises ValueError, expected {want!r}"
    if want is ValueError:
        return f"{desc} = {got!r}, expected ValueError"
    if isinstance(want, bool):
        return None if bool(got) == want else f"{desc} = {got!r}, expected {want}"
    return None if (got == want and (got is None) == (want is None)) else f"{desc} = {got!r}, expected {want!r}"


def p_timelock_api(a, b):
    """the comparison rules of buidl.timelock.Locktime / Sequence against BIP65 / BIP68 / BIP112 written out here:
    domain 0..2^32-1, height/time type at 500000000, disable flag bit 31, type flag bit 22, 16-bit value;
    `<` between two lock times of different type raises ValueError, against a plain int it is the int order"""
    from io import BytesIO
    from buidl.timelock import Locktime, Sequence
    checks = [("Locktime()", lambda: int(Locktime()), 0), ("Sequence()", lambda: int(Sequence()), U32)]
    for cls in (Locktime, Sequence):
        for n in (a, b):
            ok = 0 <= n <= U32
            checks.append((f"{cls.__name__}({n})", lambda cls=cls, n=n: (int(cls(n)), type(cls(n)) is cls),
                           (n, True) if ok else ValueError))
            if ok:
                checks.append((f"{cls.__name__}({n}).serialize()", lambda cls=cls, n=n: cls(n).serialize(),
                               n.to_bytes(4, "little")))
                checks.append((f"{cls.__name__}.parse of {n}",
                               lambda cls=cls, n=n: int(cls.parse(BytesIO(n.to_bytes(4, "little") + b"zz"))), n))
    for d in checks:
        m = _expect(*d)
        if m:
            return m
    if not (0 <= a <= U32 and 0 <= b <= U32):
        return None
    la, lb, sa, sb = Locktime(a), Locktime(b), Sequence(a), Sequence(b)
    lim = 500000000
    lcomp = (a < lim) == (b < lim)
    rel_a, rel_b = a >> 31 == 0, b >> 31 == 0
    time_a, time_b = rel_a and (a >> 22) & 1 == 1, rel_b and (b >> 22) & 1 == 1
    blk_a, blk_b = rel_a and not time_a, rel_b and not time_b
    scomp = (blk_a and blk_b) or (time_a and time_b)
    checks = [
        (f"Locktime({a}).is_comparable({b})", lambda: la.is_comparable(lb), lcomp),
        (f"Locktime({a}) < Locktime({b})", lambda: la < lb, (a < b) if lcomp else ValueError),
        (f"Locktime({a}) < int {b}", lambda: la < b, a < b),
        (f"Locktime({a}).block_height()", lambda: la.block_height(), a if a < lim else None),
        (f"Locktime({a}).mtp()", lambda: la.mtp(), a if a >= lim else None),
        (f"Sequence({a}).is_relative()", lambda: sa.is_relative(), rel_a),
        (f"Sequence({a}).is_relative_time()", lambda: sa.is_relative_time(), time_a),
        (f"Sequence({a}).is_relative_block()", lambda: sa.is_relative_block(), blk_a),
        (f"Sequence({a}).is_max()", lambda: sa.is_max(), a == U32),
        (f"Sequence({a}).is_rbf_able()", lambda: sa.is_rbf_able(), a < U32),
        (f"Sequence({a}).relative_blocks()", lambda: sa.relative_blocks(), (a & 0xFFFF) if blk_a else None),
        (f"Sequence({a}).relative_time()", lambda: sa.relative_time(), ((a & 0xFFFF) * 512) if time_a else None),
        (f"Sequence({a}).is_comparable({b})", lambda: sa.is_comparable(sb), scomp),
        (f"Sequence({a}) < Sequence({b})", lambda: sa < sb, ((a & 0xFFFF) < (b & 0xFFFF)) if scomp else ValueError),
        (f"Sequence({a}) < int {b}", lambda: sa < b, a < b),
        # BIP68 constructors: a relative time is counted in units of 512 seconds, a relative height as it is
        (f"Sequence.from_relative_time({a >> 7})", lambda: int(Sequence.from_relative_time(a >> 7)),
         (1 << 22) | (a >> 16)),
        (f"Sequence.from_relative_time({a >> 7}).relative_time()",
         lambda: Sequence.from_relative_time(a >> 7).relative_time(), (a >> 16) << 9),
        (f"Sequence.from_relative_blocks({a & 0xFFFF})", lambda: int(Sequence.from_relative_blocks(a & 0xFFFF)), a & 0xFFFF),
    ]
    for d in checks:
        m = _expect(*d)
        if m:
            return m
    return None


def p_timelock_spec(a, b):
    """the classes Locktime / Sequence against the extracted Spec/Timelocks.v (BIP65 kinds, BIP68 meaning of a
    sequence value, BIP112 comparability and masked comparison) — the statements of C07_locktime_bip65,
    C07_sequence_bip68, C07_sequence_bip112 evaluated on the implementation"""
    from buidl.timelock import Locktime, Sequence
    if not (0 <= a <= U32 and 0 <= b <= U32):
        return None
    meaning, comparable, val_lt, same_kind = spec("spec_bip68", a, b)
    la, lb, sa, sb = Locktime(a), Locktime(b), Sequence(a), Sequence(b)
    kind = meaning[0]
    checks = [
        ("is_relative", bool(sa.is_relative()), kind != 0),
        ("is_relative_block", bool(sa.is_relative_block()), kind == 1),
        ("is_relative_time", bool(sa.is_relative_time()), kind == 2),
        ("relative_blocks", sa.relative_blocks(), meaning[1] if kind == 1 else None),
        ("relative_time", sa.relative_time(), meaning[1] if kind == 2 else None),
        ("Sequence.is_comparable", bool(sa.is_comparable(sb)), bool(comparable)),
        ("Locktime.is_comparable", bool(la.is_comparable(lb)), bool(same_kind)),
    ]
    for nm, got, want in checks:
        if got != want or (got is None) != (want is None):
            return f"{nm} of {a} (against {b}) = {got!r}, BIP65/68/112 say {want!r}"
    m = _expect(f"Sequence({a}) < Sequence({b})", lambda: sa < sb, bool(val_lt) if comparable else ValueError)
    if m:
        return m
    return _expect(f"Locktime({a}) < Locktime({b})", lambda: la < lb, (a < b) if same_kind else ValueError)


def p_eval_lim(cmds, lt, sq, ver, ap=0, aw=0):
    """Script.evaluate against consensus WITH its resource limits (Spec/ConsensusLimits.v: 520-byte pushes, 201 op
    codes, 1000 stack items, 10000-byte scripts).  Inside the static bounds of C07_limits_unreachable no limit can
    fire and the verdicts must agree; beyond them the library, which enforces none of the limits, is not judged
    here (C07_resource_limits_refuted states the divergence; the corr cases pin the library's behaviour)."""
    want, within = spec("spec_eval_lim", cmds, lt, sq, ver, ap, aw)
    if want == 2 or not within:
        return None
    got, exc = eval_outcome(cmds, lt, sq, ver, ap, aw)
    if got == 2:
        return "Script.evaluate entered a P2SH/witness special case on a script the spec does not exclude"
    if got != want:
        return (f"Script.evaluate {'accepts' if got else 'rejects'}, consensus with resource limits "
                f"{'accepts' if want else 'rejects'} (script within the static bounds)")
    if exc:
        return f"Script.evaluate raises {exc} on a script that consensus rejects: {RAISES}"
    return None


def exceeded_limits(cmds):
    """the consensus resource limits a command list exceeds STATICALLY (written here, independent of the spec):
    push size, counted op codes (> OP_16, executed or not), serialised script size"""
    out = []
    if any(isinstance(c, bytes) and len(c) > 520 for c in cmds):
        out.append("push size 520")
    if sum(1 for c in cmds if isinstance(c, int) and c > 96) > 201:
        out.append("op count 201")
    size = 0
    for c in cmds:
        if isinstance(c, int):
            size += 1
        else:
            n = len(c)
            size += n + (1 if n <= 75 else 2 if n < 256 else 3 if n < 65536 else 5)
    if size > 10000:
        out.append("script size 10000")
    return out


def p_limits(cmds, lt, sq, ver):
    """Script.evaluate (flags off) against consensus WITH its resource limits (Spec/ConsensusLimits.v), with NO
    restriction to the static bounds: the library must reject what consensus rejects on a limit.  It enforces none of
    them: known finding K-C07-limits (C07_resource_limits_refuted)."""
    want, within = spec("spec_eval_lim", cmds, lt, sq, ver, 0, 0)
    if want == 2:
        return None
    got, exc = eval_outcome(cmds, lt, sq, ver, 0, 0)
    if got == want:
        return None
    lims = exceeded_limits(cmds) or (["stack size 1000"] if not within else [])
    return (f"Script.evaluate {'accepts' if got else 'rejects'}{' (raises ' + exc + ')' if exc else ''}, consensus with "
            f"resource limits {'accepts' if want else 'rejects'}; limits exceeded by the script: {', '.join(lims) or 'none'}")


# ---- alternative entry points, default-constructed objects, several inputs of one transaction
# Script.evaluate is reached by more than `Script(list).evaluate(constructor-made Tx, i)`: the default-constructed
# Script edited in place, the sub-classes, `a + b` (the only call in the library: Tx.verify_input evaluates
# script_sig + script_pubkey), every parser (Script.parse stream / raw / hex, RedeemScript.convert,
# WitnessScript.convert, ScriptPubKey.parse), and transaction contexts that come from Tx.parse / Tx.clone, from
# Locktime / Sequence objects or from the constructors' defaults.  The encoders below are written here,
# independently of the library.

def enc_varint(n):
    if n < 0xFD:
        return bytes([n])
    if n < 0x10000:
        return b"\xfd" + n.to_bytes(2, "little")
    return b"\xfe" + n.to_bytes(4, "little")


def enc_script(cmds, form=0):
    """wire form of a command list: an op code is one byte, data gets the shortest push prefix (form 0), or
    PUSHDATA1 / PUSHDATA2 / PUSHDATA4 wherever the length fits (form 1 / 2 / 4).  None when a command has no wire
    form (an integer outside 0..255, or 1..78 which the wire format reads as a push prefix)."""
    out = bytearray()
    for c in cmds:
        if isinstance(c, int):
            if not (c == 0 or 79 <= c <= 255):
                return None
            out.append(c)
            continue
        n = len(c)
        if form == 4:
            out += b"\x4e" + n.to_bytes(4, "little")
        elif form == 2 or n > 255:
            out += b"\x4d" + n.to_bytes(2, "little")
        elif form == 1 or n > 75:
            out += b"\x4c" + bytes([n])
        else:
            out.append(n)
        out += c
    return bytes(out)


def enc_tx(ver, ins, lt, witnesses=None):
    """wire form of a transaction with inputs ins = [(prev_tx, prev_index, sequence)], empty script_sigs, one
    output (0 satoshi, script OP_1); the BIP144 form when witnesses (one list of items per input) is given"""
    out = ver.to_bytes(4, "little") + (b"\x00\x01" if witnesses is not None else b"") + enc_varint(len(ins))
    for prev, i, sq in ins:
        out += prev[::-1] + i.to_bytes(4, "little") + b"\x00" + sq.to_bytes(4, "little")
    out += b"\x01" + bytes(8) + b"\x01\x51"
    for w in witnesses or []:
        out += enc_varint(len(w)) + b"".join(enc_varint(len(x)) + x for x in w)
    return out + lt.to_bytes(4, "little")


def _outcome(fn):
    """fn() under the special-case detector -> (1 accept / 0 reject or exception / 2 special case entered, exc)"""
    saved = bscript.encode_varstr
    bscript.encode_varstr = _raise_special
    try:
        return (1 if fn() else 0), None
    except _Special:
        return 2, None
    except ImplTimeout:
        raise
    except Exception as e:  # noqa
        return 0, (None if table_miss(e) else type(e).__name__)
    finally:
        bscript.encode_varstr = saved


PUSH_ONLY = {0, 79} | set(range(81, 97))


def special_pk(pk):
    """the output scripts for which Tx.verify_input switches the P2SH / witness rules on (written out here)"""
    if len(pk) == 3 and pk[0] == 169 and isinstance(pk[1], bytes) and len(pk[1]) == 20 and pk[2] == 135:
        return True
    return (len(pk) == 2 and isinstance(pk[0], int) and pk[0] in (0, 81) and isinstance(pk[1], bytes)
            and len(pk[1]) in (20, 32))


def _layout(lt, sq, ver):
    """(sequences of all inputs, index of the evaluated one) — the layout mk_tx chooses"""
    base = mk_tx(lt, sq, ver, 1)
    return [int(t.sequence) for t in base.tx_ins], base.verif_idx


def p_eval_entry(cmds, lt, sq, ver):
    """every way of reaching Script.evaluate with the commands cmds in the context (lt, sq, ver), P2SH / witness rules
    off: the verdict is the consensus verdict (skip OutOfScope), a rejection is `return False`, and the objects the
    script was built from are left as they were"""
    from io import BytesIO
    from buidl.script import ScriptPubKey, RedeemScript, WitnessScript
    from buidl.timelock import Locktime, Sequence
    want = spec("spec_eval", cmds, lt, sq, ver, 0, 0)
    if want == 2:
        return None
    cmds = list(cmds)

    def judge(desc, script, tx=None, fn=None):
        tx = tx or mk_tx(lt, sq, ver)
        got, exc = _outcome(fn or (lambda: script.evaluate(tx, tx.verif_idx, allow_p2sh=False, allow_witness=False)))
        if got != want:
            return (f"{desc}: {'special case entered' if got == 2 else 'accepts' if got else 'rejects'}"
                    f"{' (raises ' + exc + ')' if exc else ''}, consensus {'accepts' if want else 'rejects'}")
        if exc:
            return f"{desc}: raises {exc} on a script that consensus rejects: {RAISES}"
        return None

    # -- the default-constructed Script, edited in place
    for mk, nm in ((lambda: Script(), "Script()"), (lambda: Script(None), "Script(None)")):
        s = mk()
        if s.commands != [] or s.raw is not None:
            return f"{nm} is not the empty script: commands {s.commands!r}"
        s.commands.extend(cmds)
        m = judge(f"{nm} with the commands added in place", s)
        if m:
            return m
        t = mk()
        if t.commands != []:
            return f"a second {nm} carries the commands that were added to the first one"
        if _outcome(lambda: t.evaluate(mk_tx(lt, sq, ver), 0, allow_p2sh=False, allow_witness=False))[0] != 0:
            return f"the empty script {nm} is accepted"
    # -- the sub-classes
    for cls in (ScriptPubKey, RedeemScript, WitnessScript):
        m = judge(f"{cls.__name__}(commands)", cls(list(cmds)))
        if m:
            return m
    # -- a + b
    lead = 0
    while lead < len(cmds) and (isinstance(cmds[lead], bytes) or cmds[lead] in PUSH_ONLY):
        lead += 1
    for k in sorted({0, lead, len(cmds) // 2, len(cmds)}):
        for ca, cb in ((Script, Script), (RedeemScript, ScriptPubKey)):
            a, b = ca(list(cmds[:k])), cb(list(cmds[k:]))
            for rnd in (1, 2):
                c = a + b
                m = judge(f"Script(commands[:{k}]) + Script(commands[{k}:]) (sum number {rnd})", c)
                if m:
                    return m
                if _snap(a.commands) != _snap(cmds[:k]) or _snap(b.commands) != _snap(cmds[k:]):
                    return f"a + b changed an operand: a.commands = {a.commands!r}, b.commands = {b.commands!r}"
                c.commands.append(0)              # editing the sum must not reach the operands
                if _snap(a.commands) != _snap(cmds[:k]) or _snap(b.commands) != _snap(cmds[k:]):
                    return "a + b shares its command list with an operand"
    # -- the parsers
    for form in (0, 1, 2, 4):
        raw = enc_script(cmds, form)
        if raw is None or (form and not any(isinstance(c, bytes) for c in cmds)):
            continue
        vs = enc_varint(len(raw)) + raw
        for nm, mk in (("Script.parse(raw=)", lambda: Script.parse(raw=raw)),
                       ("Script.parse(stream)", lambda: Script.parse(BytesIO(vs + b"\x51"))),
                       ("Script.parse_hex", lambda: Script.parse_hex(raw.hex())),
                       ("RedeemScript.convert", lambda: RedeemScript.convert(raw)),
                       ("WitnessScript.convert", lambda: WitnessScript.convert(raw)),
                       ("ScriptPubKey.parse", lambda: ScriptPubKey.parse(BytesIO(vs)))):
            if form and nm not in ("Script.parse(raw=)", "RedeemScript.convert"):
                continue
            try:
                s = mk()
            except ImplTimeout:
                raise
            except Exception as e:  # noqa
                return f"{nm} of {raw.hex()} (push form {form}) raises {type(e).__name__}"
            m = judge(f"{nm} of {raw.hex()} (push form {form})", s)
            if m:
                return m
    # -- Tx.verify_input: script_sig + script_pubkey, the rules switched by the output being spent
    for k in sorted({0, lead}):
        sig, pk = cmds[:k], cmds[k:]
        if special_pk(pk):
            continue
        tx = mk_tx(lt, sq, ver)
        for j, txin in enumerate(tx.tx_ins):
            if j == tx.verif_idx:
                txin.script_sig, txin._script_pubkey = Script(list(sig)), Script(list(pk))
            else:                                  # the other inputs: the opposite verdict
                txin.script_sig, txin._script_pubkey = Script([]), Script([0] if want else [81])
        for rnd in (1, 2):
            m = judge(f"Tx.verify_input with script_sig = commands[:{k}], script_pubkey = commands[{k}:] (call {rnd})",
                      None, tx, lambda: tx.verify_input(tx.verif_idx))
            if m:
                return m
            me = tx.tx_ins[tx.verif_idx]
            if _snap(me.script_sig.commands) != _snap(sig) or _snap(me._script_pubkey.commands) != _snap(pk):
                return "Tx.verify_input changed the script_sig / script_pubkey of the input"
    # -- the transaction context from parsers, from Locktime / Sequence objects, from the constructors' defaults
    seqs, idx = _layout(lt, sq, ver)
    ins = [(bytes([j + 1]) * 32, j, s) for j, s in enumerate(seqs)]
    wits = [[b"\x01", b"", bytes(range(33))] if j == idx else [b"\x02"] * j for j in range(len(ins))]
    ctxs = [("Tx.parse (legacy form)", lambda: Tx.parse(BytesIO(enc_tx(ver, ins, lt)))),
            ("Tx.parse (segwit form)", lambda: Tx.parse(BytesIO(enc_tx(ver, ins, lt, wits)))),
            ("Tx.parse_hex", lambda: Tx.parse_hex(enc_tx(ver, ins, lt).hex())),
            ("Tx.parse(...).clone()", lambda: Tx.parse(BytesIO(enc_tx(ver, ins, lt, wits))).clone()),
            ("Tx built from Locktime / Sequence objects",
             lambda: Tx(ver, [TxIn(p, i, None, Sequence(s)) for p, i, s in ins], [], Locktime(lt))),
            ("Tx with witness = None", lambda: Tx(ver, [TxIn(p, i, sequence=s) for p, i, s in ins], [], lt))]
    if lt == 0:
        ctxs.append(("Tx without a locktime argument", lambda: Tx(ver, [TxIn(p, i, sequence=s) for p, i, s in ins], [])))
    if sq == U32:
        ctxs.append(("TxIn without a sequence argument",
                     lambda: Tx(ver, [TxIn(p, i) if i == idx else TxIn(p, i, sequence=s) for p, i, s in ins], [], lt)))
        if lt == 0:
            ctxs.append(("TxIn without a sequence argument in a Tx without a locktime argument",
                         lambda: Tx(ver, [TxIn(p, i) if i == idx else TxIn(p, i, sequence=s) for p, i, s in ins], [])))
    for nm, mk in ctxs:
        try:
            tx = mk()
        except ImplTimeout:
            raise
        except Exception as e:  # noqa
            return f"{nm} raises {type(e).__name__} for (locktime, sequences, version) = {(lt, seqs, ver)}"
        if nm == "Tx with witness = None":
            for t in tx.tx_ins:
                t.witness = None
        tx.verif_idx = idx
        for rnd in (1, 2):
            m = judge(f"context from {nm} (evaluation {rnd})", Script(list(cmds)), tx)
            if m:
                return m
    # clone() of a constructor-made transaction, then the original again
    tx = mk_tx(lt, sq, ver, 1)
    for t in tx.tx_ins:
        t.witness = Witness()
    cl = tx.clone()
    cl.verif_idx = tx.verif_idx
    return judge("context from Tx.clone()", Script(list(cmds)), cl) or judge("the cloned Tx after its clone was used",
                                                                             Script(list(cmds)), tx)


def p_eval_inputs(items, lt, ver):
    """ONE transaction object with one input per item (commands, sequence): the inputs are verified one after the
    other, forwards and backwards, by Script.evaluate and by Tx.verify_input, and nothing is reset in between (the
    use Tx.verify makes of it).  Every verdict is the consensus verdict for (locktime, the sequence of THAT input,
    version), and the transaction is left as it was."""
    ins = [TxIn(bytes([j + 1]) * 32, j, sequence=sq) for j, (cmds, sq) in enumerate(items)]
    tx = Tx(ver, ins, [], lt)
    for j, (cmds, sq) in enumerate(items):
        ins[j].script_sig, ins[j]._script_pubkey = Script([]), Script(list(cmds))

    def snap():
        return [tx.version, int(tx.locktime), type(tx.locktime).__name__, len(tx.tx_ins)] + \
               [(t.prev_tx, t.prev_index, int(t.sequence), type(t.sequence).__name__, _snap(t._script_pubkey.commands),
                 _snap(t.script_sig.commands)) for t in tx.tx_ins]
    before = snap()
    order = list(range(len(items)))
    for k, j in enumerate(order + order[::-1] + order):
        cmds, sq = items[j]
        want = spec("spec_eval", cmds, lt, sq, ver, 0, 0)
        via = "Tx.verify_input" if k >= 2 * len(items) else "Script.evaluate"
        if via == "Tx.verify_input" and special_pk(cmds):
            continue
        s = Script(list(cmds))
        got, exc = _outcome((lambda: tx.verify_input(j)) if via == "Tx.verify_input" else
                            (lambda: s.evaluate(tx, j, allow_p2sh=False, allow_witness=False)))
        if snap() != before:
            return f"step {k}: {via} of input {j} changed the transaction object"
        if want == 2:
            continue
        if got != want:
            return (f"step {k}: {via} of input {j} (sequence {sq}, locktime {lt}, version {ver}) gives {got}"
                    f"{' (raises ' + exc + ')' if exc else ''}, consensus {want}; the same script on a fresh one-input "
                    f"context: {run_evaluate(cmds, lt, sq, ver, 0, 0)}")
        if exc:
            return f"step {k}: {via} of input {j} raises {exc} where consensus rejects: {RAISES}"
    return None


# BIP342: the op codes that make a tapscript succeed unconditionally
OP_SUCCESS = {80, 98} | set(range(126, 130)) | set(range(131, 135)) | {137, 138, 141, 142} | set(range(149, 154)) \
    | set(range(187, 255))


def p_tables():
    """the two dispatch tables: the legacy table holds exactly the implemented op codes; the tapscript table maps
    every one of them to the SAME function except the signature op codes (172/173 Schnorr variants, 174/175
    disabled = fail), and the BIP342 OP_SUCCESS codes to a function that succeeds without touching the stack"""
    leg, tap = bop.OP_CODE_FUNCTIONS, bop.TAPROOT_OP_CODE_FUNCTIONS
    want = set(PLAIN_OPS) | {99, 100, 172, 173, 174, 175}
    if set(leg) != want:
        return f"OP_CODE_FUNCTIONS has keys {sorted(set(leg) ^ want)} too many / missing"
    if set(tap) != want | OP_SUCCESS | {186}:
        return f"TAPROOT_OP_CODE_FUNCTIONS has keys {sorted(set(tap) ^ (want | OP_SUCCESS | {186}))} too many / missing"
    for o in sorted(want - {172, 173, 174, 175}):
        if tap[o] is not leg[o]:
            return f"tapscript table: op code {o} is {tap[o].__name__}, the legacy table has {leg[o].__name__}"
    for o in (174, 175):
        for st in ([], [b"\x01"], [b"", b"", b""]):
            if tap[o](list(st)):
                return f"tapscript table: disabled op code {o} succeeds"
    for o in sorted(OP_SUCCESS):
        for st in ([], [b""], [b"\x01", b"\x02"]):
            st2 = list(st)
            if tap[o](st2) is not True or st2 != st:
                return f"tapscript table: OP_SUCCESS{o} does not succeed / touches the stack"
    names = bop.OP_CODE_NAMES
    for o, nm in ((0, "OP_0"), (79, "OP_1NEGATE"), (81, "OP_1"), (96, "OP_16"), (99, "OP_IF"), (100, "OP_NOTIF"),
                  (103, "OP_ELSE"), (104, "OP_ENDIF"), (113, "OP_2ROT"), (122, "OP_ROLL"), (135, "OP_EQUAL"),
                  (165, "OP_WITHIN"), (170, "OP_HASH256"), (177, "OP_CHECKLOCKTIMEVERIFY"),
                  (178, "OP_CHECKSEQUENCEVERIFY")):
        if names.get(o) != nm:
            return f"OP_CODE_NAMES[{o}] = {names.get(o)!r}, not {nm}"
    return None


PROPS = {"codec_int": p_codec_int, "codec_bytes": p_codec_bytes, "op": p_op, "eval": p_eval,
         "eval_reuse": p_eval_reuse, "eval_seq": p_eval_seq, "op_seq": p_op_seq, "minimal_push": p_minimal_push,
         "op_code_to_number": p_op_code_to_number, "timelock_api": p_timelock_api, "tables": p_tables,
         "eval_defaults": p_eval_defaults, "timelock_spec": p_timelock_spec, "eval_lim": p_eval_lim,
         "limits": p_limits, "eval_entry": p_eval_entry, "eval_inputs": p_eval_inputs}


def _impl_is_model(fn, args):
    from vp.sexp import canon, ERR
    try:
        got = canon(IMPL[fn](*args))
    except ImplTimeout:
        raise
    except Exception:  # noqa
        got = ERR
    return got == spec(fn, *args)


def classify(v):
    """K-C07-2rot: a disagreement with consensus on OP_2ROT counts as the known finding only while the library still
    does exactly what the Coq model of today's code does (copy instead of move); any other behaviour of 2ROT is new"""
    if v.get("kind") != "prop":
        return None
    if v["name"] == "op" and v["args"][0] == 113:
        return "K-C07-2rot" if _impl_is_model("op", v["args"]) else None
    if v["name"] in ("eval", "eval_lim") and any(isinstance(c, int) and c == 113 for c in v["args"][0]):
        return "K-C07-2rot" if _impl_is_model("evaluate", v["args"]) else None
    if v["name"] == "limits":
        # K-C07-limits: exactly the failures of the predicate `limits` on a script that exceeds a resource limit
        # (outside the static bounds of C07_limits_unreachable, so that a limit CAN fire), where the library accepts,
        # limit-aware consensus rejects, the library still does what the Coq model of today's code does, and the
        # consensus spec WITHOUT the limits does not reject either — i.e. the limit is the only reason
        cmds, lt, sq, ver = v["args"]
        if no_2rot(cmds) is False:
            return None
        want, within = spec("spec_eval_lim", cmds, lt, sq, ver, 0, 0)
        nolim = spec("spec_eval", cmds, lt, sq, ver, 0, 0)
        got = run_evaluate(cmds, lt, sq, ver, 0, 0)
        if (not within and want == 0 and got == 1 and nolim in (1, 2)
                and (exceeded_limits(cmds) or len(cmds) > 333)
                and _impl_is_model("evaluate", [cmds, lt, sq, ver, 0, 0])):
            return "K-C07-limits"
        return None
    return None


# ---------------------------------------------------------------- generators

ALPHABET = [b"", b"\x00", b"\x01", b"\x80", b"\x81", b"\x02", b"\x7f", b"\xff\x00", b"\x01\x00\x00\x00\x00"]
PLAIN_OPS = ([0, 79] + list(range(81, 98)) + list(range(105, 126)) + [130, 135, 136, 139, 140]
             + list(range(143, 149)) + list(range(154, 171)) + list(range(176, 186)))
UNKNOWN_OPS = [-1, 1, 75, 78, 80, 98, 101, 102, 103, 104, 126, 131, 137, 141, 149, 153, 171, 186, 187, 255, 256]
ARITY = {0: 0, 79: 0, 97: 0, 105: 1, 106: 0, 107: 1, 108: 0, 109: 2, 110: 2, 111: 3, 112: 4, 113: 6, 114: 4, 115: 1,
         116: 0, 117: 1, 118: 1, 119: 2, 120: 2, 121: 3, 122: 3, 123: 3, 124: 2, 125: 2, 130: 1, 135: 2, 136: 2,
         139: 1, 140: 1, 143: 1, 144: 1, 145: 1, 146: 1, 147: 2, 148: 2, 165: 3, 177: 1, 178: 1}
for _o in range(81, 97):
    ARITY[_o] = 0
for _o in range(154, 165):
    ARITY[_o] = 2
for _o in range(166, 171):
    ARITY[_o] = 1
for _o in [176] + list(range(179, 186)):
    ARITY[_o] = 0

LOCKTIMES = [0, 1, 499999999, 500000000, 500000001, 2 ** 31 - 1, 2 ** 31, 2 ** 32 - 2, 2 ** 32 - 1]
SEQUENCES = [0, 1, 5, 0xFFFF, 0x10000, 0x10005, (1 << 22) - 1, 1 << 22, (1 << 22) | 5, (1 << 22) | 0xFFFF,
             (1 << 22) | 0x10005, 1 << 31, (1 << 31) | 5, (1 << 31) | (1 << 22) | 5, 0xFFFFFFFE, 0xFFFFFFFF]
VERSIONS = [0, 1, 2, 3, 2 ** 32 - 1]
OPERANDS = [-1, 0, 1, 5, 6, 499999999, 500000000, 500000001, 0xFFFF, 0x10000, 0x10005, (1 << 22) - 1, 1 << 22,
            (1 << 22) | 5, (1 << 22) | 6, (1 << 22) | 0xFFFF, 1 << 31, (1 << 31) | 5, (1 << 31) | (1 << 22),
            2 ** 32 - 2, 2 ** 32 - 1]
CTX0 = (0, 0, 1)


def rctx(r):
    return (r.choice(LOCKTIMES), r.choice(SEQUENCES), r.choice(VERSIONS))


def rnum_elem(r):
    k = r.random()
    if k < 0.5:
        return ref_encode_num(r.randrange(-3, 9))
    if k < 0.8:
        return r.choice(ALPHABET)
    if k < 0.9:
        return ref_encode_num(r.choice([1, -1]) * r.getrandbits(r.randrange(1, 32)))
    return bytes(r.getrandbits(8) for _ in range(r.randrange(0, 7)))


def pad_num(n, size):
    """a non-minimal encoding of n on size bytes (abs(n) < 2^(8 size - 1))"""
    b = bytearray(abs(n).to_bytes(size, "little"))
    if n < 0:
        b[-1] |= 0x80
    return bytes(b)


def both_op(o, st, alt, c=CTX0):
    yield ("corr", "op", [o, st, alt, c[0], c[1], c[2]])
    yield ("corr", "op_mode", [o, st, alt, c[0], c[1], c[2]])      # returns False vs raises (Model/OpMode.v)
    yield ("prop", "op", [o, st, alt, c[0], c[1], c[2]])


# ---- structured programs

# (op code, pops, pushes) used by the program generator to keep most programs alive
STACK_EFFECT = {0: (0, 1), 79: (0, 1), 97: (0, 0), 105: (1, 0), 107: (1, 0), 109: (2, 0), 110: (2, 4), 111: (3, 6),
                112: (4, 6), 114: (4, 4), 115: (1, 1), 116: (0, 1), 117: (1, 0), 118: (1, 2), 119: (2, 1), 120: (2, 3),
                123: (3, 3), 124: (2, 2), 125: (2, 3), 130: (1, 2), 135: (2, 1), 136: (2, 0), 139: (1, 1), 140: (1, 1),
                143: (1, 1), 144: (1, 1), 145: (1, 1), 146: (1, 1), 147: (2, 1), 148: (2, 1), 165: (3, 1), 157: (2, 0),
                176: (0, 0), 179: (0, 0), 185: (0, 0), 113: (6, 6)}
for _o in range(81, 97):
    STACK_EFFECT[_o] = (0, 1)
for _o in [154, 155, 156, 158, 159, 160, 161, 162, 163, 164]:
    STACK_EFFECT[_o] = (2, 1)
for _o in range(166, 171):
    STACK_EFFECT[_o] = (1, 1)


class ProgGen:
    """random programs as nested structures, flattened to a command list"""

    def __init__(self, r, allow_2rot=False, timelocks=False):
        self.r = r
        self.left = 0
        self.ops = [o for o in STACK_EFFECT if o != 113 or allow_2rot]
        self.timelocks = timelocks

    def push(self):
        r = self.r
        k = r.random()
        if k < 0.45:
            return r.choice([0, 79] + list(range(81, 97)))
        return rnum_elem(r)

    def seq(self, depth, nest, budget):
        """returns (cmds, estimated depth)"""
        r = self.r
        out = []
        while budget > 0 and self.left > 0:
            k = r.random()
            if k < 0.12 and nest < 4 and depth >= 1 and self.left >= 3:
                self.left -= 2
                budget -= 2
                depth -= 1
                nalt = r.choice([1, 1, 2, 2, 2, 3, 4])
                out.append(r.choice([99, 100]))
                ds = []
                for i in range(nalt):
                    if i:
                        out.append(103)
                        self.left -= 1
                        budget -= 1
                    b, d = self.seq(depth, nest + 1, r.randrange(0, 6))
                    out += b
                    ds.append(d)
                out.append(104)
                depth = min(ds)
            elif k < 0.40 or depth == 0:
                out.append(self.push())
                depth += 1
                self.left -= 1
                budget -= 1
            elif k < 0.44 and depth >= 1:
                # PICK / ROLL with a sensible index
                out.append(ref_minimal_push(r.randrange(0, depth + 1)) if r.random() < 0.9
                           else ref_encode_num(r.choice([-1, depth + 3])))
                out.append(r.choice([121, 122]))
                self.left -= 2
                budget -= 2
                depth += 0 if out[-1] == 122 else 1
            elif k < 0.47 and self.timelocks:
                n = r.choice(OPERANDS)
                out.append(ref_encode_num(n) if r.random() < 0.8 else ref_encode_num(n) + b"\x00")
                out.append(r.choice([177, 178]))
                if r.random() < 0.8:
                    out.append(117)
                    self.left -= 1
                else:
                    depth += 1
                self.left -= 2
                budget -= 2
            elif k < 0.49 and depth >= 1:
                out += [107, r.choice([97, 116, 81]), 108] if r.random() < 0.7 else [108]
                self.left -= 3
                budget -= 3
            else:
                cands = [o for o in self.ops if STACK_EFFECT[o][0] <= depth] if r.random() < 0.93 else self.ops
                o = r.choice(cands)
                out.append(o)
                p, q = STACK_EFFECT[o]
                depth = max(0, depth - p) + q
                self.left -= 1
                budget -= 1
        return out, depth

    def program(self, size):
        self.left = size
        cmds, depth = self.seq(0, 0, size)
        if self.r.random() < 0.5:
            cmds.append(self.r.choice([81, 116, 82]))
        return cmds[:40]


def mutate(r, cmds):
    """unbalanced IF/ENDIF, stray ELSE, swapped control op codes"""
    c = list(cmds)
    k = r.randrange(6)
    ctl = [i for i, x in enumerate(c) if isinstance(x, int) and x in (99, 100, 103, 104)]
    if k == 0 and ctl:
        del c[r.choice(ctl)]
    elif k == 1:
        c.insert(r.randrange(len(c) + 1), r.choice([103, 104, 99, 100]))
    elif k == 2 and ctl:
        c[r.choice(ctl)] = r.choice([99, 100, 103, 104])
    elif k == 3 and ctl:
        i = r.choice(ctl)
        c.insert(i, c[i])
    elif k == 4 and c:
        c = c[: r.randrange(len(c))]
    else:
        c.insert(r.randrange(len(c) + 1), r.choice([103, 103, 104]))
    return c[:40]


def both_eval(cmds, c, ap=0, aw=0):
    yield ("corr", "evaluate", [cmds, c[0], c[1], c[2], ap, aw])
    yield ("corr", "evaluate_mode", [cmds, c[0], c[1], c[2], ap, aw])
    yield ("prop", "eval", [cmds, c[0], c[1], c[2], ap, aw])
    yield ("prop", "eval_lim", [cmds, c[0], c[1], c[2], ap, aw])
    if ap and aw:
        yield ("prop", "eval_defaults", [cmds, c[0], c[1], c[2]])


def no_2rot(cmds):
    return not any(isinstance(c, int) and c == 113 for c in cmds)     # K-C07-2rot is a known finding


def reuse_cases(ctx):
    """one Script / Tx object (or one process) used repeatedly"""
    r = ctx.rng
    h20 = bytes(range(20))
    # programs whose verdict depends on the context, on IF splicing, on the alt stack
    fixed = [
        [ref_encode_num(500000000), 177], [ref_encode_num(5), 177], [ref_encode_num(5), 178],
        [ref_encode_num((1 << 22) | 5), 178], [ref_encode_num(1 << 31), 178, 117, 81],
        [81, 99, ref_encode_num(5), 177, 103, ref_encode_num(5), 178, 104],
        [0, 99, 0, 103, 81, 104], [81, 99, 81, 103, 0, 104, 99, 82, 103, 0, 104],
        [81, 100, 0, 103, 81, 99, 83, 104, 104], [81, 107, 82, 108, 147, 83, 135],
        [82, 81, 107, 99, 108, 104], [b"abc", 168, 130, b"\x20", 135], [81, 82, 83, 123, 116, 83, 136, 109, 81],
        [b"x", 169, h20, 135], [0, h20], [81, 99, b"x", 169, h20, 135, 104],
    ]
    progs = [(c, (0, 0)) for c in fixed] + [(c, (1, 1)) for c in fixed[:8] + fixed[-3:]]
    for i in range(ctx.n(150, 3000)):
        g = ProgGen(r, timelocks=(i % 2 == 0))
        cmds = g.program(r.randrange(2, 41))
        if i % 5 == 4:
            cmds = mutate(r, cmds)
        progs.append((cmds, (1, 1) if i % 7 == 0 else (0, 0)))
    for cmds, (ap, aw) in progs:
        cs = [list(rctx(r)) for _ in range(3)]
        cs += [[r.choice([0, 5, 499999999, 500000000, 2 ** 32 - 1]), r.choice([0, 5, (1 << 22) | 5, 0xFFFFFFFF]), 2], cs[0]]
        ctx.label("reuse/one-script-many-contexts")
        yield ("prop", "eval_reuse", [cmds, cs, ap, aw])
    # ---- sequences of evaluations: what one program leaves behind must not reach the next
    leave = [[81, 107, 81], [82, 83, 84], [81, 99, 82], [0, 99], [81, 107, 82, 107, 81], [81, 99, 81, 103], [b"\x05", 177, 117, 81]]
    take = [[108], [135], [104], [103, 81, 104], [108, 108, 147], [81, 104], [116], [116, 0, 135], [147]]
    for a in leave:
        for b in take:
            ctx.label("reuse/sequence-leave-then-take")
            yield ("prop", "eval_seq", [[[a, 5, 0, 2, 0, 0], [b, 0, 0, 2, 0, 0], [a, 5, 0, 2, 1, 1], [b, 0, 0, 2, 1, 1]]])
    for i in range(ctx.n(120, 2500)):
        items = []
        for _ in range(r.randrange(3, 8)):
            g = ProgGen(r, timelocks=True)
            cmds = g.program(r.randrange(1, 25))
            if r.random() < 0.3:
                cmds = mutate(r, cmds)        # unbalanced IF / stray ELSE: conditional state left open
            items.append([cmds] + list(rctx(r)) + list(r.choice([(0, 0), (0, 0), (1, 1)])))
        if r.random() < 0.5:
            items.append(list(items[0][:1]) + list(rctx(r)) + [0, 0])      # the same program, another context
        ctx.label("reuse/sequence-random-programs")
        yield ("prop", "eval_seq", [items])
    # ---- op code functions one after the other on one transaction object
    for o in (177, 178):
        for n in OPERANDS:
            e = ref_encode_num(n)
            items = [[o, [b"\x07", e], []] + list(c) for c in
                     [(r.choice(LOCKTIMES), r.choice(SEQUENCES), r.choice(VERSIONS)) for _ in range(5)]]
            items.append([o, [ref_encode_num(r.choice(OPERANDS))], []] + items[0][3:])   # same context, another operand
            ctx.label("reuse/op-sequence-timelock")
            yield ("prop", "op_seq", [items])
    ops = [o for o in PLAIN_OPS if o != 113]
    for _ in range(ctx.n(300, 6000)):
        items = []
        for _ in range(8):
            o = r.choice(ops)
            d = r.randrange(0, 6)
            st = [rnum_elem(r) for _ in range(d)]
            if items and r.random() < 0.4:
                o = items[-1][0]              # the same op code again, on another stack
            if items and r.random() < 0.2:
                st = list(items[-1][1])       # another op code on the same stack
            alt = [rnum_elem(r) for _ in range(r.randrange(0, 3))] if o in (107, 108) else []
            items.append([o, st, alt] + list(rctx(r) if o in (177, 178) else CTX0))
        ctx.label("reuse/op-sequence-random")
        yield ("prop", "op_seq", [items])


def entry_cases(ctx):
    """alternative entry points / default-constructed objects / several inputs of one transaction / pushes whose
    bytes are control op codes (classes a, b, d, f, g of the audit)"""
    r = ctx.rng
    h20, h32 = bytes(range(20)), bytes(range(32))
    hx = bytes.fromhex("11f6ad8ec52a2984abaafd7c3b516503785c2072")        # some 20 bytes that are not HASH160("x")
    # ---- data pushes whose bytes are those of control / failing op codes, in taken and skipped branches
    ctl = [b"\x63", b"\x64", b"\x67", b"\x68", b"\x6a", b"\x51", b"\x00", b"\x63\x68", b"\x67\x68", b"\x68\x68\x68"]
    ctlprogs = []
    for p in ctl:
        ctlprogs += [[0, 99, p, 104, 81], [81, 99, p, 104], [81, 99, p, 103, 0, 104], [0, 99, 81, 103, p, 104],
                     [0, 100, 81, 99, p, 104, 104], [81, 99, 0, 99, p, 104, 81, 104], [p, 99, 81, 103, 0, 104],
                     [81, 100, p, p, 103, p, 104], [0, 99, p, 103, p, 103, p, 104, 116]]
    for cmds in ctlprogs:
        ctx.label("program/control-byte-pushes")
        yield from both_eval(cmds, (0, 0, 2))
    # ---- programs for the entry points
    fixed = [
        [], [81], [0], [b"\x80"], [b""], [b"", b""], [81, 99, 82, 103, 83, 104], [0, 99, 0, 103, 81, 103, 0, 104],
        [81, 82, 147, 83, 135], [82, 81, 107, 99, 108, 104], [b"abc", 168, 130, b"\x20", 135], [b"x" * 76, 130], [b"y" * 256, 130],
        [b"z" * 520, 169, 130], [81, 103], [81, 99], [104], [81, 255], [0, 99, 255, 104, 81],
        # scriptSig pushes + a scriptPubKey that is no P2SH / witness program although the pushes look like one
        [0, h20, 117, 117, 81], [0, h32, 109, 81], [81, h32, 109, 81], [b"", h20, 109, 81], [b"x", 169, h20, 135, 81],
        [b"x", 169, hx, 135], [b"x", b"y", 124, 169, h20, 135], [0, h20], [0, h32], [81, h32], [b"x", 169, h20, 135],
        [b"\x63", b"\x68", 109, 81], [81, b"\x67", 117],
    ] + ctlprogs[::7]
    cases = [(c, (0, 0, 2)) for c in fixed]
    for o in (177, 178):
        for n in (0, 5, 0x10005, (1 << 22) | 5, 499999999, 500000000, 1 << 31, 2 ** 32 - 1):
            for c in ((0, 0, 2), (0, U32, 2), (n & U32, 5, 1), (500000000, (1 << 22) | 6, 2 ** 32 - 1), (0, 0x10005, 2),
                      (2 ** 32 - 1, U32, 0), (0, 1 << 31, 2), (0, 6, 2 ** 32 - 1), (5, (1 << 22) | 6, 2 ** 32 - 1),
                      (2 ** 32 - 1, 0xFFFFFFFE, 2 ** 31), (500000000, U32, 2)):
                cases.append(([ref_minimal_push(n), o, 117, 81], c))
                if n in (5, 500000000):
                    cases.append(([ref_encode_num(n), 81, 99, o, 103, 0, 104], c))
    for i in range(ctx.n(260, 5000)):
        g = ProgGen(r, timelocks=(i % 2 == 0))
        cmds = g.program(r.randrange(1, 41))
        if i % 6 == 5:
            cmds = mutate(r, cmds)
        c = rctx(r)
        if i % 9 == 0:
            c = (0, U32, c[2])                    # the constructors' defaults
        cases.append((cmds, c))
    for cmds, c in cases:
        ctx.label("entry/alternative-entry-points")
        yield ("prop", "eval_entry", [cmds, c[0], c[1], c[2]])
    # ---- several inputs of one transaction object, verified one after the other
    tl = [[ref_minimal_push(n), o, 117, 81] for o in (177, 178) for n in (0, 5, 6, 0x10005, (1 << 22) | 5, 500000000, 1 << 31)]
    for i in range(ctx.n(160, 3000)):
        items = []
        for _ in range(r.randrange(2, 5)):
            if r.random() < 0.6:
                cmds = r.choice(tl)
            else:
                cmds = ProgGen(r, timelocks=True).program(r.randrange(1, 20))
            items.append([cmds, r.choice(SEQUENCES)])
        if i % 3 == 0:
            items.append([items[0][0], r.choice(SEQUENCES)])      # the same script on another input
        if i % 4 == 0:
            items[r.randrange(len(items))][1] = U32
        ctx.label("entry/inputs-of-one-transaction")
        yield ("prop", "eval_inputs", [items, r.choice(LOCKTIMES), r.choice([1, 2, 2, 2, 2 ** 32 - 1])])


def generate(ctx):
    r = ctx.rng
    thorough = ctx.tier != "quick"

    # ------------------------------------------------ repeated use of one object / one process
    yield from reuse_cases(ctx)

    # ------------------------------------------------ alternative entry points, defaults, inputs of one transaction
    yield from entry_cases(ctx)

    # ------------------------------------------------ number codec
    ints = {0, 1, -1, 2, -2, 16, 17, 127, 128, 129, 255, 256, 257}
    for k in (7, 8, 15, 16, 23, 24, 31, 32, 39, 40, 63, 64, 71, 127, 128):
        for d in (-1, 0, 1):
            ints.add(2 ** k + d)
            ints.add(-(2 ** k) + d)
    for n in sorted(ints):
        ctx.label("codec/boundary-int")
        yield ("corr", "encode_num", [n])
        yield ("prop", "codec_int", [n])
    for _ in range(ctx.n(400, 20000)):
        n = r.getrandbits(r.randrange(1, 72)) * r.choice([1, -1])
        if r.random() < 0.3:
            n = r.randrange(-2 ** 31 + 1, 2 ** 31)
        ctx.label("codec/random-int")
        yield ("corr", "encode_num", [n])
        yield ("prop", "codec_int", [n])
    for n in list(range(-4, 21)) + [-17, 127, 128, -128, 255, 256, 2 ** 31 - 1, -(2 ** 31) + 1, 2 ** 31]:
        ctx.label("codec/minimal-push")
        yield ("prop", "minimal_push", [n])
    for o in list(range(-2, 100)) + [127, 128, 255, 256]:
        ctx.label("codec/op-code-to-number")
        yield ("prop", "op_code_to_number", [o])
    for n in list(range(-5, 130)) + [255, 256, 2 ** 31 - 1, 2 ** 31, 2 ** 32, -(2 ** 31), 2 ** 63] + \
            [r.randrange(-2 ** 40, 2 ** 40) for _ in range(ctx.n(100, 2000))]:
        ctx.label("codec/small-number-helpers-model")
        yield ("corr", "op_num", [n])
    yield ("prop", "tables", [])
    edge = [0x00, 0x01, 0x7F, 0x80, 0x81, 0xFF]
    strs = [b""] + [bytes([a]) for a in range(256)]
    strs += [bytes(t) for k in (2, 3) for t in itertools.product(edge, repeat=k)]
    strs += [bytes(t) + s for t in itertools.product([0x00, 0x80, 0x7F, 0xFF], repeat=2) for s in (b"\x00", b"\x80")]
    if thorough:
        strs += [bytes([a, b]) for a in range(256) for b in range(256)]
    for _ in range(ctx.n(600, 30000)):
        strs.append(ctx.rbytes(r.choice([2, 2, 3, 3, 3, 4, 5, 6, 9])))
    for _ in range(ctx.n(100, 2000)):
        # zero-ish strings: zeros with an optional sign byte
        strs.append(bytes(r.randrange(0, 6)) + r.choice([b"", b"\x00", b"\x80", b"\x01", b"\x81"]))
    for e in strs:
        ctx.label(f"codec/bytes-len{min(len(e), 4)}{'+' if len(e) > 4 else ''}")
        yield ("corr", "decode_num", [e])
        yield ("prop", "codec_bytes", [e])

    # ------------------------------------------------ single op codes: exhaustive sweep
    maxd = 4 if thorough else 3
    stacks = [[]]
    for d in range(1, maxd + 1):
        stacks += [list(t) for t in itertools.product(ALPHABET, repeat=d)]
    for o in PLAIN_OPS + UNKNOWN_OPS:
        need = ARITY.get(o, 0)
        for st in stacks:
            # quick tier: below the arity + 1 every stack; above it the op code cannot look deeper,
            # keep one in four of those
            if not thorough and len(st) > need + 1 and r.random() < 0.75:
                continue
            alt = [] if o not in (107, 108) else r.choice([[], [b"\x05"], [b"", b"\x81"]])
            ctx.label("op/exhaustive")
            yield from both_op(o, st, alt, (0, 0, 2) if o in (177, 178) else CTX0)
    # depth 4 sampled in the quick tier
    if not thorough:
        for _ in range(ctx.n(4000)):
            o = r.choice(PLAIN_OPS)
            st = [r.choice(ALPHABET) for _ in range(4)]
            ctx.label("op/depth4-sampled")
            yield from both_op(o, st, [])
    # alt stack op codes with every small alt stack
    for o in (107, 108):
        for st in stacks[: 1 + 9 + 81]:
            for alt in ([], [b"\x01"], [b"", b"\x80"], [b"\x02", b"\x03", b"\x04"]):
                ctx.label("op/altstack")
                yield from both_op(o, st, alt)
    # deeper stacks, numeric operands for PICK / ROLL / DEPTH / 2ROT / arithmetic
    for _ in range(ctx.n(6000, 120000)):
        o = r.choice(PLAIN_OPS + [121, 122, 121, 122, 113, 112, 114, 116])
        d = r.randrange(0, 8)
        st = [rnum_elem(r) for _ in range(d)]
        if o in (121, 122) and st and r.random() < 0.9:
            st[-1] = ref_encode_num(r.randrange(-1, d + 1))
        alt = [rnum_elem(r) for _ in range(r.randrange(0, 3))]
        ctx.label("op/deep-sampled")
        yield from both_op(o, st, alt, rctx(r) if o in (177, 178) else CTX0)
    # arithmetic on 4-byte boundary operands
    nums = [0, 1, -1, 2 ** 31 - 1, -(2 ** 31) + 1, 2 ** 31, -(2 ** 31), 2 ** 31 - 2, 127, 128, -128, 255, 256, 32767, 32768]
    for o in [139, 140, 143, 144, 145, 146, 147, 148] + list(range(154, 166)):
        for a in nums:
            for b in nums:
                st = [ref_encode_num(r.choice(nums)), ref_encode_num(a), ref_encode_num(b)]
                ctx.label("op/arith-boundary")
                yield from both_op(o, st, [])
        for _ in range(ctx.n(20, 400)):
            # non-minimal encodings and negative zero as operands
            st = [r.choice(ALPHABET), ref_encode_num(r.choice(nums))[:3] + r.choice([b"\x00", b"\x80", b""]),
                  r.choice([b"\x80", b"\x00\x80", b"\x00\x00", b"\x05\x00", b"\x05\x80", b"\x00\x00\x00\x80"])]
            ctx.label("op/arith-nonminimal")
            yield from both_op(o, st, [])

    # ------------------------------------------------ time locks
    lts = LOCKTIMES if thorough else [0, 499999999, 500000000, 500000001, 2 ** 32 - 1]
    sqs = SEQUENCES
    vers = VERSIONS if thorough else [1, 2, 2 ** 32 - 1]
    for n in OPERANDS:
        e = ref_encode_num(n)
        for lt in lts:
            for sq in ([0, 5, 0xFFFFFFFE, 0xFFFFFFFF, 1 << 31] if not thorough else sqs):
                ctx.label("timelock/cltv-grid")
                yield from both_op(177, [b"\x07", e], [], (lt, sq, 2))
        for sq in sqs:
            for ver in vers:
                ctx.label("timelock/csv-grid")
                yield from both_op(178, [b"\x07", e], [], (0, sq, ver))
    for _ in range(ctx.n(1500, 40000)):
        o = r.choice([177, 178])
        n = r.choice(OPERANDS) if r.random() < 0.6 else r.randrange(-1, 2 ** 32)
        e = ref_encode_num(n)
        k = r.random()
        if k < 0.15 and abs(n) < 2 ** 31:
            e = pad_num(n, r.choice([4, 5, 5, 6]))
            ctx.label("timelock/nonminimal-operand")
        elif k < 0.2:
            e = ctx.rbytes(r.randrange(5, 8))
            ctx.label("timelock/wide-or-5-byte-operand")
        c = (r.choice(LOCKTIMES) if r.random() < 0.7 else r.randrange(2 ** 32),
             r.choice(SEQUENCES) if r.random() < 0.7 else r.randrange(2 ** 32), r.choice(VERSIONS))
        st = [rnum_elem(r) for _ in range(r.randrange(0, 2))] + [e]
        yield from both_op(o, st, [], c)
        if r.random() < 0.3:
            yield from both_eval([e, o], c)
    for o in (177, 178):
        yield from both_op(o, [], [], (0, 0, 2))
    # C07_cltv_commands / C07_csv_commands: the prefix <encode_minimal_num(n)> CLTV|CSV DROP (buidl/taproot.py) with
    # the LIBRARY's encode_minimal_num, for every operand class x context class
    for o in (177, 178):
        for n in [x for x in OPERANDS if x >= 0] + list(range(0, 18)) + [r.randrange(2 ** 32) for _ in range(ctx.n(40, 800))]:
            for c in [rctx(r) for _ in range(ctx.n(3, 12))] + [(n, 0, 2), (max(n - 1, 0), 5, 2), (0, n, 2), (0, n ^ 1, 2)]:
                ctx.label("timelock/minimal-push-commands")
                yield from both_eval([bop.encode_minimal_num(n), o, 117, 81], c)

    # the Locktime / Sequence classes themselves: every pair over the boundary values of both types
    vals = sorted(set(LOCKTIMES + SEQUENCES + OPERANDS + [-2, 2 ** 32, 2 ** 32 + 1, 0xFFFE, (1 << 22) | 0xFFFE, 511 << 7, 512 << 7, 513 << 7,
                                                           (1023 << 7) | 5, 1024 << 7,
                                                           (1 << 31) - 1, (1 << 31) | (1 << 22) | 0xFFFF]))
    for a in vals:
        for b in vals:
            ctx.label("timelock/class-api-grid")
            yield ("prop", "timelock_api", [a, b])
    for _ in range(ctx.n(300, 6000)):
        a = r.choice(vals) if r.random() < 0.3 else r.randrange(2 ** 32)
        b = r.choice([a, a ^ (1 << 22), a ^ (1 << 31), a ^ 1, (a & ~0xFFFF) | r.getrandbits(16), r.randrange(2 ** 32)])
        ctx.label("timelock/class-api-random")
        yield ("prop", "timelock_api", [a, b])

    # the class API against the model (Model/Timelock.v) and against the extracted BIP65/68/112 spec
    for a in vals:
        for b in vals:
            ctx.label("timelock/class-model-grid")
            yield ("corr", "timelock", [a, b])
            yield ("prop", "timelock_spec", [a, b])
    for _ in range(ctx.n(400, 8000)):
        a = r.choice(vals) if r.random() < 0.3 else r.randrange(2 ** 32)
        b = r.choice([a, a ^ (1 << 22), a ^ (1 << 31), a ^ 1, (a & ~0xFFFF) | r.getrandbits(16), r.randrange(2 ** 32)])
        ctx.label("timelock/class-model-random")
        yield ("corr", "timelock", [a, b])
        yield ("prop", "timelock_spec", [a, b])
    # constructors: in range, at the 16-bit edge, beyond it (C07_from_relative_unchecked_refuted: no validation), negative
    ctor = [-513, -512, -1, 0, 1, 511, 512, 513, 0xFFFF, 0x10000, 0x10001, 511 * 0x10000, 512 * 0xFFFF, 512 * 0x10000 - 1,
            512 * 0x10000, 512 * 0x10000 + 512, 1 << 22, (1 << 22) * 512, 1 << 31, (1 << 31) * 512, (1 << 31) - 1,
            2 ** 32 - 1, 2 ** 32, 2 ** 32 * 512 - 1, 2 ** 32 * 512, 2 ** 41]
    for n in ctor + [r.randrange(-1000, 2 ** 42) for _ in range(ctx.n(200, 4000))]:
        ctx.label("timelock/constructors")
        yield ("corr", "timelock_ctor", [n])
    for k in range(0, 7):
        for _ in range(ctx.n(8, 200)):
            ctx.label("timelock/parse")
            yield ("corr", "timelock_parse", [r.choice([b"\x00", b"\xff", b"\x80"]) * k if r.random() < 0.3 else ctx.rbytes(k)])

    # ------------------------------------------------ IF / NOTIF splicing alone (model vs implementation)
    for _ in range(ctx.n(1500, 30000)):
        g = ProgGen(r)
        items = g.program(r.randrange(1, 25))
        if r.random() < 0.5:
            items = mutate(r, items)
        if r.random() < 0.7:
            items.insert(r.randrange(len(items) + 1), 104)
        st = [rnum_elem(r) for _ in range(r.randrange(0, 3))]
        ctx.label("op_if/random-items")
        neg = r.randrange(2)
        yield ("corr", "op_if", [neg, st, items])
        yield ("corr", "op_if_mode", [neg, st, items])

    # ------------------------------------------------ programs
    fixed = [
        [], [81], [0], [b"\x00"], [b"\x80"], [b"\x00\x80"], [b"\x00\x00\x00"], [b"\x00\x01"], [79], [b"\x81"],
        [81, 99, 82, 104], [0, 99, 82, 104], [0, 100, 82, 104], [81, 99, 82, 103, 83, 104], [0, 99, 82, 103, 83, 104],
        [0, 99, 0, 103, 81, 103, 0, 104], [81, 99, 81, 103, 0, 103, 82, 103, 0, 104],
        [99, 104], [81, 99], [81, 99, 103], [103], [104], [81, 103, 104], [81, 104], [81, 99, 104, 104],
        [81, 99, 99, 104], [0, 99, 99, 104, 81], [0, 99, 255, 104, 81], [0, 99, 106, 104, 81], [81, 99, 106, 104, 81],
        [0, 99, 81, 99, 103, 104, 103, 82, 104], [81, 81, 99, 99, 83, 103, 84, 104, 103, 85, 104],
        [b"\x80", 99, 0, 103, 81, 104], [b"\x00\x00", 100, 81, 103, 0, 104], [b"\x01\x00", 99, 81, 103, 0, 104],
        [81, 82, 83, 84, 85, 86, 113], [81, 82, 83, 84, 85, 86, 113, 116, 88, 135],
        [81, 107, 108], [108], [81, 107], [82, 81, 107, 99, 108, 104],
        [81, 82, 147, 83, 135], [b"\xff\xff\xff\x7f", 139, 130, 85, 135], [b"\xff\xff\xff\x7f", 139, 139],
        [b"abc", 168, 130, b"\x20", 135], [b"abc", 166, 130], [b"", 167], [b"x", 169, 170, 130],
    ]
    # the library's special shapes and their near misses
    h20, h32 = bytes(range(20)), bytes(range(32))
    fixed += [[0, h20], [0, h32], [81, h32], [b"", h20], [b"\x01", h32], [0, h20[:19]], [0, h32 + b"\x00"], [81, h20],
              [82, h32], [0, 0, h20], [0, h20, 117], [0, 99, 104, 0, h20], [81, 99, 0, h20, 104],
              [b"x", 169, h20, 135], [b"x", 169, h20[:19], 135], [b"x", 169, h20, 136], [b"x", 169, h20, 135, 81],
              [81, 99, b"x", 104, 169, h20, 135], [81, 99, b"x", 169, h20, 135, 104], [b"x", 81, 99, 169, h20, 135, 104],
              [81, 99, b"x", 169, 104, h20, 135], [b"x", 118, 169, h20, 135], [169, b"x", h20, 135],
              [b"x" * 520], [b"x" * 521], [b"x" * 521, 117, 81]]
    # ill-nested lists of C07_ill_nested_examples / C07_reject_returns_false_refuted (stray ELSE / ENDIF: KeyError;
    # unterminated IF: False), and the four witnesses of C07_resource_limits_refuted (the library accepts)
    fixed += [[81, 103], [81, 99, 81], [0, 99, 104, 104, 81], [0, 99, 99, 104, 81], [81, 106, 103], [0, 99, 103, 103], [81, 100],
              [b"\x01" * 521], [81] + [97] * 202, [81] * 1001, [b"\x01" * 520] * 20,
              [81] + [97] * 201, [81] * 1000, [81] * 333, [81] * 334, [b"\x01" * 520] * 19]
    # K-C07-limits: one witness per limit through the predicate `limits` (library vs consensus WITH limits, no bounds),
    # and the neighbours just inside each limit, where it must hold
    for cmds in ([b"\x01" * 521], [81] + [97] * 202, [81] * 1001, [b"\x01" * 520] * 20):
        ctx.label("limits/witness-beyond-limit")
        yield ("prop", "limits", [cmds, 0, 0, 2])
    for cmds in ([b"\x01" * 520], [81] + [97] * 201, [81] * 1000, [b"\x01" * 520] * 19, [81] * 333, [81, 82, 147]):
        ctx.label("limits/neighbour-inside-limit")
        yield ("prop", "limits", [cmds, 0, 0, 2])
    for cmds in fixed:
        ctx.label("program/fixed")
        for ap, aw in ((0, 0), (1, 1), (1, 0), (0, 1)):
            yield from both_eval(cmds, (0, 0, 2), ap, aw)
    # every op code at every stack depth from 0 up to its arity (one item short of it: the script must be REJECTED
    # by returning False), as a whole script, with small numbers and with arbitrary data on the stack
    for o in PLAIN_OPS + [99, 100]:
        if o == 113:
            continue
        tail = [104] if o in (99, 100) else []
        for d in range(0, ARITY.get(o, 1 if o in (99, 100) else 0) + 2):
            for fill in ([81] * d, [82, 83, 84, 85, 86, 87, 88][:d], [b"\x07" * (j + 1) for j in range(d)]):
                ctx.label("program/underflow-per-opcode")
                yield from both_eval(fill + [o] + tail, (5, 5, 2))
                yield from both_eval(fill + [o] + tail + [116], (5, 5, 2))
        ctx.label("program/underflow-per-opcode")
        yield from both_eval([o] + tail, (0, 0, 2), 1, 1)
        yield from both_eval([81, 107, o] + tail + [108], (0, 0, 2))
    for i in range(ctx.n(4000, 120000)):
        g = ProgGen(r, allow_2rot=(i % 10 == 0), timelocks=(i % 3 == 0))
        cmds = g.program(r.randrange(1, 41))
        c = rctx(r)
        kind = "structured"
        if i % 4 == 3:
            cmds = mutate(r, cmds)
            kind = "mutated"
        nest = 0
        mx = 0
        for x in cmds:
            if x in (99, 100):
                nest += 1
                mx = max(mx, nest)
            elif x == 104:
                nest -= 1
        ctx.label(f"program/{kind}/nest{min(mx, 4)}")
        if cmds.count(103) > 1:
            ctx.label("program/multiple-else")
        # the property's reading: no byte pattern is special (flags off); every fifth program also with
        # the default flags, where the spec excludes the shapes the library then special-cases
        yield from both_eval(cmds, c)
        if i % 5 == 0:
            ctx.label("program/default-flags")
            yield from both_eval(cmds, c, 1, 1)
    # programs salted with the special shapes, default flags and flags off
    h20, h32 = bytes(range(20)), bytes(range(32))
    for i in range(ctx.n(600, 12000)):
        g = ProgGen(r)
        cmds = g.program(r.randrange(1, 20))
        salt = r.choice([[0, h20], [0, h32], [81, h32], [b"", h20], [b"\x01", h32], [b"zz", 169, h20, 135],
                         [169, h20, 135], [0, h20[:19]], [81, h20]])
        pos = r.choice([0, len(cmds), r.randrange(len(cmds) + 1)])
        cmds = (cmds[:pos] + salt + cmds[pos:])[:40]
        ap, aw = r.choice([(1, 1), (1, 1), (0, 0), (1, 0), (0, 1)])
        ctx.label("program/special-shapes")
        yield from both_eval(cmds, rctx(r), ap, aw)
