"""C01 — ECDSA: signing complete, verification sound, signatures canonical (buidl/pecc.py)."""
import hashlib
import hmac as _hmac
import signal

from buidl import pecc
from buidl.pecc import PrivateKey, S256Point, Signature

from vp.core import ImplTimeout

from . import ecref
from .ecref import N, P

PID = "C01"
BUDGET_S = {"quick": 900, "thorough": 3300}
RULE = ("Secrets over {1, 2, n-1, n-2, 2^128 +-1, 2^255 +-1} and digests over {0, 1, n-1, n, n+1, 2^256-1, 2^255} "
        "(full cross product) plus random pairs; out-of-range secrets/digests for the error branches; every emitted "
        "signature is DER-encoded, re-parsed, and mutated by the catalogue z+-1, other key, r+-1, s+-1, r/s in "
        "{0, n, 2^256-1}, r+n, s+n, n-s; chosen-nonce signatures whose raw s lies in (n/2, 2^255]; tuples whose "
        "R has x >= n; malformed DER: every truncation, single byte flips, wrong length bytes.  Constructed "
        "boundary tuples (public key solved from a chosen R, r, s, z): r in {1, 2, 3, 4, ...} with x(R) = r and "
        "x(R) = r + n, r in {n-2, n-3, ...}, x(R) next to p, s in {1, 2, n-1, n-2, (n-1)/2, (n+1)/2}, R at infinity, "
        "u1*G = u2*Q, z = 0, public keys with x in {1, 2, 3}, x next to p, G, -G, 2G (tuples forged from u1, u2); "
        "chosen-nonce raw s on both sides of n/2, of 1 and of n; DER integers of every byte length 1..32 x leading "
        "byte {01, 7e, 7f, 80, 81, ff} x second byte {00, 7f, 80, ff}; RFC 6979 with an HMAC whose V outputs are "
        "replaced by {0, 1, n-1, n, n+1, 2^256-1} so that every candidate comparison and the retry step run.  "
        "Deepening (Props/C01.v sections 6-10): RFC 6979 as 'first acceptable candidate' — nonce AND number of rejected "
        "candidates (HMAC call count 5 + 3i) against the extracted sequence spec, with the weak and the boundary HMAC; "
        "DER strictness: emitted strings, raw bodies with 0-2 superfluous zero octets x leading byte {00, 01, 7f, 80, ff} "
        "x body lengths {1, 2, 32, 33, 34}, bodies of 60-250 bytes, every truncation / byte flip / wrong length byte, "
        "random (framed) strings — Signature.parse(b).der() == b exactly on strict DER; the outer API "
        "sign(z).der(), sign_message, verify(z, Signature.parse(b)), verify_message, S256Point.parse(sec).verify(...) on "
        "valid input, padded / truncated / trailing / swapped encodings, SEC compressed / uncompressed / x-only / other "
        "parity / bad prefix / short / off-curve / x >= p, bad secrets and digests; twin (r, n-s) for s in "
        "{valid, 0, n, -s, random, s+n} and the infinity key; digests z mod n, z +- n, z + 5n; the second digest "
        "-z - 2rd; tuples forged for the infinity key.  Entry-point audit: keys from PrivateKey.parse(WIF) / optional "
        "constructor arguments / the buidl.ecc and buidl re-exports, public-key objects from S256Field coordinates, "
        "explicit a / b, parse_sec / parse_xonly called directly, d * G, combine, point + int, even_point, the constant G "
        "itself, stand-in signature objects; hand-built SEC / x-only strings judged by an independent decoder (x in "
        "{1, 3}, leading zero bytes, tiny y, coordinates + p, prefix / length mismatches, hybrid prefixes, all-00 / "
        "all-ff, x without a point, 32 zero bytes); verify tuples with r = s, z = 0, z = r, z = s, secret = digest; "
        "secrets / digests / messages of one repeated byte (00, 01, 7f, 80, ff), empty message; DER bodies that look "
        "like DER and integer length bytes shifted by -2..2 in both positions; refused secret / digest / point / SEC / "
        "DER followed by a retry on the same objects.")
TRUSTED = ["hashlib/hmac (HMAC-SHA256 is a universally quantified function in the RFC 6979 theorem)",
           "CPython pow(b, e, m) — modelled by square-and-multiply (Model/Pecc.v modpow)",
           "harness reference implementation props/ecref.py (independent ECDSA/RFC 6979/DER on Python ints) — "
           "used only as a second judge next to the extracted Coq spec"]
ASSUMPTIONS = ["scalar_laws secp256k1 (group axioms, order n, n prime) — explicit hypothesis of C01_sign_verifies, "
               "C01_verify_iff_ecdsa and of the group-level theorems of sections 8-10 (twin, second digest, API round "
               "trips), discharged on the toy curve only",
               "C01_sign_verifies side conditions r < n, r mod n <> 0, s <> 0: the code neither reduces r mod n "
               "nor retries; no input exhibiting them can be constructed (probability < 2^-127 per signature)"]

TWO256 = 2 ** 256
# secp256k1 scalar multiplications do not finish under vm_compute inside Coq in the self-check's time limit (the
# whole self-check was skipped by its timeout): the curve functions are left to the extracted driver only
VM_SKIP = {"sign", "sign_k", "pubkey", "verify", "ecdsa_ok", "sign_der", "sign_message", "sign_message_der",
           "verify_der", "verify_message", "verify_message_der", "verify_wire"}


def _mk_key(d):
    """a PrivateKey object without running the constructor (no range check, no point)"""
    pk = PrivateKey.__new__(PrivateKey)
    pk.secret = d
    return pk


class _FixedK(PrivateKey):
    def deterministic_k(self, z):
        return self._k


def _weaken(d):
    t = d[-1] % 4
    if t == 2:
        return b"\xff" * 16 + d[16:]
    if t == 3:
        return bytes(32)
    return d


class _WeakHmacObj:
    def __init__(self, k, m, alg):
        self._d = _weaken(_hmac.new(k, m, alg).digest())

    def digest(self):
        return self._d


class _WeakHmac:
    new = _WeakHmacObj


def i_det_k(d, z):
    return _mk_key(d).deterministic_k(z)


def i_det_k_weak(d, z):
    old = pecc.hmac
    pecc.hmac = _WeakHmac
    try:
        return _mk_key(d).deterministic_k(z)
    finally:
        pecc.hmac = old


def i_sign_k(d, z, k):
    pk = _FixedK(d)
    pk._k = k
    sig = pk.sign(z)
    return [sig.r, sig.s]


def i_sign(d, z):
    sig = PrivateKey(d).sign(z)
    return [sig.r, sig.s]


def i_pubkey(d):
    pt = PrivateKey(d).point
    return [] if pt.x is None else [pt.x.num, pt.y.num]


def _point(pv):
    if pv == []:
        return S256Point(None, None)
    return S256Point(pv[0], pv[1])


_vcache = {}


def _verify_raw(pv, z, r, s):
    """("ok", answer) | ("ctor", exception of the S256Point constructor) | ("verify", exception of verify)"""
    key = (tuple(pv), z, r, s)
    if key not in _vcache:
        if len(_vcache) > 20000:
            _vcache.clear()
        try:
            pt = _point(pv)
        except ImplTimeout:
            raise
        except Exception as e:  # noqa
            _vcache[key] = ("ctor", e)
            return _vcache[key]
        try:
            _vcache[key] = ("ok", pt.verify(z, Signature(r, s)))
        except ImplTimeout:
            raise
        except Exception as e:  # noqa
            _vcache[key] = ("verify", e)
    return _vcache[key]


def i_verify(pv, z, r, s):
    tag, v = _verify_raw(pv, z, r, s)
    if tag != "ok":
        raise v
    return v


# ---- an HMAC whose V outputs (32-byte messages) are replaced by the boundary values of the candidate test
# `1 <= candidate < n`; K outputs (33 / 97-byte messages) stay real, so the state keeps evolving and the loop ends.
_EDGES = {2: N, 3: N - 1, 4: 1, 5: 0, 6: N + 1, 7: TWO256 - 1}


def _edge_hm(salt, log=None):
    def hm(k, m):
        out = _hmac.new(k, m, hashlib.sha256).digest()
        if len(m) == 32:
            t = (out[-1] + salt) % 8
            if t in _EDGES:
                out = _EDGES[t].to_bytes(32, "big")
            if log is not None:
                log.append(out)
        return out
    return hm


class _FnHmac:
    """stands in for the module `hmac` inside buidl.pecc: new(key, msg, digestmod).digest()"""

    def __init__(self, hm):
        self._hm = hm

    def new(self, k, m, alg=None):
        out = self._hm(k, m)

        class _O:
            def digest(self_inner):
                return out
        return _O()


def i_det_k_hm(d, z, hm):
    old = pecc.hmac
    pecc.hmac = _FnHmac(hm)
    try:
        return _mk_key(d).deterministic_k(z)
    finally:
        pecc.hmac = old


def i_der_parse(b):
    sig = Signature.parse(b)
    return [sig.r, sig.s]



# ---- outer API (Model/EcdsaApi.v): compositions a user calls

def _h256int(m):
    return int.from_bytes(hashlib.sha256(hashlib.sha256(m).digest()).digest(), "big")


def i_sign_message(d, m):
    sig = PrivateKey(d).sign_message(m)
    return [sig.r, sig.s]


def i_verify_der(pv, z, b):
    return _point(pv).verify(z, Signature.parse(b))


def i_verify_message(pv, m, r, s):
    return _point(pv).verify_message(m, Signature(r, s))


def i_verify_wire(sec, z, b):
    return S256Point.parse(sec).verify(z, Signature.parse(b))


def _counted(hm, box):
    def f(k, m):
        box[0] += 1
        return hm(k, m)
    return f


def _real_hm(k, m):
    return _hmac.new(k, m, hashlib.sha256).digest()


def i_rfc6979_seq(d, h1, hm=_real_hm):
    """[number of rejected candidates, nonce]: deterministic_k performs 5 + 3 * rejected HMAC calls
    (4 for steps d-g, one per candidate, two more per rejected candidate)"""
    box = [0]
    k = i_det_k_hm(d, int.from_bytes(h1, "big"), _counted(hm, box))
    calls = box[0]
    if calls < 5 or (calls - 5) % 3:
        raise AssertionError(f"deterministic_k made {calls} HMAC calls")
    return [(calls - 5) // 3, k]

IMPL = {
    "det_k": i_det_k,
    "det_k_weak": i_det_k_weak,
    "rfc6979": lambda d, h1: i_det_k(d, int.from_bytes(h1, "big")),
    "rfc6979_weak": lambda d, h1: i_det_k_weak(d, int.from_bytes(h1, "big")),
    "sign_k": i_sign_k,
    "sign": i_sign,
    "pubkey": i_pubkey,
    "verify": i_verify,
    "ecdsa_ok": i_verify,
    "der": lambda r, s: Signature(r, s).der(),
    "der_parse": i_der_parse,
    "sign_der": lambda d, z: PrivateKey(d).sign(z).der(),
    "sign_message": i_sign_message,
    "sign_message_der": lambda d, m: PrivateKey(d).sign_message(m).der(),
    "verify_der": i_verify_der,
    "verify_message": i_verify_message,
    "verify_message_der": lambda pv, m, b: _point(pv).verify_message(m, Signature.parse(b)),
    "verify_wire": i_verify_wire,
    "der_reencode": lambda b: Signature.parse(b).der(),
    "rfc6979_seq": i_rfc6979_seq,
    "rfc6979_seq_weak": lambda d, h1: i_rfc6979_seq(d, h1, lambda k, m: _weaken(_real_hm(k, m))),
}

# ---------------------------------------------------------------- property predicates


def p_sign(d, z):
    """1 <= d < n, 0 <= z < 2^256: the signature verifies, is the RFC 6979 signature, is low-S, survives DER."""
    key = PrivateKey(d)
    sig = key.sign(z)
    r, s = sig.r, sig.s
    if not (1 <= r < N and 1 <= s < N):
        return f"signature component outside [1, n-1]: r={r} s={s}"
    if s > (N - 1) // 2:
        return f"signature is not low-S: s={s}"
    want = ecref.ecdsa_sign(d, z)
    if (r, s) != want:
        return f"not the RFC 6979 signature: got ({r}, {s}), reference ({want[0]}, {want[1]})"
    if key.point.verify(z, sig) is not True:
        return "the signature does not verify under the matching public key"
    q = ecref.mul(d, ecref.G)
    if (key.point.x.num, key.point.y.num) != q:
        return "public key differs from the reference d*G"
    if not ecref.ecdsa_verify(q, z, r, s):
        return "the signature does not verify under the reference verifier"
    enc = sig.der()
    if enc != ecref.der(r, s):
        return f"DER encoding is not the canonical one: {enc.hex()}"
    back = Signature.parse(enc)
    if (back.r, back.s) != (r, s):
        return "DER round trip changes the signature"
    return None


def p_verify_ref(pv, z, r, s):
    """verification result == textbook ECDSA validity (reference).  A pair that is not a curve point is not a
    public key (the constructor must refuse it); on a public key, verify has to ANSWER: an exception is a failure."""
    is_key = pv == [] or ecref.on_curve(tuple(pv))
    tag, got = _verify_raw(pv, z, r, s)
    if tag == "ctor":
        if is_key:
            return f"S256Point refuses a valid public key: {got!r}"
        return None
    if not is_key:
        return "S256Point accepts a coordinate pair that is not a point of secp256k1 as public key"
    if tag == "verify":
        return f"verify raised {got!r} instead of answering (r in range: {1 <= r < N}, s in range: {1 <= s < N})"
    if got is not True and got is not False:
        return f"verify returned {got!r}"
    want = ecref.ecdsa_verify(tuple(pv) if pv else None, z, r, s)
    if got != want:
        return f"verify says {got}, textbook ECDSA says {want} (r in range: {1 <= r < N}, s in range: {1 <= s < N})"
    return None


def p_sign_k(d, z, k):
    """chosen nonce k (subclass overriding deterministic_k): low-S, verifies, equals reference"""
    pk = _FixedK(d)
    pk._k = k
    sig = pk.sign(z)
    want = ecref.ecdsa_sign_k(d, z, k)
    if (sig.r, sig.s) != want:
        return f"signature ({sig.r}, {sig.s}) differs from reference {want}"
    if not 1 <= sig.s <= (N - 1) // 2:
        return f"signature with nonce {k} is not low-S: s={sig.s}"
    if pk.point.verify(z, sig) is not True:
        return "chosen-nonce signature does not verify"
    return None


def p_der_rt(r, s):
    """1 <= r, s < 2^256: canonical DER and exact round trip"""
    enc = Signature(r, s).der()
    if enc != ecref.der(r, s):
        return f"DER of ({r}, {s}) is {enc.hex()}, canonical is {ecref.der(r, s).hex()}"
    if ecref.der_strict_parse(enc) != (r, s):
        return "strict DER parser rejects or mis-reads the encoding"
    back = Signature.parse(enc)
    if (back.r, back.s) != (r, s):
        return "DER round trip changes (r, s)"
    return None


def p_key_reuse(d, d2, zs, order, msgs):
    """State kept across calls.  ONE PrivateKey object, ONE public-point object and ONE Signature object live
    through a whole call history (the other predicates build fresh objects per case): sign / deterministic_k /
    sign_message with the digests zs in the given order (repeats included), verification of every
    (digest, signature) combination on the one point, in-place edits of Signature.r / .s and of
    PrivateKey.secret, callers mutating a returned Signature, and a Signature.parse history.  Every result
    must be what the independent reference gives for the CURRENT arguments and fields."""
    key = PrivateKey(d)
    pub = key.point
    q = ecref.mul(d, ecref.G)
    if (pub.x.num, pub.y.num) != q:
        return "public key differs from the reference d*G"
    ref = {}
    for z in zs:
        ref[z] = ecref.ecdsa_sign(d, z)
    returned = []
    for step, i in enumerate(order):
        z = zs[i]
        k = key.deterministic_k(z)
        want_k = ecref.rfc6979_k(d, z.to_bytes(32, "big"))
        if k != want_k:
            return f"call {step}: deterministic_k({z}) on a reused key is {k}, RFC 6979 gives {want_k}"
        sig = key.sign(z)
        if (sig.r, sig.s) != ref[z]:
            return f"call {step}: sign({z}) on a reused key gives ({sig.r}, {sig.s}), a fresh signature is {ref[z]}"
        if sig.der() != ecref.der(*ref[z]):
            return f"call {step}: DER of the signature returned for {z} is not the canonical encoding"
        returned.append((z, sig))
    # a caller altering the object it was handed must not alter what the key answers next
    for z, sig in returned[:2]:
        sig.r, sig.s = sig.s, N - sig.s
        again = key.sign(z)
        if (again.r, again.s) != ref[z]:
            return f"sign({z}) changed after the caller edited the Signature returned earlier"
    # sign_message / verify_message alternate between messages
    for step, m in enumerate(msgs + msgs[:1]):
        sig = key.sign_message(m)
        want = ecref.ecdsa_sign(d, _h256int(m))
        if (sig.r, sig.s) != want:
            return f"sign_message call {step} on a reused key differs from the reference"
        for m2 in msgs:
            got = pub.verify_message(m2, sig)
            if got is not (m2 == m):
                return f"verify_message({m2.hex()}) of the signature over {m.hex()} answers {got!r}"
    # every (digest, signature) combination on the ONE point object, first and last repeated
    combos = [(i, j) for i in range(len(zs)) for j in range(len(zs))]
    combos = combos[:1] + combos[::-1] + combos[:1]
    for (i, j) in combos:
        r_, s_ = ref[zs[j]]
        got = pub.verify(zs[i], Signature(r_, s_))
        want = ecref.ecdsa_verify(q, zs[i], r_, s_)
        if got is not want:
            return f"verify(z[{i}], signature over z[{j}]) on a reused point answers {got!r}, textbook ECDSA {want}"
    # ONE Signature object edited in place
    (r0, s0), (r1, s1) = ref[zs[0]], ref[zs[-1]]
    sg = Signature(r0, s0)
    if sg.der() != ecref.der(r0, s0) or pub.verify(zs[0], sg) is not True:
        return "Signature object: der/verify wrong before any edit"
    for (nr, ns, z) in ((r1, s0, zs[0]), (r1, s1, zs[-1]), (r1, N - s1, zs[-1]), (r0, N - s1, zs[0]), (r0, s0, zs[0])):
        sg.r = nr
        sg.s = ns
        if sg.der() != ecref.der(nr, ns):
            return f"Signature.der() after setting r, s in place is not the encoding of the current ({nr}, {ns})"
        back = Signature.parse(sg.der())
        if (back.r, back.s) != (nr, ns):
            return "Signature.parse of the re-encoded edited signature differs"
        got, want = pub.verify(z, sg), ecref.ecdsa_verify(q, z, nr, ns)
        if got is not want:
            return f"verify with a Signature edited in place to ({nr}, {ns}) answers {got!r}, textbook ECDSA {want}"
    # Signature.parse called with different strings in turn
    encs = [ecref.der(*ref[z]) for z in zs]
    for e in encs + encs[::-1]:
        back = Signature.parse(e)
        if (back.r, back.s) != ecref.der_strict_parse(e):
            return f"Signature.parse({e.hex()}) in a call history gives ({back.r}, {back.s})"
    # the secret replaced in place: signing uses the current secret, and the old one again after restoring it
    key.secret = d2
    z = zs[0]
    if key.deterministic_k(z) != ecref.rfc6979_k(d2, z.to_bytes(32, "big")):
        return "deterministic_k after replacing key.secret is not the RFC 6979 nonce of the current secret"
    sig = key.sign(z)
    if (sig.r, sig.s) != ecref.ecdsa_sign(d2, z):
        return "sign after replacing key.secret is not the signature of the current secret"
    key.secret = d
    sig = key.sign(z)
    if (sig.r, sig.s) != ref[z]:
        return "sign after restoring key.secret differs from the first signature"
    return None


def p_det_k(d, z):
    """1 <= d < n, 0 <= z < 2^256: deterministic_k is the RFC 6979 nonce (independent transcription); the
    secret and the digest enter HMAC as 32-byte strings whatever their leading zero bytes"""
    got, want = _mk_key(d).deterministic_k(z), ecref.rfc6979_k(d, z.to_bytes(32, "big"))
    if got != want:
        return f"deterministic_k is {got}, RFC 6979 gives {want}"
    return None


def p_det_k_hm(d, z, salt):
    """RFC 6979 is stated for every HMAC function: with V outputs replaced by 0, 1, n-1, n, n+1, 2^256-1 the
    candidate test `1 <= k <= n-1` and the retry step (K = HMAC(K, V || 00), V = HMAC(K, V)) decide the result.
    deterministic_k with that HMAC must give what the independent RFC 6979 transcription gives with it."""
    got = i_det_k_hm(d, z, _edge_hm(salt))
    want = ecref.rfc6979_k(d, (z % TWO256).to_bytes(32, "big"), hm=_edge_hm(salt))
    if got != want:
        return f"deterministic_k gives {got}, RFC 6979 with the same HMAC function gives {want}"
    return None


def p_bad_secret(d):
    """an integer outside [1, n-1] is not a private key: the constructor refuses it (with d = 0 mod n the public
    key would be the point at infinity and every 'signature' s = z/k independent of the key)"""
    try:
        key = PrivateKey(d)
    except ImplTimeout:
        raise
    except Exception:  # noqa
        return None
    if 1 <= d < N:
        return None
    return f"PrivateKey({d}) is accepted; its public point is {key.point!r}"



def _ilen(v):
    """octets of the minimal positive DER integer (Coq: der_ilen v = (log2 v + 9) / 8)"""
    return (v.bit_length() - 1 + 9) // 8


def p_api_roundtrip(d, z):
    """PrivateKey(d).sign(z).der() -> Signature.parse -> verify under the key's point AND under the point parsed
    back from either SEC form; the encoding is strict DER of exactly 6 + octets(r) + octets(s) <= 71 bytes and
    re-encodes to itself (C01_api_sign_der_verify / _length / _wire_roundtrip, C01_der_length)."""
    key = PrivateKey(d)
    sig = key.sign(z)
    enc = sig.der()
    if not 8 <= len(enc) <= 71:
        return f"DER signature of {len(enc)} bytes"
    if len(enc) != 6 + _ilen(sig.r) + _ilen(sig.s) or enc[1] != len(enc) - 2:
        return f"DER length {len(enc)} is not 6 + octets(r) + octets(s) = {6 + _ilen(sig.r) + _ilen(sig.s)}"
    if ecref.der_strict_parse(enc) != (sig.r, sig.s):
        return "the emitted encoding is not strict DER of (r, s)"
    back = Signature.parse(enc)
    if (back.r, back.s) != (sig.r, sig.s) or back.der() != enc:
        return "parse / re-encode does not reproduce the signature"
    if key.point.verify(z, back) is not True:
        return "sign -> der -> parse -> verify is not True"
    for compressed in (True, False):
        pub = S256Point.parse(key.point.sec(compressed))
        if pub.verify(z, Signature.parse(enc)) is not True:
            return f"verification with the public key parsed from SEC (compressed={compressed}) is not True"
    return None


def p_msg_roundtrip(d, m, m2):
    """sign_message / verify_message: z is the big-endian hash256; the signature is the reference's, verifies for m
    and (m2 != m) is judged like the reference judges it for m2"""
    key = PrivateKey(d)
    sig = key.sign_message(m)
    z = _h256int(m)
    if (sig.r, sig.s) != ecref.ecdsa_sign(d, z):
        return "sign_message is not the RFC 6979 signature over hash256(m)"
    direct = key.sign(z)
    if (direct.r, direct.s) != (sig.r, sig.s):
        return "sign_message(m) differs from sign(hash256(m))"
    if key.point.verify_message(m, sig) is not True:
        return "verify_message rejects the signature of the same message"
    q = ecref.mul(d, ecref.G)
    got, want = key.point.verify_message(m2, sig), ecref.ecdsa_verify(q, _h256int(m2), sig.r, sig.s)
    if got is not want:
        return f"verify_message on another message answers {got!r}, textbook ECDSA {want}"
    if key.point.verify_message(m, Signature.parse(sig.der())) is not True:
        return "verify_message rejects the re-parsed signature"
    # verify_message is verify on hash256(m): judged by the reference on the twin, on altered r / s and out of range
    for (r2, s2) in ((sig.r, N - sig.s), (sig.r, sig.s + N), (sig.r + 1, sig.s), (sig.s, sig.r), (0, sig.s), (sig.r, 0)):
        got, want = key.point.verify_message(m, Signature(r2, s2)), ecref.ecdsa_verify(q, z, r2, s2)
        if got is not want:
            return f"verify_message with (r, s) = ({r2}, {s2}) answers {got!r}, textbook ECDSA {want}"
    return None


def p_twin(pv, z, r, s):
    """(r, n - s) is accepted exactly when (r, s) is, for every integer r, s (C01_verify_twin); only z mod n
    matters (C01_verify_z_mod)"""
    pt = _point(pv)
    a, b = pt.verify(z, Signature(r, s)), pt.verify(z, Signature(r, N - s))
    if a is not b:
        return f"verify(r, s) = {a!r} but verify(r, n - s) = {b!r}"
    if a is not ecref.ecdsa_verify(tuple(pv) if pv else None, z, r, s):
        return f"verify answers {a!r}, textbook ECDSA differs"
    for z2 in (z % N, z + N, z - N, z + 5 * N):
        c = pt.verify(z2, Signature(r, s))
        if c is not a:
            return f"verify with the digest {z2} (same residue mod n) answers {c!r} instead of {a!r}"
    return None


def p_dup_digest(d, z):
    """C01_verify_dup_digest: the signature (r, s) over z under d*G is accepted for z' = -z - 2 r d mod n as well
    (R' = -R has the same x), and for no neighbour of z'.  Checked against the reference."""
    key = PrivateKey(d)
    sig = key.sign(z)
    q = ecref.mul(d, ecref.G)
    z2 = (-z - 2 * sig.r * d) % N
    for zz, name in ((z, "z"), (z2, "-z-2rd"), ((z2 + 1) % N, "-z-2rd+1"), ((z2 - 1) % N, "-z-2rd-1")):
        got, want = key.point.verify(zz, sig), ecref.ecdsa_verify(q, zz, sig.r, sig.s)
        if got is not want:
            return f"verify with digest {name} answers {got!r}, textbook ECDSA {want}"
    if key.point.verify(z2, sig) is not True:
        return "the second digest -z - 2rd is not accepted (the model proves it is)"
    return None


def p_der_strictness(b):
    """Signature.parse(b).der() == b exactly when b is strict DER of two integers in [1, 2^256)
    (C01_der_reencode_id_iff); whatever parse accepts is 30 L 02 lr R 02 ls S with exact lengths (C01_der_parse_iff)"""
    strict = ecref.der_strict_parse(b)
    strict_ok = strict is not None and all(1 <= v < TWO256 for v in strict)
    try:
        sig = Signature.parse(b)
    except ImplTimeout:
        raise
    except Exception:  # noqa
        if strict is not None:
            return "Signature.parse rejects a strict DER string"
        return None
    # accepted: the frame must be exact
    if len(b) < 8 or b[0] != 0x30 or b[1] != len(b) - 2 or b[2] != 2:
        return f"Signature.parse accepts a string that is not a SEQUENCE of the stated length: {b.hex()}"
    lr = b[3]
    if lr == 0 or 4 + lr + 2 > len(b) or b[4 + lr] != 2:
        return f"Signature.parse accepts a malformed first INTEGER: {b.hex()}"
    ls = b[5 + lr]
    if ls == 0 or 6 + lr + ls != len(b):
        return f"Signature.parse accepts a malformed second INTEGER / trailing bytes: {b.hex()}"
    if (sig.r, sig.s) != (int.from_bytes(b[4:4 + lr], "big"), int.from_bytes(b[6 + lr:], "big")):
        return "Signature.parse does not return the big-endian values of the two bodies"
    try:
        again = sig.der()
    except ImplTimeout:
        raise
    except Exception:  # noqa
        again = None
    if (again == b) is not strict_ok:
        return (f"parse(b).der() == b is {again == b}, b strict DER of integers in [1, 2^256) is {strict_ok}: "
                f"{b.hex()}")
    return None


def p_det_k_calls(d, z, salt):
    """RFC 6979 as a sequence: the nonce is the FIRST candidate in [1, n-1] and deterministic_k stops there —
    it performs exactly 5 + 3 * (number of rejected candidates) HMAC calls (C01_det_k_first / _seq_search_first)"""
    k_ref, classes = edge_trace(d, z % TWO256, salt)
    got = i_rfc6979_seq(d, (z % TWO256).to_bytes(32, "big"), _edge_hm(salt))
    if got != [len(classes) - 1, k_ref]:
        return (f"deterministic_k returned {got[1]} after {got[0]} rejected candidates; the first acceptable "
                f"candidate of the RFC 6979 sequence is {k_ref} after {len(classes) - 1}")
    return None

# ---- blind-spot audit: alternative entry points, optional arguments, wire forms of special keys, failure + retry.
# Everything below is judged by props/ecref.py and by the encoders written here; nothing is built with the library.

_B58 = "123456789ABCDEFGHJKLMNPQRSTUVWXYZabcdefghijkmnopqrstuvwxyz"


def _b58check(payload):
    """independent Base58Check encoder (for WIF strings)"""
    raw = payload + hashlib.sha256(hashlib.sha256(payload).digest()).digest()[:4]
    n, out = int.from_bytes(raw, "big"), ""
    while n:
        n, rem = divmod(n, 58)
        out = _B58[rem] + out
    return "1" * (len(raw) - len(raw.lstrip(b"\x00"))) + out


def _wif(d, testnet, compressed):
    return _b58check((b"\xef" if testnet else b"\x80") + d.to_bytes(32, "big") + (b"\x01" if compressed else b""))


def _ref_pub(sec):
    """independent SEC / x-only decoder: ("key", point or None) | ("bad",).  32 zero bytes are the library's
    documented spelling of the point at infinity (parse_xonly); every other string must be a curve point with
    reduced coordinates, the right prefix and the right length."""
    if len(sec) == 32:
        x = int.from_bytes(sec, "big")
        if x == 0:
            return ("key", None)
        pt = ecref.lift_x(x)
        return ("key", pt) if pt is not None else ("bad",)
    if len(sec) == 33 and sec[0] in (2, 3):
        pt = ecref.lift_x(int.from_bytes(sec[1:], "big"))
        if pt is None:
            return ("bad",)
        return ("key", pt if pt[1] % 2 == sec[0] - 2 else ecref.neg(pt))
    if len(sec) == 65 and sec[0] == 4:
        pt = (int.from_bytes(sec[1:33], "big"), int.from_bytes(sec[33:], "big"))
        return ("key", pt) if ecref.on_curve(pt) else ("bad",)
    return ("bad",)


def _xy(pt):
    return None if pt.x is None else (pt.x.num, pt.y.num)


class _DuckSig:
    """not a Signature: verify is documented on `sig.r` / `sig.s` only"""

    def __init__(self, r, s):
        self.r, self.s = r, s


def _judge(pt, q, z, r, s, what, sig=None):
    """verify on the point OBJECT pt against textbook ECDSA under the reference point q"""
    got, want = pt.verify(z, sig if sig is not None else Signature(r, s)), ecref.ecdsa_verify(q, z, r, s)
    if got is not want:
        return f"{what}: verify answers {got!r}, textbook ECDSA {want}"
    return None


def p_alt_entry(d, z, testnet, compressed, full):
    """(a)/(b) Every way of getting a key object must sign / verify like the plain one: PrivateKey.parse(WIF)
    (main/test network, compressed flag), PrivateKey with its optional arguments given, the re-exports buidl.ecc.* and
    buidl.*, public-key objects built from S256Field coordinates, with the ignored a / b arguments given, by
    parse_sec / parse_xonly called directly, by scalar multiplication of the module constant G, by S256Point.combine,
    `G + int`, even_point(), and the constant G itself as key; a verify argument that only HAS .r / .s."""
    import buidl
    import buidl.ecc as E
    from buidl.pecc import S256Field
    q = ecref.mul(d, ecref.G)
    want = ecref.ecdsa_sign(d, z)
    enc = ecref.der(*want)
    net = "testnet" if testnet else "mainnet"
    keys = [("PrivateKey.parse(WIF)", lambda: PrivateKey.parse(_wif(d, testnet, compressed))),
            ("PrivateKey(d, network, compressed)", lambda: PrivateKey(d, network=net, compressed=compressed)),
            ("PrivateKey(secret=d, network='signet')", lambda: PrivateKey(secret=d, network="signet")),
            ("buidl.ecc.PrivateKey", lambda: E.PrivateKey(d)),
            ("buidl.PrivateKey", lambda: buidl.PrivateKey(d, compressed=not compressed))]
    for name, mk in (keys if full else keys[:2] + keys[3:4]):
        key = mk()
        if key.secret != d:
            return f"{name}: secret is {key.secret}"
        if _xy(key.point) != q:
            return f"{name}: public point differs from the reference d*G"
        sig = key.sign(z)
        if (sig.r, sig.s) != want:
            return f"{name}: sign gives ({sig.r}, {sig.s}), the RFC 6979 signature is {want}"
        if sig.der() != enc:
            return f"{name}: DER of the signature is not the canonical encoding"
        if key.deterministic_k(z) != ecref.rfc6979_k(d, z.to_bytes(32, "big")):
            return f"{name}: deterministic_k differs from RFC 6979"
    if key.secret != d or _xy(key.point) != q:
        return "signing changed the key object"
    back = E.Signature.parse(enc)
    if (back.r, back.s) != want or buidl.Signature.parse(bytearray(enc)).der() != enc:
        return "buidl.ecc.Signature.parse / buidl.Signature.parse(bytearray) . der is not the identity on a canonical string"
    r, s = want
    qe = q if q[1] % 2 == 0 else ecref.neg(q)
    d1 = (d * 0x9E3779B97F4A7C15F39CC0605CEDC834 + 1) % N or 1
    points = [("S256Point(S256Field, S256Field)", lambda: S256Point(S256Field(q[0]), S256Field(q[1])), q),
              ("S256Point(x, y, a, b) with a, b given", lambda: S256Point(q[0], q[1], 5, 9), q),
              ("buidl.ecc.S256Point(x=, y=)", lambda: E.S256Point(x=q[0], y=q[1]), q),
              ("parse_sec(compressed) called directly", lambda: S256Point.parse_sec(_sec(q, True)), q),
              ("parse_sec(uncompressed) called directly", lambda: S256Point.parse_sec(_sec(q, False)), q),
              ("parse_xonly called directly", lambda: S256Point.parse_xonly(q[0].to_bytes(32, "big")), qe),
              ("d * G on the module constant", lambda: d * pecc.G, q),
              ("S256Point.combine([d1*G, (d-d1)*G])",
               lambda: S256Point.combine([_point(list(ecref.mul(d1, ecref.G))),
                                          _point(list(ecref.mul(d - d1, ecref.G)) if (d - d1) % N else [])]), q),
              ("G + (d - 1)", lambda: pecc.G + (d - 1), q),
              ("even_point()", lambda: _point(list(q)).even_point(), qe)]
    always_twin = {points[2][1]}
    if not full:
        points = points[:3] + [points[3 + (d + z) % 3]] + points[6:8] + [points[8 + z % 2]]
    for i, (name, mk, ref) in enumerate(points):
        pt = mk()
        if _xy(pt) != ref:
            return f"{name}: the point is {_xy(pt)}, reference {ref}"
        # valid under q: the signature, its twin, and (0, x(Q), x(Q)) — u1 = 0, u2 = 1, r == s, z == 0
        # (which of the three a constructor meets rotates with the `compressed` flag of the case)
        sel = (i + compressed) % 3
        tup = (z, r, s) if sel == 0 else (z, r, N - s) if sel == 1 else forge(ref, 0, 1)
        bad = _judge(pt, ref, *tup, what=name)
        if bad is None and mk in always_twin:        # the re-exported class: low-S signature AND high-S twin
            bad = _judge(pt, ref, z, r, s, what=name) or _judge(pt, ref, z, r, N - s, what=name + " (twin n - s)")
        if bad is None and (full or i % 2 == 0):
            bad = _judge(pt, ref, (tup[0] + 1) % TWO256, tup[1], tup[2], what=name + " (digest + 1)")
        if bad is None and _xy(pt) != ref:
            bad = f"{name}: verify changed the point object"
        if bad:
            return bad
    # `point + int` adds int * G: the multiples 0 and n of G are the neutral element
    pub = _point(list(q))
    for k in (0, N, -N):
        if _xy(pub + k) != q or _xy(pecc.G + k) != ecref.G:
            return f"point + {k} is not the point itself"
    if _xy(pub + 1) != ecref.add(q, ecref.G) or _xy(pub + (N - 1)) != ecref.add(q, ecref.neg(ecref.G)):
        return "point + 1 / point + (n - 1) differ from the reference"
    # verify reads sig.r / sig.s: a stand-in object and a subclass are judged like a Signature
    pub = _point(list(q))
    for sig, (r2, s2) in ((_DuckSig(r, s), (r, s)), (type("Sub", (Signature,), {})(r + 1, s), (r + 1, s))):
        bad = _judge(pub, q, z, r2, s2, what=f"verify with a {type(sig).__name__} object", sig=sig)
        if bad:
            return bad
        if (sig.r, sig.s) != (r2, s2):
            return "verify changed the signature object it was given"
    # the module constant G as the public key (secret 1): u*G + v*G with `self is G`
    g_before = _xy(pecc.G)
    r1, s1 = ecref.ecdsa_sign(1, z)
    for tup in ((z, r1, s1), (z, r1, s1 + 1)):
        bad = _judge(pecc.G, ecref.G, *tup, what="verify on the module constant G")
        if bad:
            return bad
    if _xy(pecc.G) != g_before or g_before != ecref.G or _xy(E.G) != ecref.G:
        return "the module constant G changed"
    return None


def p_wire_ref(sec, z, r, s):
    """(c)/(d)/(e) S256Point.parse(sec) on hand-built encodings judged by an independent decoder: a string that is
    not the encoding of a curve point (coordinate >= p — also when it is a point after reduction —, wrong prefix for
    its length, hybrid prefix, x without a point) must be refused; on a key, verify answers like textbook ECDSA."""
    ref = _ref_pub(sec)
    try:
        pt = S256Point.parse(sec)
    except ImplTimeout:
        raise
    except Exception as e:  # noqa
        if ref[0] == "key":
            return f"S256Point.parse refuses the valid public key {sec.hex()}: {e!r}"
        return None
    if ref[0] != "key":
        return f"S256Point.parse accepts {sec.hex()}, which is not the encoding of a point of secp256k1, as {_xy(pt)}"
    if _xy(pt) != ref[1]:
        return f"S256Point.parse({sec.hex()}) is {_xy(pt)}, the encoded point is {ref[1]}"
    bad = _judge(pt, ref[1], z, r, s, what="key parsed from " + sec.hex())
    if bad:
        return bad
    if ref[1] is not None:
        for compressed in (True, False):
            if pt.sec(compressed) != _sec(ref[1], compressed):
                return f"sec(compressed={compressed}) of the parsed key is not the encoding of the point"
    return None


def p_fail_retry(d, z):
    """(g) failure paths followed by a retry, and sources used again after a result was produced: a refused secret /
    digest / point / SEC string / DER string / DER integer must leave nothing behind that changes the next answer;
    objects handed to sign / verify are unchanged afterwards."""
    q = ecref.mul(d, ecref.G)
    want = ecref.ecdsa_sign(d, z)
    enc = ecref.der(*want)

    def refused(f, *a):
        try:
            f(*a)
        except ImplTimeout:
            raise
        except Exception:  # noqa
            return True
        return False
    # (refusal itself is demanded where another predicate / the model demands it too: secrets, points, SEC and DER
    # strings; out-of-domain digests and DER integers are only required not to disturb the next call)
    for bad_d in (0, N, -d):
        if not refused(PrivateKey, bad_d):
            return f"PrivateKey({bad_d}) is accepted"
    key = PrivateKey(d)
    for bad_z in (TWO256 + N, -1 - z, TWO256 + N + z):
        refused(key.sign, bad_z)
        refused(key.deterministic_k, bad_z)
        try:
            sig = key.sign(z)
        except ImplTimeout:
            raise
        except Exception as e:  # noqa
            return f"sign({z}) after a refused sign({bad_z}) on the same key raises {e!r}"
        if (sig.r, sig.s) != want:
            return f"sign({z}) after a refused sign({bad_z}) gives ({sig.r}, {sig.s}), reference {want}"
    if key.secret != d or _xy(key.point) != q:
        return "the key object changed"
    for bad_b in (enc[:-1], enc + b"\x00", b"", enc[:3] + bytes([enc[3] + 1]) + enc[4:], b"\x31" + enc[1:]):
        if not refused(Signature.parse, bad_b):
            return f"Signature.parse accepts {bad_b.hex()}"
        back = Signature.parse(enc)
        if (back.r, back.s) != want:
            return f"Signature.parse of a good string after the refused {bad_b.hex()} gives ({back.r}, {back.s})"
    sg = Signature(TWO256 + want[0], want[1])
    refused(sg.der)
    sg.r = want[0]
    if sg.der() != enc:
        return "der() after a refused der() and the repair of r in place is not the canonical encoding"
    sg.s = -want[1]
    refused(sg.der)
    sg.s = want[1]
    if sg.der() != enc:
        return "der() after a refused der() and the repair of s in place is not the canonical encoding"
    for pv in ([q[0], (q[1] + 1) % P], [q[0] + P, q[1]], [q[1], q[0]]):
        if not refused(S256Point, *pv):
            return f"S256Point({pv[0]}, {pv[1]}) is accepted"
    for sec in (_sec(q, True)[:-2], _sec(q, True) + b"\x00", b"\x04" + _sec(q, True)[1:], b"\x02" + _sec(q, False)[1:], b"\x05" + _sec(q, True)[1:]):
        if not refused(S256Point.parse, sec):
            return f"S256Point.parse accepts {sec.hex()}"
    pub = S256Point.parse(_sec(q, d % 2 == 0))
    if _xy(pub) != q:
        return "S256Point.parse after refused strings gives another point"
    # rejected tuples first, then the valid one, then a rejected one again — on ONE point and ONE signature object
    sg = Signature(0, want[1])
    for (r2, s2) in ((0, want[1]), (want[0], 0), (want[0], N), (want[0] + N, want[1]), want, (want[0], want[1] + N), want):
        sg.r, sg.s = r2, s2
        bad = _judge(pub, q, z, r2, s2, what=f"verify #{(r2, s2) == want} in a reject / accept history", sig=sg)
        if bad:
            return bad
        if (sg.r, sg.s) != (r2, s2) or _xy(pub) != q:
            return "verify changed its arguments"
    return None


PROPS = {"sign": p_sign, "verify_ref": p_verify_ref, "sign_k": p_sign_k, "der_rt": p_der_rt,
         "key_reuse": p_key_reuse, "det_k": p_det_k, "det_k_hm": p_det_k_hm, "bad_secret": p_bad_secret,
         "api_roundtrip": p_api_roundtrip, "msg_roundtrip": p_msg_roundtrip, "twin": p_twin,
         "dup_digest": p_dup_digest, "der_strictness": p_der_strictness, "det_k_calls": p_det_k_calls,
         "alt_entry": p_alt_entry, "wire_ref": p_wire_ref, "fail_retry": p_fail_retry}

# ---- time limits.  The engine arms a 60 s (IMPL) / 120 s (PROPS) alarm per case; the calls of this module take
# milliseconds (DER, HMAC) to a few tenths of a second (one scalar multiplication), so a non-terminating loop in
# the implementation is cut off much earlier, and a function that hung twice is not waited for again (it is
# reported as hanging at once): otherwise a hang costs minutes per case, also while the engine shrinks the input.
_HANGS = {}


def _timed(name, fn, limit_s):
    def run(*args):
        if _HANGS.get(name, 0) >= 2:
            raise ImplTimeout()
        if signal.getitimer(signal.ITIMER_REAL)[0] > limit_s:       # only ever shorten an armed alarm
            signal.setitimer(signal.ITIMER_REAL, limit_s)
        try:
            return fn(*args)
        except ImplTimeout:
            _HANGS[name] = _HANGS.get(name, 0) + 1
            raise
    run.__doc__ = fn.__doc__
    return run


_LIMITS = {"det_k": 10, "det_k_weak": 10, "rfc6979": 10, "rfc6979_weak": 10, "der": 10, "der_parse": 10,
           "sign_k": 40, "sign": 40, "pubkey": 40, "verify": 40, "ecdsa_ok": 40,
           "sign_der": 40, "sign_message": 40, "sign_message_der": 40, "verify_der": 40, "verify_message": 40,
           "verify_message_der": 40, "verify_wire": 40, "der_reencode": 10, "rfc6979_seq": 10, "rfc6979_seq_weak": 10}
_PLIMITS = {"der_rt": 10, "det_k": 10, "det_k_hm": 20, "sign": 60, "sign_k": 60, "verify_ref": 40, "bad_secret": 40,
            "api_roundtrip": 90, "msg_roundtrip": 90, "twin": 90, "dup_digest": 90, "der_strictness": 10,
            "det_k_calls": 20, "alt_entry": 110, "wire_ref": 40, "fail_retry": 90}
for _n, _l in _LIMITS.items():
    IMPL[_n] = _timed(_n, IMPL[_n], _l)
for _n, _l in _PLIMITS.items():
    PROPS[_n] = _timed("prop:" + _n, PROPS[_n], _l)

# ---------------------------------------------------------------- generators

SECRETS = [1, 2, N - 1, N - 2, 2 ** 128, 2 ** 128 - 1, 2 ** 128 + 1, 2 ** 255, 2 ** 255 - 1, 2 ** 255 + 1]
DIGESTS = [0, 1, N - 1, N, N + 1, TWO256 - 1, 2 ** 255, 2 ** 128]
BAD_SECRETS = [0, -1, N, N + 1, TWO256 - 1, TWO256]
BAD_DIGESTS = [-1, TWO256, TWO256 + N - 1, TWO256 + N, 2 * N, 2 * N - 1]


def rscalar(r):
    c = r.random()
    if c < 0.1:
        return r.choice(SECRETS)
    if c < 0.2:
        return r.getrandbits(r.randrange(1, 256)) % (N - 1) + 1
    return r.randrange(1, N)


def rdigest(r):
    c = r.random()
    if c < 0.1:
        return r.choice(DIGESTS)
    if c < 0.2:
        return r.getrandbits(r.randrange(1, 257))
    if c < 0.25:
        return r.randrange(N, TWO256)
    return r.getrandbits(256)


def mutations(r, q, q2, z, rr, s):
    """the catalogue of the property's quantifier, around one valid (q, z, rr, s)"""
    pv, pv2 = list(q), list(q2)
    yield "valid", (pv, z, rr, s)
    yield "high-s-twin", (pv, z, rr, N - s)
    yield "z+1", (pv, (z + 1) % TWO256, rr, s)
    yield "z-1", (pv, (z - 1) % TWO256, rr, s)
    yield "z+n", (pv, z + N, rr, s)          # same residue: still valid
    yield "other-key", (pv2, z, rr, s)
    yield "neg-key", ([q[0], P - q[1]], z, rr, s)
    yield "r+1", (pv, z, rr + 1, s)
    yield "r-1", (pv, z, rr - 1, s)
    yield "s+1", (pv, z, rr, s + 1)
    yield "s-1", (pv, z, rr, s - 1)
    yield "r=0", (pv, z, 0, s)
    yield "s=0", (pv, z, rr, 0)
    yield "r=n", (pv, z, N, s)
    yield "s=n", (pv, z, rr, N)
    yield "r+n", (pv, z, rr + N, s)
    yield "s+n", (pv, z, rr, s + N)
    yield "r-n", (pv, z, rr - N, s)
    yield "s-n", (pv, z, rr, s - N)
    yield "r=2^256-1", (pv, z, TWO256 - 1, s)
    yield "s=2^256-1", (pv, z, rr, TWO256 - 1)
    yield "swap", (pv, z, s, rr)
    yield "bitflip-s", (pv, z, rr, s ^ (1 << r.randrange(256)))
    yield "bitflip-r", (pv, z, rr ^ (1 << r.randrange(256)), s)
    yield "infinity-key", ([], z, rr, s)


def high_x_tuple(r):
    """a VALID tuple whose R = u1*G + u2*Q has x(R) in [n, p): r = x(R) - n.  Choose R, r, s, z and solve
    for the public key  Q = r^-1 (s R - z G)."""
    while True:
        x = N + r.randrange(0, P - N)
        pt = ecref.lift_x(x)
        if pt is not None:
            break
    if r.random() < 0.5:
        pt = ecref.neg(pt)
    rr = x - N
    s = r.randrange(1, N)
    z = r.getrandbits(256)
    q = ecref.mul(pow(rr, -1, N), ecref.add(ecref.mul(s, pt), ecref.neg(ecref.mul(z, ecref.G))))
    return q, z, rr, s, x


def low_s_gap_case(r, d, k):
    """(d, z, k) such that the raw s = (z + r d)/k lies in (n/2, 2^255] — the window in which the float
    comparison `s > N / 2` was false; solved for z."""
    rr = ecref.mul(k, ecref.G)[0]
    lo, hi = N // 2 + 1, 2 ** 255
    s_raw = r.choice([lo, hi, r.randrange(lo, hi + 1), r.randrange(lo, hi + 1)])
    z = (s_raw * k - rr * d) % N
    return z, s_raw


def solve_key(pt, rr, s, z):
    """the public key under which (z, rr, s) is valid with the chosen point R = pt:  Q = r^-1 (s R - z G)"""
    return ecref.mul(pow(rr, -1, N), ecref.add(ecref.mul(s, pt), ecref.neg(ecref.mul(z, ecref.G))))


def forge(q, u1, u2):
    """a valid (z, r, s) for an ARBITRARY public key q (no secret needed): R = u1 G + u2 Q, r = x(R) mod n,
    s = r / u2, z = u1 s.  None when R is at infinity or r = 0."""
    pt = ecref.add(ecref.mul(u1, ecref.G), ecref.mul(u2, q))
    if pt is None or pt[0] % N == 0:
        return None
    rr = pt[0] % N
    s = rr * pow(u2, -1, N) % N
    return u1 * s % N, rr, s


def boundary_r_points(quick):
    """(label, x, r): points R = lift_x(x) whose r = x mod n sits at an end of [1, n-1] or of the x >= n window"""
    groups = (("r-small", range(1, 10), 4), ("r-small/x=r+n", range(N + 1, N + 12), 3),
              ("r-below-n", range(N - 1, N - 10, -1), 3), ("x-below-p", range(P - 1, P - 11, -1), 2))
    for name, xs, k in groups:
        got = 0
        for x in xs:
            if ecref.lift_x(x) is not None:
                yield name, x, x % N
                got += 1
                if quick and got >= k:
                    break


S_EDGES = [1, N - 1, 2, N - 2, (N - 1) // 2, (N + 1) // 2]


def der_class_ints(r):
    """integers of every byte length 1..32 x leading byte {01, 7e, 7f, 80, 81, ff} x second byte {00, 7f, 80, ff}"""
    out = []
    for ln in range(1, 33):
        for top in (0x01, 0x7e, 0x7f, 0x80, 0x81, 0xff):
            if ln == 1:
                out.append(top)
                continue
            for second in (0x00, 0x7f, 0x80, 0xff):
                c = r.random()
                tail = bytes(ln - 2) if c < 0.15 else b"\xff" * (ln - 2) if c < 0.3 else \
                    bytes(r.getrandbits(8) for _ in range(ln - 2))
                out.append(int.from_bytes(bytes([top, second]) + tail, "big"))
    return out


def raw_der(rb, sb):
    """a DER-shaped string around two RAW integer bodies (canonical or not)"""
    body = b"\x02" + bytes([len(rb) % 256]) + rb + b"\x02" + bytes([len(sb) % 256]) + sb
    return b"\x30" + bytes([len(body) % 256]) + body


def edge_trace(d, z, salt):
    """reference run of RFC 6979 with the boundary HMAC: (k, classes of the candidates it went through)"""
    log = []
    k = ecref.rfc6979_k(d, z.to_bytes(32, "big"), hm=_edge_hm(salt, log))
    names = {N: "n", N - 1: "n-1", 1: "1", 0: "0", N + 1: "n+1", TWO256 - 1: "2^256-1"}
    return k, [names.get(int.from_bytes(c, "big"), "real") for c in log[2::2]]


def der_malformed(r, enc):
    for cut in range(len(enc)):
        yield enc[:cut]
    for i in range(len(enc)):
        yield enc[:i] + bytes([enc[i] ^ (1 << r.randrange(8))]) + enc[i + 1:]
    for i in (1, 3, 5 + enc[3]):
        if i < len(enc):
            for delta in (1, 255, 2, 128):
                yield enc[:i] + bytes([(enc[i] + delta) % 256]) + enc[i + 1:]
    yield enc + b"\x00"
    yield enc + enc
    yield b"\x30" + bytes([len(enc) - 1]) + enc[2:] + b"\x00"
    yield enc[:3] + b"\x00" + enc[4:]          # rlength 0
    yield b"\x30\x06\x02\x01\x01\x02\x01\x01"
    yield b"\x30\x06\x02\x01\x80\x02\x01\xff"  # "negative" integers: parsed as positive
    yield b"\x30\x08\x02\x02\x00\x01\x02\x02\x00\x01"  # superfluous zeros: accepted by the parser
    yield b"\x30\x04\x02\x00\x02\x00"
    yield b"\x31\x06\x02\x01\x01\x02\x01\x01"
    yield b"\x30\x06\x03\x01\x01\x02\x01\x01"
    yield b"\x30\x06\x02\x01\x01\x03\x01\x01"


def rfc6979_stages(d, z):
    """the HMAC outputs of the RFC 6979 derivation, in order: K1, V1, K2, V2, T (first candidate)"""
    def hm(k, m):
        return _hmac.new(k, m, hashlib.sha256).digest()
    x, h = d.to_bytes(32, "big"), (z - N if z >= N else z).to_bytes(32, "big")
    v, k = b"\x01" * 32, b"\x00" * 32
    k1 = hm(k, v + b"\x00" + x + h)
    v1 = hm(k1, v)
    k2 = hm(k1, v1 + b"\x01" + x + h)
    v2 = hm(k2, v1)
    return [("K1", k1), ("V1", v1), ("K2", k2), ("V2", v2), ("T", hm(k2, v2))]


def generate(ctx):
    # cheap predicate cases first: when a change breaks many correspondence cases at once the engine stops early,
    # and the failing INPUT must already have been seen by a predicate
    yield from _boundaries_cheap(ctx)
    yield from _generate(ctx)
    yield from _boundaries(ctx)
    yield from _api_cases(ctx)
    r = ctx.rng
    # ---- boundary class: byte strings with leading zero bytes inside the RFC 6979 derivation
    # (a) the 32-byte forms of the secret and of the digest start with 1..31 zero bytes
    signed = 0
    for nz in range(1, 32):
        top = 8 * (32 - nz)
        small = [(1 << (top - 1)) | r.getrandbits(top - 1) for _ in range(2)]
        for d, z in ((small[0], r.getrandbits(256)), (r.randrange(1, N), small[1]), (small[0], small[1])):
            ctx.label("det_k/leading-zero-bytes-in-secret-or-digest")
            yield ("corr", "det_k", [d, z])
            yield ("corr", "rfc6979", [d, z.to_bytes(32, "big")])
            yield ("prop", "det_k", [d, z])
        if nz in (1, 2, 16, 31) or ctx.tier != "quick":
            ctx.label("sign/leading-zero-bytes-in-secret-and-digest")
            yield ("corr", "sign", [small[0], small[1]])
            yield ("prop", "sign", [small[0], small[1]])
    # (b) an HMAC output (K1, V1, K2, V2 or the candidate T) starts with a zero byte: searched for, per stage
    want = {(name, nzb) for name in ("K1", "V1", "K2", "V2", "T") for nzb in (1, 2)}
    found = {}
    for _ in range(ctx.n(200000, 600000)):
        if len(found) == len(want):
            break
        d, z = r.randrange(1, N), r.getrandbits(256)
        for name, out in rfc6979_stages(d, z):
            nzb = len(out) - len(out.lstrip(b"\x00"))
            if nzb and (name, min(nzb, 2)) in want and (name, min(nzb, 2)) not in found:
                found[(name, min(nzb, 2))] = (d, z)
    for (name, nzb), (d, z) in sorted(found.items()):
        ctx.label("det_k/hmac-output-%s-starts-with-%d-zero-byte(s)" % (name, nzb))
        yield ("corr", "det_k", [d, z])
        yield ("corr", "rfc6979", [d, z.to_bytes(32, "big")])
        yield ("prop", "det_k", [d, z])
        if nzb == 1 and name in ("K2", "T"):
            yield ("corr", "sign", [d, z])
            yield ("prop", "sign", [d, z])
    yield from _audit_cases(ctx)


def _small_y_point():
    """a curve point whose y is so small that y + p still fits in 32 bytes (p = 7 mod 9: cube roots by one power)"""
    for y in range(1, 5000):
        c = (y * y - 7) % P
        x = pow(c, (P + 2) // 9, P)
        if pow(x, 3, P) == c:
            return (x, y)
    return None


def _audit_cases(ctx):
    """Blind-spot audit (entry points x kinds (a)-(g), see the report in DESIGN): deterministic constructed cases"""
    r = ctx.rng
    quick = ctx.tier == "quick"
    # ---- (a)/(b) alternative constructors, optional arguments, re-exports, alternative public-key objects
    alt = [(N - 1, TWO256 - 1, 0, 1), (rscalar(r), rdigest(r) % TWO256, 1, 0)]
    if not quick:
        alt += [(1, 0, 1, 1), (2, N, 0, 0)] + [(rscalar(r), rdigest(r) % TWO256, i & 1, i >> 1 & 1) for i in range(8)]
    for d, z, testnet, compressed in alt:
        ctx.label("audit/alt-entry")
        yield ("prop", "alt_entry", [d, z, testnet, compressed, 0 if quick else 1])
    # ---- (g) failure followed by a retry on the same objects
    for d, z in [(2 ** 128 + 1, N + 1), (rscalar(r), rdigest(r) % TWO256)] + \
            ([] if quick else [(rscalar(r), rdigest(r) % TWO256) for _ in range(10)]):
        ctx.label("audit/fail-then-retry")
        yield ("prop", "fail_retry", [d, z])

    # ---- (c)/(d)/(e) wire forms of special keys: hand-built SEC / x-only strings, tuples forged without a secret
    def forged(q):
        f = None
        while f is None:
            f = forge(q, r.randrange(1, N), r.randrange(1, N))
        return f
    x1, x3, sy = ecref.lift_x(1), ecref.lift_x(3), _small_y_point()
    lz = None
    while lz is None:                                     # x with three leading zero bytes
        lz = ecref.lift_x(r.getrandbits(232))
    wire = []
    for name, q in (("x=1", x1), ("x=1/odd", ecref.neg(x1)), ("x=3", x3), ("x-leading-zero-bytes", ecref.neg(lz)),
                    ("small-y", sy)):
        z, rr, s = forged(q)
        forms = [("compressed", _sec(q, True)), ("uncompressed", _sec(q, False)), ("xonly", q[0].to_bytes(32, "big"))]
        for fname, sec in (forms if not quick or name in ("x=1", "small-y") else forms[len(name) % 3:][:1]):
            wire.append(("%s/%s" % (name, fname), sec, z, rr, s))
        if name == "x=1/odd":
            wire.append((name + "/other-parity-prefix", b"\x02" + _sec(q, True)[1:], z, rr, s))
    z, rr, s = forged(x1)
    # arithmetic compensation: coordinates that are a point only after reduction mod p
    wire.append(("compensated/compressed-x+p", b"\x02" + (1 + P).to_bytes(32, "big"), z, rr, s))
    wire.append(("compensated/uncompressed-x+p", b"\x04" + (1 + P).to_bytes(32, "big") + x1[1].to_bytes(32, "big"), z, rr, s))
    wire.append(("compensated/xonly-x+p", (1 + P).to_bytes(32, "big"), z, rr, s))
    wire.append(("compensated/xonly-p", P.to_bytes(32, "big"), z, rr, s))
    zs, rs, ss = forged(sy)
    wire.append(("compensated/uncompressed-y+p", b"\x04" + sy[0].to_bytes(32, "big") + (sy[1] + P).to_bytes(32, "big"),
                 zs, rs, ss))
    # prefix / length coincidences
    wire.append(("prefix-04-length-33", b"\x04" + _sec(x1, True)[1:], z, rr, s))
    wire.append(("prefix-02-length-65", b"\x02" + _sec(x1, False)[1:], z, rr, s))
    wire.append(("prefix-03-length-65", b"\x03" + _sec(x1, False)[1:], z, rr, s))
    wire.append(("hybrid-06", b"\x06" + _sec(x1, False)[1:], z, rr, s))
    wire.append(("hybrid-07", b"\x07" + _sec(ecref.neg(x1), False)[1:], z, rr, s))
    wire.append(("prefix-00", b"\x00" + _sec(x1, True)[1:], z, rr, s))
    wire.append(("uncompressed-x-y-swapped", b"\x04" + x1[1].to_bytes(32, "big") + x1[0].to_bytes(32, "big"), z, rr, s))
    wire.append(("uncompressed-y=0", b"\x04" + _sec(x1, True)[1:] + bytes(32), z, rr, s))
    wire.append(("x-without-a-point/compressed", b"\x03" + (5).to_bytes(32, "big"), z, rr, s))
    wire.append(("x-without-a-point/xonly", (5).to_bytes(32, "big"), z, rr, s))
    wire.append(("all-ff/33", b"\xff" * 33, z, rr, s))
    wire.append(("all-ff/32", b"\xff" * 32, z, rr, s))
    wire.append(("all-ff/65", b"\xff" * 65, z, rr, s))
    wire.append(("all-zero/33", bytes(33), z, rr, s))
    wire.append(("all-zero/65", bytes(65), z, rr, s))
    wire.append(("x=0/compressed", b"\x02" + bytes(32), z, rr, s))
    # 32 zero bytes: the point at infinity; a tuple forged for it (r = x(u G), z = u s) and its neighbour
    u, s0 = r.randrange(1, N), r.randrange(1, N)
    ri = ecref.mul(u, ecref.G)[0] % N
    wire.append(("xonly-zero(infinity)/forged", bytes(32), u * s0 % N, ri, s0))
    wire.append(("xonly-zero(infinity)/forged/z+1", bytes(32), (u * s0 + 1) % N, ri, s0))
    for name, sec, z, rr, s in wire:
        ctx.label("audit/wire/" + name.split("/")[0])
        yield ("prop", "wire_ref", [sec, z, rr, s])
        if _ref_pub(sec)[0] == "bad" or name.startswith(("xonly-zero", "small-y/uncompressed", "x=1/compressed")):
            yield ("corr", "verify_wire", [sec, z, ecref.der(rr, s)])       # parsing only / a few full ones

    # ---- (c) coincidences of two fields in verify: r == s, z == 0, z == r (u1 == u2), z == s, secret == digest
    d, k = rscalar(r), r.randrange(1, N)
    q = ecref.mul(d, ecref.G)
    rk = ecref.mul(k, ecref.G)[0] % N
    z0, r0, s0 = forge(q, 0, 1)
    u = r.randrange(1, N)
    same = [("r=s,z=0(u1=0,u2=1)", (list(q), z0, r0, s0)), ("r=s,z=0/twin", (list(q), z0, r0, N - s0)),
            ("r=s,z=n", (list(q), N, r0, s0)), ("z=r(u1=u2)", (list(q),) + forge(q, u, u)),
            ("r=s", (list(q), rk * (k - d) % N, rk, rk)),
            ("z=s", (list(q), rk * d * pow(k - 1, -1, N) % N, rk, rk * d * pow(k - 1, -1, N) % N)),
            ("r=s/not-valid", (list(q), z0 + 1, r0, s0))]
    for name, tup in same:
        yield from _vcases(ctx, "coincidence/" + name, tup)
    ctx.label("audit/secret=digest")
    yield ("corr", "sign", [d, d])
    yield ("prop", "sign", [d, d])

    # ---- (d) byte classes of the 32-byte strings fed to HMAC: all 01 (= the initial V), all 00 (= the initial K),
    # all ff, all 7f / 80, one set bit; the digest is all of them, the secret those below n
    cls = [int.from_bytes(bytes([b]) * 32, "big") for b in (0x01, 0x7f, 0x80, 0xff)] + [0, 1 << 255, 1 << 248, 0xff << 248]
    for d in [c for c in cls if 1 <= c < N]:
        for z in cls:
            ctx.label("audit/byte-class/det_k")
            yield ("corr", "det_k", [d, z])
            yield ("prop", "det_k", [d, z])
    v01 = cls[0]
    for d, z in [(v01, v01), (v01, 0), (cls[1], cls[3])] + ([] if quick else [(d, z) for d in cls[:3] for z in cls]):
        ctx.label("audit/byte-class/sign")
        yield ("corr", "sign", [d, z])
        yield ("prop", "sign", [d, z])
    # messages: empty, one zero byte, 32 zero bytes (looks like a digest), long, all ff
    msgs = [b"", b"\x00", bytes(32), b"\xff" * 1000, b"\x01" * 32]
    for i, m in enumerate(msgs):
        ctx.label("audit/byte-class/message")
        yield ("corr", "sign_message", [v01 + i, m])
    yield ("prop", "msg_roundtrip", [v01, b"", b"\x00"])
    if not quick:
        yield ("prop", "msg_roundtrip", [cls[1], bytes(32), b""])
        yield ("prop", "msg_roundtrip", [5, b"\xff" * 1000, b"\xff" * 999])

    # ---- (c)/(e) DER strings whose integer bodies look like DER themselves, and length bytes moved between the two
    # integers so that the total stays right (the outer length check alone cannot see it)
    inner = ecref.der(5, 6)
    enc = ecref.der(r.getrandbits(255) | 1 << 254, r.getrandbits(254) | 1 << 253)
    lr = enc[3]
    rb, sb = enc[4:4 + lr], enc[6 + lr:]

    def framed(lrb, lsb):
        body = b"\x02" + bytes([lrb]) + rb + b"\x02" + bytes([lsb]) + sb
        return b"\x30" + bytes([len(body)]) + body
    strings = [raw_der(inner, inner), raw_der(b"\x02\x01\x01", b"\x30\x06\x02\x01"),
               raw_der(rb + b"\x02\x1e", b"\x02\x1e" + bytes([1]) * 30), raw_der(b"\x02" * 32, b"\x30" * 32),
               raw_der(b"\x00" * 32, b"\x00" * 33), raw_der(b"\xff" * 32, b"\xff" * 33), raw_der(b"\x00", b"\x00"),
               raw_der(b"\x02" + bytes([len(sb)]) + rb[2:], sb)]
    strings += [framed(len(rb) + dr, len(sb) + ds) for dr in range(-2, 3) for ds in range(-2, 3)]
    for b in strings:
        ctx.label("audit/der/nested-and-compensated-lengths")
        yield ("corr", "der_reencode", [b])
        yield ("corr", "der_parse", [b])
        yield ("prop", "der_strictness", [b])


def _sec(q, compressed):
    if compressed:
        return bytes([2 + (q[1] & 1)]) + q[0].to_bytes(32, "big")
    return b"\x04" + q[0].to_bytes(32, "big") + q[1].to_bytes(32, "big")


def _api_cases(ctx):
    """sections 6-10 of Props/C01.v: DER strictness / lengths, RFC 6979 as a sequence, verification algebra,
    and the outer API (Model/EcdsaApi.v) — valid and malformed inputs"""
    r = ctx.rng
    quick = ctx.tier == "quick"
    # ---- RFC 6979 as "first acceptable candidate": nonce AND number of rejected candidates (HMAC call count)
    for i in range(ctx.n(120, 4000)):
        d, z = rscalar(r), rdigest(r) % TWO256
        h1 = z.to_bytes(32, "big")
        yield ("corr", "rfc6979_seq_weak", [d, h1])
        if i % 4 == 0:
            yield ("corr", "rfc6979_seq", [d, h1])
        k, classes = edge_trace(d, z, i % 8)
        ctx.label("det_k_calls/rejected=%d" % min(len(classes) - 1, 3))
        yield ("prop", "det_k_calls", [d, z, i % 8])

    # ---- DER: what parse accepts, and where parse . der is the identity
    strings = []
    vals = der_class_ints(r)
    for a in r.sample(vals, ctx.n(60, len(vals))):
        strings.append(("emitted", ecref.der(a, r.choice(vals))))
    bodies = [b"\x00" * k + bytes([t]) + ctx.rbytes(n) for k in (0, 1, 2) for t in (0x00, 0x01, 0x7f, 0x80, 0xff)
              for n in (0, 1, 31, 32, 33)]
    for rb in bodies:
        strings.append(("raw-bodies", raw_der(rb, r.choice(bodies))))
        strings.append(("raw-bodies", raw_der(r.choice(bodies), rb)))
    for n1, n2 in ((1, 120), (120, 1), (60, 60), (100, 100), (126, 122), (127, 122), (130, 3), (3, 250)):
        strings.append(("long-bodies", raw_der(b"\x01" + ctx.rbytes(n1 - 1), b"\x01" + ctx.rbytes(n2 - 1))))
    base = ecref.der(r.getrandbits(256) or 1, r.getrandbits(255) or 1)
    for bad in der_malformed(r, base):
        strings.append(("malformed", bad))
    for _ in range(ctx.n(60, 2000)):
        strings.append(("random", ctx.rbytes(r.randrange(0, 14))))
        strings.append(("random-framed", b"\x30" + bytes([r.randrange(0, 12)]) + ctx.rbytes(r.randrange(0, 12))))
    for name, b in strings:
        ctx.label("der_strictness/" + name)
        yield ("corr", "der_reencode", [b])
        yield ("prop", "der_strictness", [b])

    # ---- the outer API: sign(z).der() / sign_message / verify from DER / from the wire
    pairs = [(1, 0), (N - 1, TWO256 - 1), (2 ** 255, N)] + [(rscalar(r), rdigest(r) % TWO256) for _ in range(ctx.n(3, 40))]
    for i, (d, z) in enumerate(pairs):
        q = ecref.mul(d, ecref.G)
        rr, s = ecref.ecdsa_sign(d, z)
        enc = ecref.der(rr, s)
        ctx.label("api/sign_der")
        yield ("corr", "sign_der", [d, z])
        yield ("prop", "api_roundtrip", [d, z])
        yield ("corr", "verify_der", [list(q), z, enc])
        rb, sb = enc[4:4 + enc[3]], enc[6 + enc[3]:]
        variants = [("padded-r", raw_der(b"\x00" + rb, sb)), ("padded-s", raw_der(rb, b"\x00\x00" + sb)),
                    ("high-s-twin", ecref.der(rr, N - s)), ("truncated", enc[:-1]), ("trailing", enc + b"\x00"),
                    ("wrong-length-byte", enc[:1] + bytes([enc[1] ^ 1]) + enc[2:]), ("empty", b""),
                    ("swapped", ecref.der(s, rr))]
        for name, e in (variants if not quick else [variants[(3 * i + j) % len(variants)] for j in range(3)]):
            ctx.label("api/verify_der/" + name)
            yield ("corr", "verify_der", [list(q), z, e])
        yield ("corr", "verify_der", [list(q), (z + 1) % TWO256, enc])
        wire = [("sec-compressed", _sec(q, True)), ("sec-uncompressed", _sec(q, False)),
                ("xonly", q[0].to_bytes(32, "big")), ("other-parity", bytes([5 - _sec(q, True)[0]]) + _sec(q, True)[1:]),
                ("bad-prefix", b"\x05" + _sec(q, True)[1:]), ("short", _sec(q, True)[:-1]),
                ("off-curve", b"\x04" + q[0].to_bytes(32, "big") + ((q[1] + 1) % P).to_bytes(32, "big")),
                ("x>=p", b"\x02" + (P + 1).to_bytes(32, "big")), ("empty", b"")]
        for name, sec in (wire if not quick or i == 0 else wire[:2] + [wire[2 + (2 * i + j) % 7] for j in range(2)]):
            ctx.label("api/verify_wire/" + name)
            yield ("corr", "verify_wire", [sec, z, enc])
        m, m2 = ctx.rbytes(r.randrange(0, 80)), ctx.rbytes(r.randrange(1, 40))
        zm = _h256int(m)
        mr, ms = ecref.ecdsa_sign(d, zm)
        ctx.label("api/message")
        yield ("corr", "sign_message", [d, m])
        yield ("corr", "sign_message_der", [d, m])
        yield ("corr", "verify_message", [list(q), m, mr, ms])
        yield ("corr", "verify_message", [list(q), m2, mr, ms])
        yield ("corr", "verify_message", [list(q), m, mr, N - ms])
        yield ("corr", "verify_message_der", [list(q), m, ecref.der(mr, ms)])
        yield ("corr", "verify_message_der", [list(q), m, ecref.der(mr, ms)[:-2]])
        yield ("prop", "msg_roundtrip", [d, m, m2])
    for d in BAD_SECRETS:
        ctx.label("api/bad-secret")
        yield ("corr", "sign_der", [d, 12345])
        yield ("corr", "sign_message", [d, b"abc"])
    for z in BAD_DIGESTS:
        ctx.label("api/bad-digest")
        yield ("corr", "sign_der", [3, z])

    # ---- verification algebra: twin (r, n - s) for every r, s; digest mod n; the second digest; infinity key
    for i in range(ctx.n(7, 42)):
        d, z = rscalar(r), rdigest(r) % TWO256
        q = list(ecref.mul(d, ecref.G))
        rr, s = ecref.ecdsa_sign(d, z)
        tup = [(q, z, rr, s), (q, z, rr, 0), (q, z, rr, N), (q, z, rr, -s), (q, z, r.randrange(1, N), r.randrange(1, N)),
               (q, z, rr, s + N), ([], z, rr, s)][i % 7]
        ctx.label("twin/" + ["valid", "s=0", "s=n", "s<0", "random", "s+n", "infinity-key"][i % 7])
        yield ("prop", "twin", list(tup))
        yield ("corr", "verify", [tup[0], tup[1], tup[2], N - tup[3]])
    for _ in range(ctx.n(3, 20)):
        d, z = rscalar(r), rdigest(r) % TWO256
        q = list(ecref.mul(d, ecref.G))
        rr, s = ecref.ecdsa_sign(d, z)
        z2 = (-z - 2 * rr * d) % N
        yield ("prop", "dup_digest", [d, z])
        yield from _vcases(ctx, "second-digest(-z-2rd)/accepted", (q, z2, rr, s))
        yield from _vcases(ctx, "second-digest(-z-2rd)/+1", (q, (z2 + 1) % N, rr, s))
    for _ in range(ctx.n(2, 12)):
        z, s = rdigest(r), r.randrange(1, N)
        pt = ecref.mul(z * pow(s, -1, N) % N, ecref.G)
        if pt is None or pt[0] % N == 0:
            continue
        yield from _vcases(ctx, "infinity-key/forged-without-a-secret", ([], z, pt[0] % N, s))
        yield from _vcases(ctx, "infinity-key/forged/r+1", ([], z, pt[0] % N + 1, s))


def _vcases(ctx, label, tup):
    ctx.label("verify/" + label)
    yield ("corr", "verify", list(tup))
    yield ("corr", "ecdsa_ok", list(tup))
    yield ("prop", "verify_ref", list(tup))


def _boundaries_cheap(ctx):
    """constructed inputs on both sides of every comparison in deterministic_k / der (no curve arithmetic)"""
    r = ctx.rng
    # ---- RFC 6979 nonce: the property predicate on the whole boundary cross product
    for d in SECRETS:
        for z in DIGESTS:
            yield ("prop", "det_k", [d, z])
    # ---- RFC 6979 candidate test and retry step, driven by an HMAC with boundary outputs
    for i in range(ctx.n(160, 4000)):
        d, z, salt = rscalar(r), rdigest(r), i % 8
        k, classes = edge_trace(d, z, salt)
        for c in classes[:-1]:
            ctx.label("det_k_hm/candidate-%s-rejected" % c)
        ctx.label("det_k_hm/candidate-%s-accepted" % classes[-1])
        ctx.label("det_k_hm/retries=%d" % min(len(classes) - 1, 3))
        yield ("prop", "det_k_hm", [d, z, salt])

    # ---- DER: every byte length x leading byte class x second byte class, in both positions
    vals = der_class_ints(r)
    perm = vals[:]
    r.shuffle(perm)
    for a, b in zip(vals, perm):
        ctx.label("der/int-length-and-leading-byte-classes")
        yield ("corr", "der", [a, b])
        yield ("prop", "der_rt", [a, b])
        yield ("corr", "der_parse", [ecref.der(a, b)])
    for a in (TWO256 + 1, 2 ** 263, 2 ** 264 - 1, 2 ** 264):           # 33 bytes and more: to_bytes refuses
        yield ("corr", "der", [a, 5])
        yield ("corr", "der", [5, a])
        ctx.label("der/error-branch")
    # parser on bodies the encoder never emits: superfluous zero bytes, 33 / 34 byte integers, top bit set
    bodies = [b"\x00" * k + bytes([t]) + ctx.rbytes(n) for k in (0, 1, 2) for t in (0x01, 0x7f, 0x80, 0xff)
              for n in (0, 1, 30, 31, 32, 33)]
    for rb in bodies:
        sb = r.choice(bodies)
        yield ("corr", "der_parse", [raw_der(rb, sb)])
        yield ("corr", "der_parse", [raw_der(sb, rb)])
        ctx.label("der_parse/non-canonical-integer-bodies")



def _boundaries(ctx):
    """constructed inputs on both sides of every comparison in sign / verify"""
    r = ctx.rng
    quick = ctx.tier == "quick"
    # ---- chosen nonce: raw s on both sides of n/2, of 1 and of n - 1
    half = N // 2
    for s_raw in (half - 1, half, half + 1, half + 2, 1, 2, N - 1, N - 2, 2 ** 255 - 1, 2 ** 255, 2 ** 255 + 1):
        d, k = rscalar(r), r.randrange(1, N)
        z = (s_raw * k - ecref.mul(k, ecref.G)[0] * d) % N
        if r.random() < 0.5 and z + N < TWO256:
            z += N
        ctx.label("sign_k/raw-s-at-a-boundary")
        yield ("corr", "sign_k", [d, z, k])
        yield ("prop", "sign_k", [d, z, k])

    # ---- verify: r at the ends of [1, n-1] and of the x(R) >= n window (public key solved for)
    for i, (name, x, rr) in enumerate(boundary_r_points(quick)):
        pt = ecref.lift_x(x)
        if i % 2:
            pt = ecref.neg(pt)
        s = S_EDGES[i % len(S_EDGES)] if i % 3 else r.randrange(1, N)
        z = r.choice([0, N - 1, TWO256 - 1]) if i % 4 == 0 else r.getrandbits(256)
        q = list(solve_key(pt, rr, s, z))
        yield from _vcases(ctx, name + "/valid", (q, z, rr, s))
        yield from _vcases(ctx, name + "/r-1", (q, z, rr - 1, s))
        yield from _vcases(ctx, name + "/r+1", (q, z, rr + 1, s))
        if x != rr:
            yield from _vcases(ctx, name + "/r=x", (q, z, x, s))
        elif x + N < P:
            yield from _vcases(ctx, name + "/r+n", (q, z, x + N, s))
    # ---- verify: s at the ends of [1, n-1] and around n/2 (textbook ECDSA accepts high s); z solved for
    for s0 in S_EDGES[1:]:
        d, k = rscalar(r), rscalar(r)
        rr = ecref.mul(k, ecref.G)[0] % N
        z = (s0 * k - rr * d) % N
        q = list(ecref.mul(d, ecref.G))
        yield from _vcases(ctx, "s-edge/valid", (q, z, rr, s0))
        yield from _vcases(ctx, "s-edge/s+1", (q, z, rr, s0 + 1))
        yield from _vcases(ctx, "s-edge/n-s", (q, z, rr, N - s0))
    # ---- verify: u1 G + u2 Q at infinity (z = -r d), and u1 G = u2 Q (z = r d: the doubling branch of the addition)
    for _ in range(ctx.n(2, 20)):
        d, rr, s = rscalar(r), r.randrange(1, N), r.randrange(1, N)
        q = list(ecref.mul(d, ecref.G))
        yield from _vcases(ctx, "R-at-infinity", (q, (-rr * d) % N, rr, s))
        k = r.randrange(1, N)
        rr = ecref.mul(k, ecref.G)[0] % N
        s = 2 * rr * d * pow(k, -1, N) % N
        yield from _vcases(ctx, "u1G=u2Q/valid", (q, rr * d % N, rr, s))
        yield from _vcases(ctx, "u1G=u2Q/s+1", (q, rr * d % N, rr, (s + 1) % N))
    # ---- verify: structured public keys (tiny x, x next to p, G, -G, 2G) with tuples forged from (u1, u2)
    keys = [("x=1", ecref.lift_x(1)), ("x=2", ecref.neg(ecref.lift_x(2))), ("x=3", ecref.lift_x(3)),
            ("x=p-3", ecref.lift_x(P - 3)), ("G", ecref.G), ("-G", ecref.neg(ecref.G)), ("2G", ecref.mul(2, ecref.G))]
    if quick:
        keys = keys[:1] + r.sample(keys[1:], 3)
    for name, q in keys:
        f = None
        while f is None:
            u1 = 0 if name == "x=1" else r.randrange(1, N)       # u1 = 0: a valid tuple with z = 0
            f = forge(q, u1, r.randrange(1, N))
        z, rr, s = f
        yield from _vcases(ctx, "key-" + name + "/valid", (list(q), z, rr, s))
        yield from _vcases(ctx, "key-" + name + "/z+1", (list(q), z + 1, rr, s))
        yield from _vcases(ctx, "key-" + name + "/neg-key", ([q[0], P - q[1]], z, rr, s))
    # coordinates that are field elements only after reduction: not public keys
    for pv in ([ecref.GX + P, ecref.GY], [ecref.GX, ecref.GY + P], [ecref.GX - P, ecref.GY], [ecref.GX, ecref.GY - P]):
        yield ("corr", "verify", [pv, 1, 1, 1])
        yield ("prop", "verify_ref", [pv, 1, 1, 1])
        ctx.label("verify/key-coordinate-not-reduced")


def _generate(ctx):
    r = ctx.rng
    # ---- RFC 6979 nonce: cheap (no curve arithmetic), so sweep widely
    for d in SECRETS + BAD_SECRETS:
        for z in DIGESTS + BAD_DIGESTS:
            yield ("corr", "det_k", [d, z])
            if 0 <= z < TWO256 and 0 <= d < TWO256:     # the domain of the RFC transcription
                yield ("corr", "rfc6979", [d, z.to_bytes(32, "big")])
            ctx.label("det_k/z>=n" if z >= N else "det_k/z<n")
    for _ in range(ctx.n(400, 20000)):
        d, z = rscalar(r), rdigest(r)
        yield ("corr", "det_k", [d, z])
        yield ("corr", "rfc6979", [d, z.to_bytes(32, "big")])
    for _ in range(ctx.n(300, 10000)):
        d, z = rscalar(r), rdigest(r)
        yield ("corr", "det_k_weak", [d, z])
        yield ("corr", "rfc6979_weak", [d, z.to_bytes(32, "big")])
        ctx.label("det_k/retry-branch-instance")

    # ---- DER on boundary integers
    ints = [1, 2, 0x7f, 0x80, 0xff, 0x100, 0x7fff, 0x8000, 2 ** 248 - 1, 2 ** 248, 2 ** 255 - 1, 2 ** 255, N - 1, N,
            TWO256 - 1, (N - 1) // 2, (N + 1) // 2]
    for a in ints:
        for b in ints:
            yield ("corr", "der", [a, b])
            yield ("prop", "der_rt", [a, b])
    for a in (0, -1, TWO256, TWO256 + 5):
        yield ("corr", "der", [a, 1])
        yield ("corr", "der", [1, a])
        ctx.label("der/error-branch")
    for _ in range(ctx.n(200, 5000)):
        a = r.getrandbits(r.randrange(1, 257)) or 1
        b = r.getrandbits(r.randrange(1, 257)) or 1
        yield ("corr", "der", [a, b])
        yield ("prop", "der_rt", [a, b])
        yield ("corr", "der_parse", [ecref.der(a, b)])

    # ---- signing: boundary cross product, then random
    pairs = [(d, z) for d in SECRETS for z in DIGESTS]
    if ctx.tier == "quick":
        pairs = [pz for i, pz in enumerate(pairs) if i % 3 == 0] + [(1, N), (N - 1, N), (2, TWO256 - 1)]
    pairs += [(rscalar(r), rdigest(r)) for _ in range(ctx.n(24, 1200))]
    sigs = []
    for d, z in pairs:
        yield ("corr", "sign", [d, z])
        yield ("prop", "sign", [d, z])
        rr, s = ecref.ecdsa_sign(d, z % TWO256)
        sigs.append((d, z, rr, s))
        ctx.label("sign/z>=n" if z >= N else "sign/z<n")
        enc = ecref.der(rr, s)
        yield ("corr", "der", [rr, s])
        yield ("corr", "der_parse", [enc])
        ctx.label(f"der/len={len(enc)}")
    for d in BAD_SECRETS:
        yield ("corr", "sign", [d, 12345])
        yield ("corr", "pubkey", [d])
        yield ("prop", "bad_secret", [d])
        ctx.label("sign/bad-secret")
    for z in BAD_DIGESTS:
        yield ("corr", "sign", [3, z])
        ctx.label("sign/bad-digest")
    for d in SECRETS[:4] + [rscalar(r) for _ in range(ctx.n(4, 100))]:
        yield ("corr", "pubkey", [d])

    # ---- chosen nonce: the low-S window (n/2, 2^255], plus boundary nonces
    for i in range(ctx.n(8, 300)):
        d = rscalar(r)
        k = r.choice([1, 2, N - 1, N - 2]) if i % 4 == 0 else r.randrange(1, N)
        z, s_raw = low_s_gap_case(r, d, k)
        yield ("corr", "sign_k", [d, z, k])
        yield ("prop", "sign_k", [d, z, k])
        ctx.label("sign_k/raw-s-in-(n/2,2^255]")
    for k in (1, 2, N - 1):
        d, z = rscalar(r), rdigest(r)
        yield ("corr", "sign_k", [d, z, k])
        yield ("prop", "sign_k", [d, z, k])
    for k in (0, N):                 # k*G at infinity: AttributeError
        yield ("corr", "sign_k", [5, 7, k])
        ctx.label("sign_k/k=0-mod-n")

    # ---- verification: mutation catalogue around valid signatures
    nmut = ctx.n(5, 100)
    step = max(1, len(sigs) // nmut)
    for d, z, rr, s in sigs[::step][:nmut]:
        q = ecref.mul(d, ecref.G)
        q2 = ecref.mul(rscalar(r), ecref.G)
        for name, (pv, z2, r2, s2) in mutations(r, q, q2, z % TWO256, rr, s):
            ctx.label("verify/" + name)
            yield ("corr", "verify", [pv, z2, r2, s2])
            yield ("corr", "ecdsa_ok", [pv, z2, r2, s2])
            yield ("prop", "verify_ref", [pv, z2, r2, s2])
    # tuples with x(R) >= n: valid with r = x - n; the twin r = x is out of range
    for _ in range(ctx.n(3, 60)):
        q, z, rr, s, x = high_x_tuple(r)
        for name, tup in (("x>=n/valid", (list(q), z, rr, s)), ("x>=n/r=x", (list(q), z, x, s)),
                          ("x>=n/r+1", (list(q), z, rr + 1, s))):
            ctx.label("verify/" + name)
            yield ("corr", "verify", list(tup))
            yield ("corr", "ecdsa_ok", list(tup))
            yield ("prop", "verify_ref", list(tup))
    # valid tuples with a CONSTRUCTED small s (z solved from the signing equation), and their non-canonical twins
    # s + n, which fit below p (and below 2^256) only when s < p - n ~ 2^128.3: no real signature gets there
    for s0 in [1, 2, 0xDEADBEEF, 2 ** 128 + 99, P - N - 1, P - N, P - N + 1, TWO256 - N - 1, TWO256 - N][: ctx.n(9, 9)] + \
            [r.randrange(1, P - N) for _ in range(ctx.n(2, 40))]:
        d, k = rscalar(r), rscalar(r)
        rr = ecref.mul(k, ecref.G)[0] % N
        z = (s0 * k - rr * d) % N
        q = list(ecref.mul(d, ecref.G))
        for name, tup in (("small-s/valid", (q, z, rr, s0)), ("small-s/s+n", (q, z, rr, s0 + N)),
                          ("small-s/s+2n", (q, z, rr, s0 + 2 * N)), ("small-s/r+n", (q, z, rr + N, s0))):
            ctx.label("verify/" + name)
            yield ("corr", "verify", list(tup))
            yield ("corr", "ecdsa_ok", list(tup))
            yield ("prop", "verify_ref", list(tup))
    # keys that are not curve points (constructor raises)
    for pv in ([1, 1], [0, 0], [P, 5], [ecref.GX, ecref.GY + 1], [-1, 2]):
        yield ("corr", "verify", [pv, 1, 1, 1])
        ctx.label("verify/key-not-on-curve")

    # ---- malformed DER
    for d, z, rr, s in sigs[: ctx.n(3, 40)]:
        for bad in der_malformed(r, ecref.der(rr, s)):
            yield ("corr", "der_parse", [bad])
            ctx.label("der_parse/malformed")
    for _ in range(ctx.n(100, 3000)):
        yield ("corr", "der_parse", [ctx.rbytes(r.randrange(0, 12))])

    # ---- state kept across calls: one key / point / signature object through a call history
    for i in range(ctx.n(3, 40)):
        d, d2 = (SECRETS[i % len(SECRETS)] if i % 3 == 2 else rscalar(r)), rscalar(r)
        z0 = r.getrandbits(r.randrange(1, 128))
        zs = [z0, r.choice(DIGESTS) if i % 2 else rdigest(r), z0 + N if i % 3 == 0 else rdigest(r)]
        order = list(range(len(zs)))
        r.shuffle(order)
        order += [order[0], r.randrange(len(zs)), order[1]]
        msgs = [ctx.rbytes(r.randrange(0, 40)), ctx.rbytes(r.randrange(40, 70))]
        ctx.label("reuse/one-key-many-digests")
        if zs[2] == z0 + N:
            ctx.label("reuse/z-and-z+n")
        yield ("prop", "key_reuse", [d, d2, zs, order, msgs])
