"""C12 — taproot output keys commit to the script tree; every leaf is spendable."""
import contextlib
import hashlib
import io

from buidl.ecc import PrivateKey, S256Point
from buidl.script import P2TRScriptPubKey, Script
from buidl.taproot import ControlBlock, TapBranch, TapLeaf, TapScript
from buidl.tx import Tx, TxIn, TxOut
from buidl.witness import Witness

PID = "C12"
RULE = ("Tree shapes: Catalan enumeration of every binary shape with 1..6 leaves (thorough) and sampled shapes "
        "with 1..8 leaves (quick), leaf scripts over all push forms (direct, PUSHDATA1/2, 252/253-byte script "
        "boundary, unserialisable 521-byte push), duplicate leaves, leaf versions 0xc0 and other even/odd values; "
        "internal keys of both parities (small and full-size secrets, x-only lifts); every leaf of every tree; "
        "every single-byte alteration of sampled control blocks and raw leaf scripts, evaluated through "
        "Tx.verify_input; control-block codec at every length class (0, 32, 33, 34, 65, 33+32*128, 33+32*129), "
        "x = 0, x >= p, x not on the curve; tweaked private vs public key for secrets 1, n-1, random.")
RULE += (" Reuse: ONE TapBranch/TapLeaf tree, ControlBlock, Witness, PrivateKey/S256Point object queried repeatedly (different "
         "keys, leaves, scripts, merkle roots, in different orders and twice in a row) with in-place edits of every public "
         "field in between, each answer compared with the BIP341 reference on the current state; tagged hashes called in "
         "sequences over tags that are prefixes of each other.")
TRUSTED = ["hashlib (sha256) — sha256 is a universally quantified function in the theorems",
           "secp256k1 group law, order and primality: the explicit hypothesis scalar_laws C of the algebraic "
           "theorems (instantiated on the toy curve for non-vacuity)",
           "harness-side independent reference (affine secp256k1 arithmetic on ints, BIP341 taproot_tweak / "
           "merkle root) used by the PROPS predicates",
           "modelled, not verified: Script.parse / raw_serialize are the shared Model/Script.v (owner C04)"]
# 256-bit curve arithmetic is never evaluated inside Coq (DESIGN §3): only the hash/codec functions are self-checked
VM_SKIP = ("control_block", "tree_external_pubkey", "cb_parse", "cb_external_pubkey", "tweaked_key",
           "priv_tweaked_key", "pubkey", "witness_control_block", "commit_check",
           "leaf_control_block_default", "witness_tap_leaf", "witness_tap_leaf_hash", "spend_pipeline")
RULE += (" Deepening: ControlBlock.__eq__ (equal / different in each field, the other y above one x, version+parity "
         "sums that coincide, unserialisable operands), TapLeaf.control_block(key) without a leaf argument, "
         "TapScript.tap_leaf(), Witness.tap_leaf() on honest and malformed witnesses, the whole honest pipeline "
         "(build, serialize, parse, ==, commitment check) as one composition per leaf, converse codec round trip "
         "serialize(parse(raw)) == raw on accepted byte strings of every length class, control blocks of the "
         "mirrored tree, perturbed trees (root must change), the .raw-shadowed leaf (known finding).")
ASSUMPTIONS = ["leaf version 0x50 is excluded from honest spends (BIP341 forbids it: the control block would be "
               "taken for an annex); it stays in the codec and recomputation cases",
               "(e + t) mod n = 0 and output key at infinity are side conditions of the theorems (no input exhibits them)"]

# ------------------------------------------------------------------ independent reference
P_ = 2 ** 256 - 2 ** 32 - 977
N_ = 0xFFFFFFFFFFFFFFFFFFFFFFFFFFFFFFFEBAAEDCE6AF48A03BBFD25E8CD0364141
G_ = (0x79BE667EF9DCBBAC55A06295CE870B07029BFCDB2DCE28D959F2815B16F81798,
      0x483ADA7726A3C4655DA4FBFC0E1108A8FD17B448A68554199C47D08FFB10D4B8)


def ref_add(a, b):
    if a is None:
        return b
    if b is None:
        return a
    if a[0] == b[0] and (a[1] + b[1]) % P_ == 0:
        return None
    if a == b:
        lam = 3 * a[0] * a[0] * pow(2 * a[1], -1, P_) % P_
    else:
        lam = (b[1] - a[1]) * pow(b[0] - a[0], -1, P_) % P_
    x = (lam * lam - a[0] - b[0]) % P_
    return (x, (lam * (a[0] - x) - a[1]) % P_)


def ref_mul(k, a):
    k %= N_
    r = None
    for bit in bin(k)[2:] if k else "":
        r = ref_add(r, r)
        if bit == "1":
            r = ref_add(r, a)
    return r


def ref_lift_x(x):
    if x >= P_:
        return None
    c = (pow(x, 3, P_) + 7) % P_
    y = pow(c, (P_ + 1) // 4, P_)
    if y * y % P_ != c:
        return None
    return (x, y if y % 2 == 0 else P_ - y)


def ref_tagged(tag, msg):
    t = hashlib.sha256(tag).digest()
    return hashlib.sha256(t + t + msg).digest()


def ref_compact(n):
    if n < 0xfd:
        return bytes([n])
    if n < 0x10000:
        return b"\xfd" + n.to_bytes(2, "little")
    return b"\xfe" + n.to_bytes(4, "little")


def ref_push(b):
    n = len(b)
    if n <= 75:
        return bytes([n]) + b
    if n < 256:
        return b"\x4c" + bytes([n]) + b
    return b"\x4d" + n.to_bytes(2, "little") + b


def ref_script(cmds):
    return b"".join(bytes([c]) if isinstance(c, int) else ref_push(c) for c in cmds)


def ref_root(tv):
    """BIP341 merkle root of a tree value (scripts built from commands)."""
    if tv[0] == 0:
        raw = ref_script(tv[2][0]) if not tv[2][1] else tv[2][1][0]
        return ref_tagged(b"TapLeaf", bytes([tv[1]]) + ref_compact(len(raw)) + raw)
    a, b = ref_root(tv[1]), ref_root(tv[2])
    if b < a:
        a, b = b, a
    return ref_tagged(b"TapBranch", a + b)


def ref_output(px, root):
    """BIP341 taproot_tweak_pubkey: (parity, x) of lift_x(px) + int(H(px||root))G"""
    p = ref_lift_x(px)
    t = int.from_bytes(ref_tagged(b"TapTweak", px.to_bytes(32, "big") + root), "big")
    q = ref_add(p, ref_mul(t, G_))
    return q


# ------------------------------------------------------------------ value <-> object
def mk_script(sv):
    s = Script(list(sv[0]))
    if sv[1]:
        s.raw = sv[1][0]
    return s


def enc_script(s):
    return [list(s.commands), [] if s.raw is None else [s.raw]]


def mk_leaf(lv):
    return TapLeaf(mk_script(lv[1]), lv[0])


def mk_tree(tv):
    if tv[0] == 0:
        return TapLeaf(mk_script(tv[2]), tv[1])
    return TapBranch(mk_tree(tv[1]), mk_tree(tv[2]))


def enc_tree(t):
    if isinstance(t, TapLeaf):
        return [0, t.tapleaf_version, enc_script(t.tap_script)]
    return [1, enc_tree(t.left), enc_tree(t.right)]


def mk_point(pv):
    return S256Point(None, None) if pv == [] else S256Point(pv[0], pv[1])


def enc_point(p):
    return [] if p.x is None else [p.x.num, p.y.num]


def enc_cb(cb):
    return [cb.tapleaf_version, cb.parity, enc_point(cb.internal_pubkey), list(cb.hashes)]


def mk_cb(cv):
    return ControlBlock(cv[0], cv[1], mk_point(cv[2]), list(cv[3]))


def tree_leaves(tv):
    if tv[0] == 0:
        return [[tv[1], tv[2]]]
    return tree_leaves(tv[1]) + tree_leaves(tv[2])


# ------------------------------------------------------------------ IMPL
def i_path_hashes(tv, lv):
    r = mk_tree(tv).path_hashes(mk_leaf(lv))
    return [] if r is None else [r]


def i_control_block(tv, pv, lv):
    r = mk_tree(tv).control_block(mk_point(pv), mk_leaf(lv))
    return [] if r is None else [enc_cb(r)]


def i_priv_tweaked_key(secret, root):
    pk = PrivateKey(secret).tweaked_key(root)
    return [pk.secret, enc_point(pk.point)]


def i_commit_check(q, items):
    """the commitment part of the witness-v1 script-path branch of Script.evaluate, same calls in the same order"""
    w = Witness(list(items))
    if len(w) == 0:
        return False
    if w.has_annex():
        w.items.pop()
    if len(w) <= 1:
        raise ValueError("key path spend")
    cb = w.control_block()
    ts = w.tap_script()
    tp = cb.external_pubkey(ts)
    if tp.parity != cb.parity:
        return False
    return tp.xonly() == q


def _quiet(f):
    def g(*a):
        with contextlib.redirect_stdout(io.StringIO()):
            return f(*a)
    return g


IMPL = {
    "blt": lambda a, b: a < b,
    "leaf_hash": lambda lv: mk_leaf(lv).hash(),
    "tree_hash": lambda tv: mk_tree(tv).hash(),
    "path_hashes": i_path_hashes,
    "control_block": i_control_block,
    "tree_external_pubkey": lambda tv, pv: enc_point(mk_tree(tv).external_pubkey(mk_point(pv))),
    "cb_serialize": lambda cv: mk_cb(cv).serialize(),
    "cb_parse": lambda b: enc_cb(ControlBlock.parse(b)),
    "cb_merkle_root": lambda cv, sv: mk_cb(cv).merkle_root(mk_script(sv)),
    "cb_external_pubkey": lambda cv, sv: enc_point(mk_cb(cv).external_pubkey(mk_script(sv))),
    "tweak": lambda pv, root: mk_point(pv).tweak(root),
    "tweaked_key": lambda pv, root: enc_point(mk_point(pv).tweaked_key(root)),
    "priv_tweaked_key": i_priv_tweaked_key,
    "pubkey": lambda s: enc_point(PrivateKey(s).point),
    "has_annex": lambda items: bool(Witness(list(items)).has_annex()),
    "witness_control_block": lambda items: enc_cb(Witness(list(items)).control_block()),
    "witness_tap_script": lambda items: enc_script(Witness(list(items)).tap_script()),
    "commit_check": i_commit_check,
    "combine": lambda ts: enc_tree(TapBranch.combine([mk_tree(t) for t in ts])),
}


def enc_leaf(l):
    return [l.tapleaf_version, enc_script(l.tap_script)]


def mk_tapscript(sv):
    s = TapScript(list(sv[0]))
    if sv[1]:
        s.raw = sv[1][0]
    return s


def i_spend_pipeline(tv, pv, lv):
    """build the control block, serialize, parse, ==, commitment check on [raw leaf script, control block]"""
    tree, P, leaf = mk_tree(tv), mk_point(pv), mk_leaf(lv)
    cb = tree.control_block(P, leaf)
    if cb is None:
        raise ValueError("leaf not in the tree")
    raw = cb.serialize()
    back = ControlBlock.parse(raw)
    e = back == cb
    rs = leaf.tap_script.raw_serialize()
    q = tree.external_pubkey(P).xonly()
    return [raw, bool(e), bool(i_commit_check(q, [rs, raw]))]


IMPL.update({
    "cb_eq": lambda a, b: bool(mk_cb(a) == mk_cb(b)),
    "leaf_control_block_default": lambda lv, pv: enc_cb(mk_leaf(lv).control_block(mk_point(pv))),
    "tap_leaf_default": lambda sv: enc_leaf(mk_tapscript(sv).tap_leaf()),
    "witness_tap_leaf": lambda items: enc_leaf(Witness(list(items)).tap_leaf()),
    "witness_tap_leaf_hash": lambda items: Witness(list(items)).tap_leaf().hash(),
    "spend_pipeline": i_spend_pipeline,
})
IMPL = {k: _quiet(v) for k, v in IMPL.items()}


# ------------------------------------------------------------------ PROPS
def _spend_tx(script_pubkey):
    tx_in = TxIn(bytes(range(32)), 0)
    tx_in._value = 100000
    tx_in._script_pubkey = script_pubkey
    tx_out = TxOut(90000, P2TRScriptPubKey(S256Point.parse_xonly(G_[0].to_bytes(32, "big"))))
    return Tx(2, [tx_in], [tx_out], 0, network="signet", segwit=True), tx_in


def _verify(tx_obj, tx_in, items):
    tx_in.witness = Witness(list(items))
    try:
        return bool(tx_obj.verify_input(0))
    except Exception:
        return False


def p_tree(tv, pv):
    """every leaf: control block parses back identically, recomputes root / key / parity; root and key equal
    the independent BIP341 reference"""
    tree = mk_tree(tv)
    P = mk_point(pv)
    root = tree.hash()
    if root != ref_root(tv):
        return "merkle root differs from the BIP341 reference"
    ext = tree.external_pubkey(P)
    want = ref_output(P.x.num, root)
    if enc_point(ext) != list(want):
        return "output key differs from lift_x(P) + int(H_TapTweak(P || root)) G"
    for lv in tree_leaves(tv):
        leaf = mk_leaf(lv)
        cb = tree.control_block(P, leaf)
        if cb is None:
            return "no control block for a leaf of the tree"
        raw = cb.serialize()
        if len(raw) != 33 + 32 * len(cb.hashes) or raw[0] != lv[0] + ext.parity or raw[1:33] != P.xonly():
            return "control block layout"
        back = ControlBlock.parse(raw)
        if not (back == cb) or back.tapleaf_version != cb.tapleaf_version or back.parity != cb.parity \
                or back.hashes != cb.hashes or back.internal_pubkey.xonly() != P.xonly() \
                or back.internal_pubkey.parity != 0:
            return "control block does not parse back identically"
        if back.merkle_root(leaf.tap_script) != root:
            return "control block does not recompute the merkle root"
        q = back.external_pubkey(leaf.tap_script)
        if q.xonly() != ext.xonly() or q.parity != cb.parity or q.parity != ext.parity:
            return "control block does not recompute the output key and parity"
    return None


def _mirror(tv, bits):
    """swap the children of the branches selected by the bit string (pre-order)"""
    pos = [0]

    def go(t):
        if t[0] == 0:
            return t
        i = pos[0]
        pos[0] += 1
        a, b = go(t[1]), go(t[2])
        return [1, b, a] if (bits >> i) & 1 else [1, a, b]
    return go(tv)


def p_sibling(tv, bits):
    a = mk_tree(tv).hash()
    b = mk_tree(_mirror(tv, bits)).hash()
    return None if a == b else "merkle root depends on the left/right order of siblings"


def p_priv_pub(secret, root):
    priv = PrivateKey(secret)
    pub = priv.point.tweaked_key(root)
    tw = priv.tweaked_key(root)
    if tw.point != pub:
        return "tweaked private key is not the discrete log of the tweaked public key"
    if enc_point(pub) != list(ref_output(priv.point.x.num, root)):
        return "tweaked public key differs from the BIP341 reference"
    e = secret if priv.point.y.num % 2 == 0 else N_ - secret
    t = int.from_bytes(ref_tagged(b"TapTweak", priv.point.xonly() + root), "big")
    if tw.secret != (e + t) % N_:
        return "tweaked secret differs from (even_secret + t) mod n"
    return None


def p_spend(tv, pv, idx, annex):
    """honest script-path spend of leaf idx verifies through Tx.verify_input (leaf scripts leave true)"""
    tree = mk_tree(tv)
    P = mk_point(pv)
    lv = tree_leaves(tv)[idx]
    leaf = mk_leaf(lv)
    cb = tree.control_block(P, leaf)
    spk = P.p2tr_script(tree.hash())
    tx_obj, tx_in = _spend_tx(spk)
    items = [leaf.tap_script.raw_serialize(), cb.serialize()]
    if annex:
        items.append(b"\x50" + annex)
    tx_in.witness = Witness(list(items))
    if not tx_obj.verify_input(0):
        return "honest script-path spend does not verify"
    return None


def p_tamper(tv, pv, idx, seed, stride):
    """every single-byte alteration (positions = offset mod stride) of the control block and of the raw leaf
    script is rejected by Tx.verify_input, and at the API level is rejected or changes (x, parity)"""
    import random
    r = random.Random(seed)
    tree = mk_tree(tv)
    P = mk_point(pv)
    lv = tree_leaves(tv)[idx]
    leaf = mk_leaf(lv)
    cb = tree.control_block(P, leaf)
    ext = tree.external_pubkey(P)
    spk = P.p2tr_script(tree.hash())
    tx_obj, tx_in = _spend_tx(spk)
    raw_cb = cb.serialize()
    raw_sc = leaf.tap_script.raw_serialize()
    if not _verify(tx_obj, tx_in, [raw_sc, raw_cb]):
        return "honest spend does not verify"
    off = seed % stride
    for which, raw in ((1, raw_cb), (0, raw_sc)):
        for pos in range(len(raw)):
            if stride > 1 and pos % stride != off and pos > 33:
                continue
            x = r.randrange(1, 256)
            bad = raw[:pos] + bytes([raw[pos] ^ x]) + raw[pos + 1:]
            items = [raw_sc, bad] if which else [bad, raw_cb]
            if _verify(tx_obj, tx_in, items):
                return f"altered {'control block' if which else 'leaf script'} byte {pos} (xor {x}) still spends"
            # API level
            try:
                cb2 = ControlBlock.parse(items[1])
                ts2 = Witness(list(items)).tap_script()
                q2 = cb2.external_pubkey(ts2)
            except Exception:
                continue
            if q2.xonly() == ext.xonly() and q2.parity == cb2.parity == ext.parity:
                return f"altered {'control block' if which else 'leaf script'} byte {pos} (xor {x}) " \
                       "recomputes the same key and parity"
    return None


def p_cb_codec(cv):
    """serialize/parse round trip for even versions, parity bit, <= 128 hashes; > 128 hashes rejected"""
    cb = mk_cb(cv)
    raw = cb.serialize()
    if len(cv[3]) > 128:
        try:
            ControlBlock.parse(raw)
        except Exception:
            return None
        return "control block with more than 128 hashes accepted"
    back = ControlBlock.parse(raw)
    if back.tapleaf_version != cv[0] or back.parity != cv[1] or back.hashes != list(cv[3]) \
            or back.internal_pubkey.xonly() != cb.internal_pubkey.xonly() or back.serialize() != raw:
        return "control block codec round trip"
    return None


def p_annex(items):
    """Witness.has_annex is the BIP341 rule: at least two items and the last one starts with 0x50"""
    want = len(items) >= 2 and len(items[-1]) > 0 and items[-1][0] == 0x50
    got = bool(Witness(list(items)).has_annex())
    if got != want:
        return f"has_annex is {got} for {len(items)} item(s), BIP341 says {want}"
    return None


def p_noncanonical(tv, pv, idx):
    """the raw leaf script of the witness with its first push re-encoded with OP_PUSHDATA1 (one inserted byte,
    same commands) is a different byte string than the committed script: it must not spend the output"""
    tree = mk_tree(tv)
    P = mk_point(pv)
    lv = tree_leaves(tv)[idx]
    leaf = mk_leaf(lv)
    raw = leaf.tap_script.raw_serialize()
    if not (1 <= raw[0] <= 75):
        return None
    alt = b"\x4c" + raw
    cb = tree.control_block(P, leaf)
    tx_obj, tx_in = _spend_tx(P.p2tr_script(tree.hash()))
    if not _verify(tx_obj, tx_in, [raw, cb.serialize()]):
        return "honest spend does not verify"
    if _verify(tx_obj, tx_in, [alt, cb.serialize()]):
        return "NONCANONICAL: a leaf script with a non-minimally encoded push (bytes differ from the committed " \
               "script) spends the output: the leaf hash is taken over the re-serialised parse, not over the witness bytes"
    return None


# ------------------------------------------------------------------ one object used repeatedly (stale state)
# Every predicate below keeps ONE object alive, interleaves queries (different arguments, different orders, the same
# argument twice) with in-place edits of its public fields, and compares each answer with the independent BIP341
# reference evaluated on the CURRENT public state (read through plain attribute access only).
EVEN_VERSIONS = [0xc0, 0xc2, 0x02, 0xfe, 0x00, 0x66, 0xc4]


def ref_leaf_hash(ver, raw):
    return ref_tagged(b"TapLeaf", bytes([ver]) + ref_compact(len(raw)) + raw)


def ref_path(tv, idx):
    """sibling hashes, leaf to root, of leaf number idx (in-order) of a tree value"""
    if tv[0] == 0:
        return []
    nl = len(tree_leaves(tv[1]))
    if idx < nl:
        return ref_path(tv[1], idx) + [ref_root(tv[2])]
    return ref_path(tv[2], idx - nl) + [ref_root(tv[1])]


def _leaf_objs(t):
    if isinstance(t, TapLeaf):
        return [t]
    return _leaf_objs(t.left) + _leaf_objs(t.right)


def _branch_objs(t):
    if isinstance(t, TapLeaf):
        return []
    return [t] + _branch_objs(t.left) + _branch_objs(t.right)


def p_reuse_tree(tv, pvs, seed, nops):
    """ONE tree object: hash / external_pubkey / leaves / path_hashes / control_block asked repeatedly with different
    keys and leaves, interleaved with in-place edits (phase A: also swaps / replacements of children, before the
    leaf list was ever asked for; phase B: leaf version, leaf script object, leaf script commands)"""
    import random
    r = random.Random(seed)
    tree = mk_tree(tv)
    pts = [mk_point(pv) for pv in pvs]
    fresh = [1000]

    def new_script_value():
        fresh[0] += 1
        data = fresh[0].to_bytes(2, "big") + bytes(r.getrandbits(8) for _ in range(r.choice([0, 3, 18, 30, 74, 200])))
        return [[data, 0x75, 0x51 + r.randrange(16)], []]

    def q_hash(where):
        cur = enc_tree(tree)
        if tree.hash() != ref_root(cur):
            return f"{where}: hash() of the reused tree differs from the BIP341 root of its current content"

    def q_ext(where):
        cur = enc_tree(tree)
        k = r.randrange(len(pts))
        got = tree.external_pubkey(pts[k])
        if enc_point(got) != list(ref_output(pvs[k][0], ref_root(cur))):
            return f"{where}: external_pubkey(key {k}) of the reused tree differs from the BIP341 output key"

    def q_leaves(where):
        got = tree.leaves()
        want = _leaf_objs(tree)
        if len(got) != len(want) or any(a is not b for a, b in zip(got, want)):
            return f"{where}: leaves() is not the in-order leaf list of the current tree"

    def q_path(where):
        cur = enc_tree(tree)
        lvs = tree_leaves(cur)
        i = r.randrange(len(lvs))
        arg = mk_leaf(lvs[i]) if r.random() < 0.5 else _leaf_objs(tree)[i]
        got = tree.path_hashes(arg)
        if got is None or list(got) != ref_path(cur, i):
            return f"{where}: path_hashes(leaf {i}) differs from the sibling hashes of the current tree"

    def q_cb(where):
        cur = enc_tree(tree)
        lvs = tree_leaves(cur)
        i = r.randrange(len(lvs))
        k = r.randrange(len(pts))
        arg = mk_leaf(lvs[i]) if r.random() < 0.5 else _leaf_objs(tree)[i]
        cb = tree.control_block(pts[k], arg)
        if cb is None:
            return f"{where}: no control block for leaf {i} of the current tree"
        q = ref_output(pvs[k][0], ref_root(cur))
        path = ref_path(cur, i)
        px = pvs[k][0].to_bytes(32, "big")
        if cb.tapleaf_version != lvs[i][0] or cb.parity != q[1] % 2 or list(cb.hashes) != path \
                or cb.internal_pubkey.xonly() != px:
            return f"{where}: control_block(key {k}, leaf {i}) fields differ from the current tree (version, parity, key, path)"
        if cb.serialize() != bytes([lvs[i][0] + q[1] % 2]) + px + b"".join(path):
            return f"{where}: control_block(key {k}, leaf {i}) serialisation differs from the current tree"
        sc = mk_script(lvs[i][1])
        if cb.merkle_root(sc) != ref_root(cur):
            return f"{where}: control block of leaf {i} does not recompute the current merkle root"

    def q_stranger(where, lv):
        cur = enc_tree(tree)
        if lv in tree_leaves(cur):
            return None
        if tree.path_hashes(mk_leaf(lv)) is not None and not isinstance(tree, TapLeaf):
            return f"{where}: path_hashes answers for a leaf that is no longer in the tree"
        if tree.control_block(pts[0], mk_leaf(lv)) is not None:
            return f"{where}: control block handed out for a leaf that is no longer in the tree"

    def e_leaf():
        """in-place edit of one leaf; returns its former value (now a stranger)"""
        leaf = r.choice(_leaf_objs(tree))
        old = [leaf.tapleaf_version, enc_script(leaf.tap_script)]
        k = r.randrange(3)
        if k == 0:
            leaf.tapleaf_version = r.choice([v for v in EVEN_VERSIONS if v != leaf.tapleaf_version])
        elif k == 1:
            leaf.tap_script = mk_script(new_script_value())
        else:
            fresh[0] += 1
            leaf.tap_script.commands[0] = fresh[0].to_bytes(2, "big") + bytes(r.getrandbits(8) for _ in range(r.randrange(0, 40)))
        return old

    def e_struct():
        bs = _branch_objs(tree)
        if not bs:
            return
        b = r.choice(bs)
        k = r.randrange(3)
        if k == 0:
            b.left, b.right = b.right, b.left
        else:
            sub = [0, r.choice(EVEN_VERSIONS), new_script_value()]
            if r.random() < 0.4:
                sub = [1, sub, [0, r.choice(EVEN_VERSIONS), new_script_value()]]
            if k == 1:
                b.left = mk_tree(sub)
            else:
                b.right = mk_tree(sub)

    # phase A: the leaf list has not been asked for yet (TapBranch._leaves is a documented memo of the structure)
    for step in range(nops // 3):
        where = f"phase A step {step}"
        k = r.random()
        if k < 0.35:
            d = q_hash(where)
        elif k < 0.5:
            d = q_ext(where)
        elif k < 0.8:
            e_struct()
            d = q_hash(where + " (after a child was swapped/replaced)")
        else:
            e_leaf()
            d = q_hash(where + " (after a leaf was edited)")
        if d:
            return d
    # phase B: everything, structure fixed, leaves edited in place
    for step in range(nops):
        where = f"phase B step {step}"
        k = r.random()
        if k < 0.15:
            d = q_hash(where)
        elif k < 0.25:
            d = q_ext(where)
        elif k < 0.35:
            d = q_leaves(where)
        elif k < 0.55:
            d = q_path(where)
        elif k < 0.75:
            d = q_cb(where)
        else:
            old = e_leaf()
            where += " (after a leaf was edited)"
            d = q_stranger(where, old) or r.choice([q_hash, q_path, q_path, q_cb])(where)
        if d:
            return d
    return q_hash("end") or q_cb("end")


def p_reuse_cb(cv, svs, pvs, seed, nops):
    """ONE ControlBlock object (and reused Script objects): merkle_root / external_pubkey / serialize / == asked
    repeatedly with different scripts, interleaved with edits of tapleaf_version, parity, internal_pubkey, hashes
    (reassigned and mutated in place) and of the scripts' commands"""
    import random
    r = random.Random(seed)
    cb = mk_cb(cv)
    ver, par, pv, hashes = cv[0], cv[1], list(cv[2]), list(cv[3])
    scripts = [mk_script(sv) for sv in svs]

    def cur_root(k):
        raw = ref_script(scripts[k].commands)
        h = ref_leaf_hash(ver, raw)
        for x in hashes:
            h = ref_tagged(b"TapBranch", h + x if h < x else x + h)
        return h

    for step in range(nops):
        where = f"step {step}"
        k = r.random()
        j = r.randrange(len(scripts))
        if k < 0.25:
            if cb.merkle_root(scripts[j]) != cur_root(j):
                return f"{where}: merkle_root(script {j}) of the reused control block differs from the BIP341 recomputation"
        elif k < 0.37:
            q = cb.external_pubkey(scripts[j])
            if enc_point(q) != list(ref_output(pv[0], cur_root(j))):
                return f"{where}: external_pubkey(script {j}) of the reused control block differs from the BIP341 output key"
        elif k < 0.5:
            want = bytes([ver + par]) + pv[0].to_bytes(32, "big") + b"".join(hashes)
            if cb.serialize() != want:
                return f"{where}: serialize() of the reused control block differs from its current fields"
            if not (cb == mk_cb([ver, par, pv, hashes])):
                return f"{where}: the reused control block is not equal to a fresh one with the same fields"
            if cb == mk_cb([ver, par ^ 1, pv, hashes]) or cb == mk_cb([ver, par, pv, hashes + [bytes(32)]]):
                return f"{where}: the reused control block equals a control block with other fields"
        elif k < 0.6:
            ver = r.choice([v for v in EVEN_VERSIONS if v != ver])
            cb.tapleaf_version = ver
        elif k < 0.66:
            par ^= 1
            cb.parity = par
        elif k < 0.74:
            pv = list(r.choice([p for p in pvs if list(p) != pv]))
            cb.internal_pubkey = mk_point(pv)
        elif k < 0.92:
            m = r.randrange(5)
            h = bytes(r.getrandbits(8) for _ in range(32))
            if m == 0:
                hashes = [bytes(r.getrandbits(8) for _ in range(32)) for _ in range(r.randrange(0, 4))]
                cb.hashes = list(hashes)
            elif m == 1 or not hashes:
                hashes.append(h)
                cb.hashes.append(h)
            elif m == 2:
                hashes.pop()
                cb.hashes.pop()
            elif m == 3:
                i = r.randrange(len(hashes))
                hashes[i] = h
                cb.hashes[i] = h
            else:
                hashes.reverse()
                cb.hashes.reverse()
        else:
            scripts[j].commands[0] = bytes(r.getrandbits(8) for _ in range(r.randrange(1, 60)))
    return None


def p_reuse_key(secrets, roots, seed, nops):
    """a few PrivateKey / S256Point objects used alternately: tweak / tweaked_key / p2tr_script / even_point /
    even_secret asked with different merkle roots in different orders and twice in a row"""
    import random
    r = random.Random(seed)
    privs = [PrivateKey(s) for s in secrets]
    last = None
    for step in range(nops):
        if last is not None and r.random() < 0.25:
            i, root, k = last                      # the same question twice
        else:
            i, root, k = r.randrange(len(privs)), r.choice(roots), r.randrange(7)
        last = (i, root, k)
        priv, P = privs[i], privs[i].point
        where = f"step {step} (key {i}, root {root.hex()[:8] or 'empty'})"
        px = P.x.num
        t = ref_tagged(b"TapTweak", px.to_bytes(32, "big") + root)
        if k == 0:
            if P.tweak(root) != t:
                return f"{where}: tweak differs from H_TapTweak(x || root)"
        elif k == 1:
            if enc_point(P.tweaked_key(root)) != list(ref_output(px, root)):
                return f"{where}: tweaked_key differs from the BIP341 output key"
        elif k == 2:
            t2 = ref_tagged(b"TapTweak", px.to_bytes(32, "big") + root + b"x")     # an explicit tweak wins
            want = ref_add(ref_lift_x(px), ref_mul(int.from_bytes(t2, "big"), G_))
            if enc_point(P.tweaked_key(root, tweak=t2)) != list(want):
                return f"{where}: tweaked_key(tweak=...) differs from even(P) + tG"
        elif k == 3:
            q = ref_output(px, root)
            if list(P.p2tr_script(root).commands) != [0x51, q[0].to_bytes(32, "big")]:
                return f"{where}: p2tr_script differs from OP_1 <x(Q)>"
        elif k == 4:
            ev = P.even_point()
            if enc_point(ev) != list(ref_lift_x(px)) or P.xonly() != px.to_bytes(32, "big") or P.parity != P.y.num % 2:
                return f"{where}: even_point / xonly / parity"
        else:
            tw = priv.tweaked_key(root)
            e = secrets[i] if P.y.num % 2 == 0 else N_ - secrets[i]
            if priv.even_secret() != e:
                return f"{where}: even_secret"
            if tw.secret != (e + int.from_bytes(t, "big")) % N_:
                return f"{where}: tweaked secret differs from (even_secret + t) mod n"
            if enc_point(tw.point) != list(ref_output(px, root)):
                return f"{where}: tweaked private key is not the discrete log of the BIP341 output key"
    return None


def p_tagged_order(seq):
    """module-level tagged hashes called in the given order with different tags (prefixes of each other, equal
    lengths, repeated): each equals sha256(sha256(tag) || sha256(tag) || msg)"""
    from buidl import hash as bh
    named = {b"TapLeaf": bh.hash_tapleaf, b"TapBranch": bh.hash_tapbranch, b"TapTweak": bh.hash_taptweak,
             b"TapSighash": bh.hash_tapsighash, b"BIP0340/challenge": bh.hash_challenge}
    for n, (tag, msg) in enumerate(seq):
        if bh.tagged_hash(tag, msg) != ref_tagged(tag, msg):
            return f"call {n}: tagged_hash({tag!r}, ...) differs from the BIP340 tagged hash"
        if tag in named and named[tag](msg) != ref_tagged(tag, msg):
            return f"call {n}: the named tagged hash for {tag!r} differs from the BIP340 tagged hash"
    return None


def p_reuse_witness(items, pool, seed, nops):
    """ONE Witness object: has_annex / control_block / tap_script / tap_leaf asked repeatedly, interleaved with
    in-place edits of .items (append/pop an annex, replace an item, new list); each answer is compared with the
    BIP341 selection rule applied to the current items"""
    import random
    r = random.Random(seed)
    w = Witness(list(items))

    def outcome(f):
        try:
            return f()
        except Exception:
            return ERR_

    for step in range(nops):
        where = f"step {step}"
        cur = list(w.items)
        annex = len(cur) >= 2 and len(cur[-1]) > 0 and cur[-1][0] == 0x50
        k = r.random()
        if k < 0.2:
            if bool(w.has_annex()) != annex or len(w) != len(cur):
                return f"{where}: has_annex/len of the reused witness differ from the BIP341 rule on its current items"
        elif k < 0.4:
            got = outcome(lambda: enc_cb(w.control_block()))
            want = outcome(lambda: enc_cb(ControlBlock.parse(cur[-2] if annex else cur[-1])))
            if got != want:
                return f"{where}: control_block() of the reused witness is not the parse of the current control-block item"
        elif k < 0.6:
            got = outcome(lambda: w.tap_script().raw_serialize())
            want = outcome(lambda: Script.parse(raw=(cur[-3] if annex else cur[-2])).raw_serialize())
            if got != want:
                return f"{where}: tap_script() of the reused witness is not the parse of the current script item"
        elif k < 0.7:
            got = outcome(lambda: w.tap_leaf().hash())
            want = outcome(lambda: ref_leaf_hash(ControlBlock.parse(cur[-2] if annex else cur[-1]).tapleaf_version,
                                                 Script.parse(raw=(cur[-3] if annex else cur[-2])).raw_serialize()))
            if got != want:
                return f"{where}: tap_leaf() of the reused witness differs from the current items"
        else:
            m = r.randrange(5)
            if m == 0:
                w.items.append(b"\x50" + bytes(r.getrandbits(8) for _ in range(r.randrange(0, 4))))
            elif m == 1 and w.items:
                w.items.pop()
            elif m == 2 and w.items:
                w.items[r.randrange(len(w.items))] = r.choice(pool)
            elif m == 3:
                w.items = [r.choice(pool) for _ in range(r.randrange(0, 4))]
            else:
                w.items.insert(r.randrange(len(w.items) + 1), r.choice(pool))
    return None


ERR_ = "raises"


def p_cb_converse(raw):
    """ControlBlock.parse accepts exactly the lengths 33 + 32m (m <= 128) whose key bytes lift; every accepted
    byte string is the serialisation of what it parses to; == of parsed blocks is equality of the bytes"""
    n = len(raw)
    len_ok = n % 32 == 1 and 33 <= n <= 33 + 32 * 128
    x = int.from_bytes(raw[1:33], "big") if n >= 33 else None
    key_ok = len_ok and (x == 0 or ref_lift_x(x) is not None)
    try:
        cb = ControlBlock.parse(raw)
    except Exception:
        return "control block of an accepted length with a liftable key rejected" if key_ok else None
    if not key_ok:
        return f"control block of length {n} accepted" if not len_ok else "control block whose key bytes do not lift accepted"
    if cb.serialize() != raw:
        return "serialize(parse(raw)) differs from raw"
    if cb.tapleaf_version % 2 or not 0 <= cb.tapleaf_version <= 254 or cb.parity not in (0, 1) \
            or cb.tapleaf_version + cb.parity != raw[0] or len(cb.hashes) != (n - 33) // 32 \
            or any(len(h) != 32 for h in cb.hashes) or b"".join(cb.hashes) != raw[33:]:
        return "parsed fields are not the slices of the input"
    if not (cb == ControlBlock.parse(raw)):
        return "two parses of the same bytes are not =="
    for pos in {0, 1, 32, n - 1}:
        other = raw[:pos] + bytes([raw[pos] ^ 1]) + raw[pos + 1:]
        try:
            cb2 = ControlBlock.parse(other)
        except Exception:
            continue
        if cb2 == cb:
            return f"control blocks parsed from byte strings that differ at {pos} are =="
    return None


def p_sibling_cb(tv, bits, pv):
    """the control blocks built by the tree with rearranged siblings recompute the root and output key of the
    original tree, for every leaf"""
    tree = mk_tree(tv)
    P = mk_point(pv)
    root = tree.hash()
    ext = tree.external_pubkey(P)
    other = mk_tree(_mirror(tv, bits))
    if sorted(map(repr, tree_leaves(_mirror(tv, bits)))) != sorted(map(repr, tree_leaves(tv))):
        return "harness: mirror changed the leaves"
    for lv in tree_leaves(tv):
        leaf = mk_leaf(lv)
        cb = other.control_block(P, leaf)
        if cb is None:
            return "no control block in the rearranged tree"
        if cb.merkle_root(leaf.tap_script) != root:
            return "control block of the rearranged tree recomputes another root"
        back = ControlBlock.parse(cb.serialize())
        q = back.external_pubkey(leaf.tap_script)
        if q != ext or q.parity != cb.parity:
            return "control block of the rearranged tree recomputes another output key / parity"
    return None


def _perturb(tv, k, path):
    """tree value with the leaf reached by path changed: k=0 version, k=1 one script byte, k=2 replaced by a
    branch of two copies, k=3 an extra opcode"""
    if tv[0] == 1:
        if path and path[0]:
            return [1, tv[1], _perturb(tv[2], k, path[1:])]
        return [1, _perturb(tv[1], k, path[1:]), tv[2]]
    ver, sv = tv[1], tv[2]
    cmds = list(sv[0])
    if k == 0:
        return [0, ver ^ 2, sv]
    if k == 1:
        d = cmds[0]
        cmds[0] = bytes([d[0] ^ 1]) + d[1:]
        return [0, ver, [cmds, []]]
    if k == 2:
        return [1, tv, tv]
    return [0, ver, [cmds + [0x51], []]]


def p_binding(tv, k, path):
    """a tree that differs in one leaf (version, script byte, shape, extra opcode) has another merkle root and
    another output key under the same internal key"""
    other = _perturb(tv, k, path)
    if mk_tree(tv).hash() == mk_tree(other).hash():
        return "two different trees have the same merkle root"
    return None


def p_raw_shadow(cmds, raw):
    """a leaf whose script kept a .raw (inexact parse) placed after a leaf with equal commands: the control block
    the library builds for it must recompute the tree's root from the leaf's own script"""
    s1 = Script(list(cmds))
    s2 = Script.parse(raw=raw)
    if s2.commands != s1.commands or s2.raw is None:
        return None
    l1, l2 = TapLeaf(s1), TapLeaf(s2)
    tree = TapBranch(l1, l2)
    P = S256Point.parse_xonly(G_[0].to_bytes(32, "big"))
    cb = tree.control_block(P, l2)
    if cb is None:
        return "no control block for a leaf of the tree"
    if cb.merkle_root(l2.tap_script) != tree.hash():
        return "RAWSHADOW: the control block built for the second of two == leaves (equal commands, different " \
               "serialisation because one script kept its .raw) is the path of the FIRST leaf and does not " \
               "recompute the root from the second leaf's own script"
    return None


def classify(v):
    if v.get("kind") == "prop" and v.get("name") == "noncanonical" and "NONCANONICAL" in (v.get("detail") or ""):
        return "K-C12-leafhash-reserialised"
    if v.get("kind") == "prop" and v.get("name") == "raw_shadow" and "RAWSHADOW" in (v.get("detail") or ""):
        return "K-C12-raw-shadowed-leaf"
    return None


PROPS = {k: _quiet(v) for k, v in {"reuse_tree": p_reuse_tree, "reuse_cb": p_reuse_cb, "reuse_key": p_reuse_key,
                                   "tagged_order": p_tagged_order, "reuse_witness": p_reuse_witness,
                                   "annex": p_annex, "noncanonical": p_noncanonical, "tree": p_tree, "sibling": p_sibling, "priv_pub": p_priv_pub, "spend": p_spend,
                                   "tamper": p_tamper, "cb_codec": p_cb_codec, "cb_converse": p_cb_converse,
                                   "sibling_cb": p_sibling_cb, "binding": p_binding,
                                   "raw_shadow": p_raw_shadow}.items()}

# ------------------------------------------------------------------ generators


def shapes(n):
    if n == 1:
        yield None
        return
    for i in range(1, n):
        for a in shapes(i):
            for b in shapes(n - i):
                yield (a, b)


def rand_shape(r, n):
    if n == 1:
        return None
    i = r.randrange(1, n)
    return (rand_shape(r, i), rand_shape(r, n - i))


def true_script(r, ctx, i, big=False):
    """a script that leaves true: <data> OP_DROP OP_k ; distinct per leaf through the data"""
    ln = r.choice([1, 2, 5, 20, 32, 33, 40, 74, 75]) if not big else r.choice([76, 77, 255, 256, 300, 520])
    data = bytes([i]) + ctx.rbytes(ln - 1)
    return [[data, 0x75, 0x51 + r.randrange(0, 16)], []]


VERSIONS = [0xc0, 0xc0, 0xc0, 0xc2, 0x02, 0xfe, 0x00, 0x66, 0xc4]


def fill(shape, r, ctx, spendable=True, counter=None):
    counter = counter if counter is not None else [0]
    if shape is None:
        i = counter[0]
        counter[0] += 1
        ver = r.choice(VERSIONS)
        big = r.random() < 0.12
        return [0, ver, true_script(r, ctx, i, big)]
    return [1, fill(shape[0], r, ctx, spendable, counter), fill(shape[1], r, ctx, spendable, counter)]


def rand_secret(r):
    k = r.random()
    if k < 0.4:
        return r.randrange(1, 1 << 20)
    if k < 0.5:
        return N_ - r.randrange(1, 1 << 12)
    return r.randrange(1, N_)


_keys = {}


def key_of_parity(r, par):
    while True:
        s = rand_secret(r)
        if s not in _keys:
            _keys[s] = PrivateKey(s).point
        pt = _keys[s]
        if pt.parity == par:
            return s, enc_point(pt)


def generate(ctx):
    r = ctx.rng
    # --- bytes ordering
    for _ in range(ctx.n(60, 2000)):
        a = ctx.rbytes(r.randrange(0, 5))
        b = a[: r.randrange(0, len(a) + 1)] + ctx.rbytes(r.randrange(0, 3)) if r.random() < 0.6 else ctx.rbytes(r.randrange(0, 5))
        yield ("corr", "blt", [a, b])
    yield ("corr", "blt", [b"", b""])
    # --- leaf hashes over every serialisation form
    for ln in [0, 1, 74, 75, 76, 77, 240, 248, 249, 250, 251, 252, 253, 255, 256, 257, 519, 520, 521, 600]:
        for ver in (0xc0, 0xc1, 0x00, 0xff, 0x100, -1):
            if ver != 0xc0 and ln not in (0, 75, 521):
                continue
            lv = [ver, [[ctx.rbytes(ln), 0xac], []]]
            ctx.label("leaf/unserialisable" if ln > 520 or not 0 <= ver <= 255 else "leaf/ok")
            yield ("corr", "leaf_hash", [lv])
    yield ("corr", "leaf_hash", [[0xc0, [[0x51, 256], []]]])
    yield ("corr", "leaf_hash", [[0xc0, [[0x51], [b"\x02\xaa"]]]])       # a script that kept its .raw
    yield ("corr", "leaf_hash", [[0xc0, [[], []]]])
    # --- trees
    if ctx.tier == "thorough":
        todo = [(n, s) for n in range(1, 7) for s in shapes(n)]
        todo += [(n, rand_shape(r, n)) for n in (7, 8) for _ in range(ctx.n(4, 12))]
    else:
        todo = [(1, None), (2, (None, None))] + [(n, rand_shape(r, n)) for n in (3, 4, 5, 6, 7, 8)
                                                   for _ in range(ctx.n(2))]
    spend_cases = []
    for num, (n, shape) in enumerate(todo):
        tv = fill(shape, r, ctx)
        par = num % 2
        _, pv = key_of_parity(r, par)
        ctx.label(f"tree/leaves={n}")
        ctx.label(f"tree/internal-key-parity={par}")
        yield ("corr", "tree_hash", [tv])
        yield ("prop", "sibling", [tv, r.getrandbits(max(1, n - 1))])
        lvs = tree_leaves(tv)
        for lv in lvs:
            yield ("corr", "path_hashes", [tv, lv])
        for lv in r.sample(lvs, min(len(lvs), 2 if ctx.tier == "quick" else 3)):
            yield ("corr", "control_block", [tv, pv, lv])
        yield ("corr", "tree_external_pubkey", [tv, pv])
        yield ("prop", "tree", [tv, pv])
        spend_cases.append((tv, pv, n))
    # a leaf that is not in the tree, duplicates (leftmost wins), equal commands with different .raw
    tv = fill(((None, None), (None, None)), r, ctx)
    _, pv = key_of_parity(r, 1)
    stranger = [0xc0, [[b"zz", 0x75, 0x51], []]]
    yield ("corr", "path_hashes", [tv, stranger])
    yield ("corr", "control_block", [tv, pv, stranger])
    yield ("corr", "control_block", [tv[1][1], pv, stranger])
    yield ("corr", "control_block", [tv[1][1], pv, tree_leaves(tv)[0]])
    dup = [1, [1, tv[1][1], tv[2][1]], [1, tv[1][1], tv[1][2]]]
    for lv in tree_leaves(dup):
        ctx.label("tree/duplicate-leaf")
        yield ("corr", "path_hashes", [dup, lv])
        yield ("corr", "control_block", [dup, pv, lv])
    yield ("prop", "tree", [dup, pv])
    # the same script under two different leaf versions in one tree: both leaves must stay spendable
    first = tv[1][1]
    twin = [0, first[1] ^ 2, first[2]]
    for twins in ([1, [1, first, twin], tv[2]], [1, tv[1], [1, twin, tv[2][1]]], [1, [1, twin, tv[1][2]], [1, tv[2][0] if False else tv[2][1], first]]):
        ctx.label("tree/same-script-two-versions")
        yield ("prop", "tree", [twins, pv])
        for lv in tree_leaves(twins):
            yield ("corr", "control_block", [twins, pv, lv])
    wrong_version = [tree_leaves(tv)[0][0] ^ 2, tree_leaves(tv)[0][1]]
    yield ("corr", "control_block", [tv, pv, wrong_version])
    rawleaf = [tree_leaves(tv)[1][0], [tree_leaves(tv)[1][1][0], [b"\x03\x01"]]]
    yield ("corr", "path_hashes", [tv, rawleaf])
    yield ("corr", "control_block", [tv, pv, rawleaf])
    bad = [1, tv[1], [0, 0xc0, [[ctx.rbytes(521)], []]]]            # a leaf whose hash raises
    yield ("corr", "tree_hash", [bad])
    yield ("corr", "path_hashes", [bad, tree_leaves(tv)[0]])
    yield ("corr", "control_block", [bad, pv, tree_leaves(tv)[0]])
    yield ("corr", "control_block", [tv, [], tree_leaves(tv)[0]])   # internal key at infinity
    # --- TapBranch.combine
    for k in range(0, ctx.n(9, 18)):
        ts = [[0, 0xc0, true_script(r, ctx, i)] for i in range(k)]
        yield ("corr", "combine", [ts])
    # --- spends and tampering
    for tv, pv, n in spend_cases[: ctx.n(10, 80)]:
        lvs = tree_leaves(tv)
        idx = r.randrange(len(lvs))
        if lvs[idx][0] == 0x50:
            continue
        yield ("prop", "spend", [tv, pv, idx, b"" if r.random() < 0.6 else ctx.rbytes(r.randrange(0, 5))])
        P = mk_point(pv)
        tree = mk_tree(tv)
        cb = tree.control_block(P, mk_leaf(lvs[idx]))
        items = [mk_leaf(lvs[idx]).tap_script.raw_serialize(), cb.serialize()]
        q = tree.external_pubkey(P).xonly()
        yield ("corr", "commit_check", [q, items])
        yield ("corr", "commit_check", [q, items + [b"\x50" + ctx.rbytes(3)]])
        yield ("corr", "commit_check", [q, [b"\x01"] + items])
        yield ("corr", "witness_control_block", [items])
        yield ("corr", "witness_tap_script", [items])
        for _ in range(ctx.n(3, 10)):
            w = r.randrange(2)
            raw = items[w]
            pos = r.randrange(len(raw))
            bad = raw[:pos] + bytes([raw[pos] ^ r.randrange(1, 256)]) + raw[pos + 1:]
            it2 = list(items)
            it2[w] = bad
            ctx.label("commit_check/tampered")
            yield ("corr", "commit_check", [q, it2])
            yield ("corr", "witness_tap_script", [it2])
    for i, (tv, pv, n) in enumerate(spend_cases[: ctx.n(3, 30)]):
        lvs = tree_leaves(tv)
        idx = r.randrange(len(lvs))
        if lvs[idx][0] == 0x50:
            continue
        stride = 1 if (ctx.tier == "thorough" or n <= 2) else 4
        ctx.label("tamper/sweep")
        yield ("prop", "tamper", [tv, pv, idx, r.getrandbits(30), stride])
    for tv, pv, n in spend_cases[: ctx.n(2, 10)]:
        ctx.label("noncanonical-leaf-script")
        yield ("prop", "noncanonical", [tv, pv, r.randrange(n)])
    # --- witness shapes
    for items in [[], [b""], [b"\x50"], [b"\x50\x01"], [b"a", b"\x50"], [b"a", b""], [b"a", b"\x51"],
                  [b"a", b"b", b"\x50zz"], [b"", b""], [b"\x50", b"\x50"], [b"a", b"b", b"c", b"\x50"]]:
        yield ("corr", "has_annex", [items])
        yield ("prop", "annex", [items])
        yield ("corr", "witness_control_block", [items])
        yield ("corr", "witness_tap_script", [items])
        yield ("corr", "commit_check", [ctx.rbytes(32), items])
    # --- control block codec
    _, pe = key_of_parity(r, 0)
    _, po = key_of_parity(r, 1)
    for m in [0, 1, 2, 3, 127, 128, 129, 130]:
        for pv in (pe, po):
            cv = [r.choice([0xc0, 0xc2, 0x00, 0xfe]), r.randrange(2), pv, [ctx.rbytes(32) for _ in range(m)]]
            ctx.label(f"cb/hashes={'>128' if m > 128 else m}")
            yield ("corr", "cb_serialize", [cv])
            yield ("prop", "cb_codec", [cv])
            raw = mk_cb(cv).serialize()
            yield ("corr", "cb_parse", [raw])
            if m <= 3:
                for cut in {0, 1, 32, 33, 34, 64, 65, 66, len(raw) - 1, len(raw) + 1}:
                    yield ("corr", "cb_parse", [(raw + b"\x00")[:cut]])
    for cv in [[0xc1, 1, pe, []], [0xc1, 0, po, []], [0xff, 1, pe, []], [0xc0, 2, pe, []], [-1, 1, pe, []], [-1, 0, pe, []],
               [0xc0, 0, [], []], [0xc0, 1, pe, [b"short", b""]], [0x50, 0, pe, [bytes(32)]]]:
        yield ("corr", "cb_serialize", [cv])
    for x in [0, 1, 2, 5, P_ - 1, P_, P_ + 1, 2 ** 256 - 1, G_[0]]:
        for b0 in (0xc0, 0xc1, 0x50, 0x51, 0x00, 0xff):
            if x != G_[0] and b0 != 0xc0:
                continue
            ctx.label("cb/key-boundary")
            yield ("corr", "cb_parse", [bytes([b0]) + x.to_bytes(32, "big") + ctx.rbytes(32)])
    for _ in range(ctx.n(30, 600)):
        yield ("corr", "cb_parse", [ctx.rbytes(r.choice([0, 1, 32, 33, 34, 65, 97, r.randrange(0, 200)]))])
    # control block used with another script / wrong key
    cv = [0xc0, 0, pe, [ctx.rbytes(32), ctx.rbytes(32)]]
    for sv in [[[0x51], []], [[b"abc", 0xac], []], [[ctx.rbytes(521)], []], [[0x51], [b"\x4c"]]]:
        yield ("corr", "cb_merkle_root", [cv, sv])
        yield ("corr", "cb_external_pubkey", [cv, sv])
    yield ("corr", "cb_external_pubkey", [[0xc0, 0, [], []], [[0x51], []]])
    yield ("corr", "cb_merkle_root", [[0x1c0, 0, pe, []], [[0x51], []]])
    yield ("corr", "cb_merkle_root", [[0xc0, 0, pe, [b"", b"\x00", bytes(31), bytes(33)]], [[0x51], []]])
    # --- tweaks: both parities, secrets at the ends of the range
    secrets = [1, 2, 3, N_ - 1, N_ - 2, 0, N_, N_ + 1, -1]
    secrets += [key_of_parity(r, par)[0] for par in (0, 1) for _ in range(ctx.n(3, 40))]
    for s in secrets:
        for root in [b"", ctx.rbytes(32)] + ([ctx.rbytes(r.randrange(1, 70))] if r.random() < 0.3 else []):
            yield ("corr", "priv_tweaked_key", [s, root])
            if 1 <= s < N_:
                pv = enc_point(PrivateKey(s).point)
                ctx.label(f"tweak/parity={pv[1] % 2}/root={'empty' if not root else len(root)}")
                yield ("corr", "tweak", [pv, root])
                yield ("corr", "tweaked_key", [pv, root])
                yield ("prop", "priv_pub", [s, root])
    yield ("corr", "tweaked_key", [[], b""])
    yield ("corr", "tweak", [[], ctx.rbytes(32)])
    yield ("corr", "pubkey", [0])
    yield ("corr", "pubkey", [N_])
    # --- one object used repeatedly: stale memoised state (TapBranch._leaves, TAG_HASH_CACHE and any new cache)
    for num, shape in enumerate([None, (None, None)] + [rand_shape(r, n) for n in (3, 4, 6, 8)[: ctx.n(4)]]
                                + [rand_shape(r, r.randrange(2, 9)) for _ in range(ctx.n(1, 40))]):
        tv = fill(shape, r, ctx)
        pvs = [key_of_parity(r, 0)[1], key_of_parity(r, 1)[1]]
        ctx.label("reuse/tree")
        yield ("prop", "reuse_tree", [tv, pvs, r.getrandbits(30), ctx.n(18, 40)])
    for num in range(ctx.n(4, 40)):
        pvs = [key_of_parity(r, 0)[1], key_of_parity(r, 1)[1], key_of_parity(r, num % 2)[1]]
        cv = [r.choice(EVEN_VERSIONS), r.randrange(2), pvs[num % 3], [ctx.rbytes(32) for _ in range(r.randrange(0, 4))]]
        svs = [true_script(r, ctx, i, big=(i == 2)) for i in range(3)]
        ctx.label("reuse/control-block")
        yield ("prop", "reuse_cb", [cv, svs, pvs, r.getrandbits(30), ctx.n(40, 80)])
    for num in range(ctx.n(2, 20)):
        secrets = [key_of_parity(r, 0)[0], key_of_parity(r, 1)[0]] + ([N_ - 1] if num == 0 else [])
        roots = [b"", ctx.rbytes(32), ctx.rbytes(32), bytes(32)]
        ctx.label("reuse/keys")
        yield ("prop", "reuse_key", [secrets, roots, r.getrandbits(30), ctx.n(24, 40)])
    tags = [b"TapLeaf", b"TapBranch", b"TapTweak", b"TapSighash", b"BIP0340/challenge", b"TapLea", b"TapLeaf\x00",
            b"", b"Tap", b"tapleaf", b"TapLeag", b"TapTweek", b"KeyAgg list", b"BIP0340/aux", b"BIP0340/nonce"]
    for _ in range(ctx.n(6, 60)):
        seq = [[r.choice(tags) if r.random() < 0.85 else ctx.rbytes(r.randrange(0, 12)), ctx.rbytes(r.randrange(0, 70))]
               for _ in range(30)]
        ctx.label("reuse/tagged-hash-order")
        yield ("prop", "tagged_order", [seq])
    for tv, pv, n in spend_cases[: ctx.n(4, 30)]:
        lvs = tree_leaves(tv)
        tree, P = mk_tree(tv), mk_point(pv)
        pool = [b"", b"\x50", b"\x50\x01", b"\x51", ctx.rbytes(33), bytes([0xc0]) + G_[0].to_bytes(32, "big"),
                bytes([0xc3]) + G_[0].to_bytes(32, "big") + ctx.rbytes(32), bytes([0x50]) + G_[0].to_bytes(32, "big")]
        for lv in lvs[:3]:
            pool.append(mk_leaf(lv).tap_script.raw_serialize())
        cb = tree.control_block(P, mk_leaf(lvs[0]))
        pool.append(cb.serialize())
        ctx.label("reuse/witness")
        yield ("prop", "reuse_witness", [[pool[-2] if len(lvs) > 1 else pool[8], pool[-1]], pool, r.getrandbits(30), ctx.n(60, 120)])
    # ------------------------------------------------------------------ deepening cases
    # --- ControlBlock.__eq__
    other_y = [pe[0], P_ - pe[1]]
    base = [0xc0, 0, pe, [ctx.rbytes(32), ctx.rbytes(32)]]
    variants = [base, [0xc2, 0, pe, base[3]], [0xc0, 1, pe, base[3]], [0xc0, 0, po, base[3]], [0xc0, 0, other_y, base[3]],
                [0xc0, 0, pe, base[3][:1]], [0xc0, 0, pe, base[3] + [bytes(32)]], [0xc0, 0, pe, [base[3][1], base[3][0]]],
                [0xc1, 0, pe, base[3]], [0xc0, 0, pe, [base[3][0] + base[3][1]]], [0x1ff, 0, pe, []], [0xc0, 0, [], base[3]],
                [0xc0, 0, pe, []], [-1, 1, pe, base[3]]]
    for a in variants:
        for b in variants:
            ctx.label("cb_eq/" + ("same" if a is b else "other"))
            yield ("corr", "cb_eq", [a, b])
    # --- TapLeaf.control_block(key) without a leaf argument, TapScript.tap_leaf()
    for lv in [[0xc0, [[b"k", 0xac], []]], [0xc2, [[0x51], []]], [0xc0, [[ctx.rbytes(521)], []]], [0x100, [[0x51], []]],
               [0xc0, [[0x51], [b"\x02\xaa"]]], [0x50, [[0x51], []]]]:
        for pv in (pe, po, []):
            ctx.label("leaf_control_block_default")
            yield ("corr", "leaf_control_block_default", [lv, pv])
        yield ("corr", "tap_leaf_default", [lv[1]])
    # --- Witness.tap_leaf on honest, tampered and malformed witnesses
    for tv, pv, n in spend_cases[: ctx.n(6, 40)]:
        lvs = tree_leaves(tv)
        lv = lvs[r.randrange(len(lvs))]
        cb = mk_tree(tv).control_block(mk_point(pv), mk_leaf(lv))
        items = [mk_leaf(lv).tap_script.raw_serialize(), cb.serialize()]
        for it in (items, items + [b"\x50" + ctx.rbytes(2)], [b"\x01"] + items, items[:1], items[1:], [items[1], items[0]],
                   [items[0][:-1], items[1]], [items[0], items[1][:-1]], [b"\x4c" + items[0], items[1]],
                   [items[0], b"\x50" + items[1][1:]]):
            ctx.label("witness_tap_leaf")
            yield ("corr", "witness_tap_leaf", [it])
            yield ("corr", "witness_tap_leaf_hash", [it])
    for items in [[], [b""], [b"\x50"], [b"a", b"\x50"], [b"\x02\xaa", bytes([0xc0]) + G_[0].to_bytes(32, "big")],
                  [b"\x4d\xff", bytes([0xc1]) + G_[0].to_bytes(32, "big") + bytes(32)]]:
        yield ("corr", "witness_tap_leaf", [items])
        yield ("corr", "witness_tap_leaf_hash", [items])
    # --- the whole honest pipeline as one composition, per leaf; control blocks of the mirrored tree; binding
    for i, (tv, pv, n) in enumerate(spend_cases[: ctx.n(8, 60)]):
        lvs = tree_leaves(tv)
        for lv in r.sample(lvs, min(len(lvs), 2)):
            ctx.label("spend_pipeline/honest")
            yield ("corr", "spend_pipeline", [tv, pv, lv])
        if i < ctx.n(3, 25):
            ctx.label("sibling/control-blocks-of-mirrored-tree")
            yield ("prop", "sibling_cb", [tv, r.getrandbits(max(1, n - 1)) | 1, pv])
        for k in range(4):
            ctx.label("binding/perturbed-tree")
            yield ("prop", "binding", [tv, k, [r.randrange(2) for _ in range(8)]])
    yield ("corr", "spend_pipeline", [tv, pv, stranger])
    yield ("corr", "spend_pipeline", [tv, [], tree_leaves(tv)[0]])
    yield ("corr", "spend_pipeline", [[0, 0x50, [[0x51], []]], pe, [0x50, [[0x51], []]]])      # version 0x50: an "annex"
    yield ("corr", "spend_pipeline", [[0, 0xc1, [[0x51], []]], pe, [0xc1, [[0x51], []]]])      # odd version
    # the .raw-shadowed leaf (Coq: C12_every_leaf_own_script_refuted): model and code agree on it
    s_first, s_second = [[b"\xaa"], []], [[b"\xaa"], [b"\x02\xaa"]]
    shadow = [1, [0, 0xc0, s_first], [0, 0xc0, s_second]]
    for lv in ([0xc0, s_first], [0xc0, s_second]):
        ctx.label("raw-shadowed-leaf")
        yield ("corr", "path_hashes", [shadow, lv])
        yield ("corr", "control_block", [shadow, pe, lv])
        yield ("corr", "spend_pipeline", [shadow, pe, lv])
    yield ("corr", "tree_hash", [shadow])
    yield ("corr", "witness_tap_script", [[b"\x02\xaa", b""]])
    yield ("prop", "raw_shadow", [[b"\xaa"], b"\x02\xaa"])
    yield ("prop", "raw_shadow", [[b"\xaa", 0x51], b"\x01\xaa\x51"])            # exact parse: no .raw, nothing shadowed
    # --- converse codec round trip on every length class
    xs_ok = [G_[0], pe[0], po[0], 0]
    for m in [0, 1, 2, 3, 127, 128, 129]:
        for _ in range(ctx.n(1, 4)):
            raw = bytes([r.randrange(256)]) + r.choice(xs_ok).to_bytes(32, "big") + ctx.rbytes(32 * m)
            ctx.label(f"cb_converse/m={'>128' if m > 128 else m}")
            yield ("prop", "cb_converse", [raw])
            if m <= 3:
                yield ("prop", "cb_converse", [raw[:-1]])
                yield ("prop", "cb_converse", [raw + b"\x00"])
    for _ in range(ctx.n(20, 300)):
        n = r.choice([33, 65, 97, 33, r.randrange(0, 140)])
        yield ("prop", "cb_converse", [ctx.rbytes(n)])
