"""C12 — taproot output keys commit to the script tree; every leaf is spendable."""
import contextlib
import hashlib
import io

from buidl.ecc import PrivateKey, S256Point
from buidl.script import P2TRScriptPubKey, Script
from buidl.taproot import ControlBlock, TapBranch, TapLeaf, TapScript
from buidl.tx import Tx, TxIn, TxOut
from buidl.witness import Witness

PID = "C12"
RULE = ("Tree shapes: Catalan enumeration of every binary shape with 1..6 leaves (thorough) and sampled shapes "
        "with 1..8 leaves (quick), leaf scripts over all push forms (direct, PUSHDATA1/2, 252/253-byte script "
        "boundary, unserialisable 521-byte push), duplicate leaves, leaf versions 0xc0 and other even/odd values; "
        "internal keys of both parities (small and full-size secrets, x-only lifts); every leaf of every tree; "
        "every single-byte alteration of sampled control blocks and raw leaf scripts, evaluated through "
        "Tx.verify_input; control-block codec at every length class (0, 32, 33, 34, 65, 33+32*128, 33+32*129), "
        "x = 0, x >= p, x not on the curve; tweaked private vs public key for secrets 1, n-1, random.")
RULE += (" Reuse: ONE TapBranch/TapLeaf tree, ControlBlock, Witness, PrivateKey/S256Point object queried repeatedly (different "
         "keys, leaves, scripts, merkle roots, in different orders and twice in a row) with in-place edits of every public "
         "field in between, each answer compared with the BIP341 reference on the current state; tagged hashes called in "
         "sequences over tags that are prefixes of each other.")
TRUSTED = ["hashlib (sha256) — sha256 is a universally quantified function in the theorems",
           "secp256k1 group law, order and primality: the explicit hypothesis scalar_laws C of the algebraic "
           "theorems (instantiated on the toy curve for non-vacuity)",
           "harness-side independent reference (affine secp256k1 arithmetic on ints, BIP341 taproot_tweak / "
           "merkle root) used by the PROPS predicates",
           "modelled, not verified: Script.parse / raw_serialize are the shared Model/Script.v (owner C04)"]
# 256-bit curve arithmetic is never evaluated inside Coq (DESIGN §3): only the hash/codec functions are self-checked
VM_SKIP = ("control_block", "tree_external_pubkey", "cb_parse", "cb_external_pubkey", "tweaked_key",
           "priv_tweaked_key", "pubkey", "witness_control_block", "commit_check",
           "leaf_control_block_default", "witness_tap_leaf", "witness_tap_leaf_hash", "spend_pipeline")
RULE += (" Deepening: ControlBlock.__eq__ (equal / different in each field, the other y above one x, version+parity "
         "sums that coincide, unserialisable operands), TapLeaf.control_block(key) without a leaf argument, "
         "TapScript.tap_leaf(), Witness.tap_leaf() on honest and malformed witnesses, the whole honest pipeline "
         "(build, serialize, parse, ==, commitment check) as one composition per leaf, converse codec round trip "
         "serialize(parse(raw)) == raw on accepted byte strings of every length class, control blocks of the "
         "mirrored tree, perturbed trees (root must change), the .raw-shadowed leaf (known finding).")
ASSUMPTIONS = ["leaf version 0x50 is excluded from honest spends (BIP341 forbids it: the control block would be "
               "taken for an annex); it stays in the codec and recomputation cases",
               "(e + t) mod n = 0 and output key at infinity are side conditions of the theorems (no input exhibits them)"]

# ------------------------------------------------------------------ independent reference
P_ = 2 ** 256 - 2 ** 32 - 977
N_ = 0xFFFFFFFFFFFFFFFFFFFFFFFFFFFFFFFEBAAEDCE6AF48A03BBFD25E8CD0364141
G_ = (0x79BE667EF9DCBBAC55A06295CE870B07029BFCDB2DCE28D959F2815B16F81798,
      0x483ADA7726A3C4655DA4FBFC0E1108A8FD17B448A68554199C47D08FFB10D4B8)


def ref_add(a, b):
    if a is None:
        return b
    if b is None:
        return a
    if a[0] == b[0] and (a[1] + b[1]) % P_ == 0:
        return None
    if a == b:
        lam = 3 * a[0] * a[0] * pow(2 * a[1], -1, P_) % P_
    else:
        lam = (b[1] - a[1]) * pow(b[0] - a[0], -1, P_) % P_
    x = (lam * lam - a[0] - b[0]) % P_
    return (x, (lam * (a[0] - x) - a[1]) % P_)


def ref_mul(k, a):
    k %= N_
    r = None
    for bit in bin(k)[2:] if k else "":
        r = ref_add(r, r)
        if bit == "1":
            r = ref_add(r, a)
    return r


def ref_lift_x(x):
    if x >= P_:
        return None
    c = (pow(x, 3, P_) + 7) % P_
    y = pow(c, (P_ + 1) // 4, P_)
    if y * y % P_ != c:
        return None
    return (x, y if y % 2 == 0 else P_ - y)


def ref_tagged(tag, msg):
    t = hashlib.sha256(tag).digest()
    return hashlib.sha256(t + t + msg).digest()


def ref_compact(n):
    if n < 0xfd:
        return bytes([n])
    if n < 0x10000:
        return b"\xfd" + n.to_bytes(2, "little")
    return b"\xfe" + n.to_bytes(4, "little")


def ref_push(b):
    n = len(b)
    if n <= 75:
        return bytes([n]) + b
    if n < 256:
        return b"\x4c" + bytes([n]) + b
    return b"\x4d" + n.to_bytes(2, "little") + b


def ref_script(cmds):
    return b"".join(bytes([c]) if isinstance(c, int) else ref_push(c) for c in cmds)


def ref_root(tv):
    """BIP341 merkle root of a tree value (scripts built from commands)."""
    if tv[0] == 0:
        raw = ref_script(tv[2][0]) if not tv[2][1] else tv[2][1][0]
        return ref_tagged(b"TapLeaf", bytes([tv[1]]) + ref_compact(len(raw)) + raw)
    a, b = ref_root(tv[1]), ref_root(tv[2])
    if b < a:
        a, b = b, a
    return ref_tagged(b"TapBranch", a + b)


def ref_output(px, root):
    """BIP341 taproot_tweak_pubkey: (parity, x) of lift_x(px) + int(H(px||root))G"""
    p = ref_lift_x(px)
    t = int.from_bytes(ref_tagged(b"TapTweak", px.to_bytes(32, "big") + root), "big")
    q = ref_add(p, ref_mul(t, G_))
    return q


# ------------------------------------------------------------------ value <-> object
def mk_script(sv):
    s = Script(list(sv[0]))
    if sv[1]:
        s.raw = sv[1][0]
    return s


def enc_script(s):
    return [list(s.commands), [] if s.raw is None else [s.raw]]


def mk_leaf(lv):
    return TapLeaf(mk_script(lv[1]), lv[0])


def mk_tree(tv):
    if tv[0] == 0:
        return TapLeaf(mk_script(tv[2]), tv[1])
    return TapBranch(mk_tree(tv[1]), mk_tree(tv[2]))


def enc_tree(t):
    if isinstance(t, TapLeaf):
        return [0, t.tapleaf_version, enc_script(t.tap_script)]
    return [1, enc_tree(t.left), enc_tree(t.right)]


def mk_point(pv):
    return S256Point(None, None) if pv == [] else S256Point(pv[0], pv[1])


def enc_point(p):
    return [] if p.x is None else [p.x.num, p.y.num]


def enc_cb(cb):
    return [cb.tapleaf_version, cb.parity, enc_point(cb.internal_pubkey), list(cb.hashes)]


def mk_cb(cv):
    return ControlBlock(cv[0], cv[1], mk_point(cv[2]), list(cv[3]))


def tree_leaves(tv):
    if tv[0] == 0:
        return [[tv[1], tv[2]]]
    return tree_leaves(tv[1]) + tree_leaves(tv[2])


# ------------------------------------------------------------------ IMPL
def i_path_hashes(tv, lv):
    r = mk_tree(tv).path_hashes(mk_leaf(lv))
    return [] if r is None else [r]


def i_control_block(tv, pv, lv):
    r = mk_tree(tv).control_block(mk_point(pv), mk_leaf(lv))
    return [] if r is None else [enc_cb(r)]


def i_priv_tweaked_key(secret, root):
    pk = PrivateKey(secret).tweaked_key(root)
    return [pk.secret, enc_point(pk.point)]


def i_commit_check(q, items):
    """the commitment part of the witness-v1 script-path branch of Script.evaluate, same calls in the same order"""
    w = Witness(list(items))
    if len(w) == 0:
        return False
    if w.has_annex():
        w.items.pop()
    if len(w) <= 1:
        raise ValueError("key path spend")
    cb = w.control_block()
    ts = w.tap_script()
    tp = cb.external_pubkey(ts)
    if tp.parity != cb.parity:
        return False
    return tp.xonly() == q


def _quiet(f):
    def g(*a):
        with contextlib.redirect_stdout(io.StringIO()):
            return f(*a)
    return g


IMPL = {
    "blt": lambda a, b: a < b,
    "leaf_hash": lambda lv: mk_leaf(lv).hash(),
    "tree_hash": lambda tv: mk_tree(tv).hash(),
    "path_hashes": i_path_hashes,
    "control_block": i_control_block,
    "tree_external_pubkey": lambda tv, pv: enc_point(mk_tree(tv).external_pubkey(mk_point(pv))),
    "cb_serialize": lambda cv: mk_cb(cv).serialize(),
    "cb_parse": lambda b: enc_cb(ControlBlock.parse(b)),
    "cb_merkle_root": lambda cv, sv: mk_cb(cv).merkle_root(mk_script(sv)),
    "cb_external_pubkey": lambda cv, sv: enc_point(mk_cb(cv).external_pubkey(mk_script(sv))),
    "tweak": lambda pv, root: mk_point(pv).tweak(root),
    "tweaked_key": lambda pv, root: enc_point(mk_point(pv).tweaked_key(root)),
    "priv_tweaked_key": i_priv_tweaked_key,
    "pubkey": lambda s: enc_point(PrivateKey(s).point),
    "has_annex": lambda items: bool(Witness(list(items)).has_annex()),
    "witness_control_block": lambda items: enc_cb(Witness(list(items)).control_block()),
    "witness_tap_script": lambda items: enc_script(Witness(list(items)).tap_script()),
    "commit_check": i_commit_check,
    "combine": lambda ts: enc_tree(TapBranch.combine([mk_tree(t) for t in ts])),
}


def enc_leaf(l):
    return [l.tapleaf_version, enc_script(l.tap_script)]


def mk_tapscript(sv):
    s = TapScript(list(sv[0]))
    if sv[1]:
        s.raw = sv[1][0]
    return s


def i_spend_pipeline(tv, pv, lv):
    """build the control block, serialize, parse, ==, commitment check on [raw leaf script, control block]"""
    tree, P, leaf = mk_tree(tv), mk_point(pv), mk_leaf(lv)
    cb = tree.control_block(P, leaf)
    if cb is None:
        raise ValueError("leaf not in the tree")
    raw = cb.serialize()
    back = ControlBlock.parse(raw)
    e = back == cb
    rs = leaf.tap_script.raw_serialize()
    q = tree.external_pubkey(P).xonly()
    return [raw, bool(e), bool(i_commit_check(q, [rs, raw]))]


IMPL.update({
    "cb_eq": lambda a, b: bool(mk_cb(a) == mk_cb(b)),
    "leaf_control_block_default": lambda lv, pv: enc_cb(mk_leaf(lv).control_block(mk_point(pv))),
    "tap_leaf_default": lambda sv: enc_leaf(mk_tapscript(sv).tap_leaf()),
    "witness_tap_leaf": lambda items: enc_leaf(Witness(list(items)).tap_leaf()),
    "witness_tap_leaf_hash": lambda items: Witness(list(items)).tap_leaf().hash(),
    "spend_pipeline": i_spend_pipeline,
})
IMPL = {k: _quiet(v) for k, v in IMPL.items()}


# ------------------------------------------------------------------ PROPS
def _spend_tx(script_pubkey):
    tx_in = TxIn(bytes(range(32)), 0)
    tx_in._value = 100000
    tx_in._script_pubkey = script_pubkey
    tx_out = TxOut(90000, P2TRScriptPubKey(S256Point.parse_xonly(G_[0].to_bytes(32, "big"))))
    return Tx(2, [tx_in], [tx_out], 0, network="signet", segwit=True), tx_in


def _verify(tx_obj, tx_in, items):
    tx_in.witness = Witness(list(items))
    try:
        return bool(tx_obj.verify_input(0))
    except Exception:
        return False


def p_tree(tv, pv):
    """every leaf: control block parses back identically, recomputes root / key / parity; root and key equal
    the independent BIP341 reference"""
    tree = mk_tree(tv)
    P = mk_point(pv)
    root = tree.hash()
    if root != ref_root(tv):
        return "merkle root differs from the BIP341 reference"
    ext = tree.external_pubkey(P)
    want = ref_output(P.x.num, root)
    if enc_point(ext) != list(want):
        return "output key differs from lift_x(P) + int(H_TapTweak(P || root)) G"
    for lv in tree_leaves(tv):
        leaf = mk_leaf(lv)
        cb = tree.control_block(P, leaf)
        if cb is None:
            return "no control block for a leaf of the tree"
        raw = cb.serialize()
        if len(raw) != 33 + 32 * len(cb.hashes) or raw[0] != lv[0] + ext.parity or raw[1:33] != P.xonly():
            return "control block layout"
        back = ControlBlock.parse(raw)
        if not (back == cb) or back.tapleaf_version != cb.tapleaf_version or back.parity != cb.parity \
                or back.hashes != cb.hashes or back.internal_pubkey.xonly() != P.xonly() \
                or back.internal_pubkey.parity != 0:
            return "control block does not parse back identically"
        if back.merkle_root(leaf.tap_script) != root:
            return "control block does not recompute the merkle root"
        q = back.external_pubkey(leaf.tap_script)
        if q.xonly() != ext.xonly() or q.parity != cb.parity or q.parity != ext.parity:
            return "control block does not recompute the output key and parity"
    return None


def _mirror(tv, bits):
    """swap the children of the branches selected by the bit string (pre-order)"""
    pos = [0]

    def go(t):
        if t[0] == 0:
            return t
        i = pos[0]
        pos[0] += 1
        a, b = go(t[1]), go(t[2])
        return [1, b, a] if (bits >> i) & 1 else [1, a, b]
    return go(tv)


def p_sibling(tv, bits):
    a = mk_tree(tv).hash()
    b = mk_tree(_mirror(tv, bits)).hash()
    return None if a == b else "merkle root depends on the left/right order of siblings"


def p_priv_pub(secret, root):
    priv = PrivateKey(secret)
    pub = priv.point.tweaked_key(root)
    tw = priv.tweaked_key(root)
    if tw.point != pub:
        return "tweaked private key is not the discrete log of the tweaked public key"
    if enc_point(pub) != list(ref_output(priv.point.x.num, root)):
        return "tweaked public key differs from the BIP341 reference"
    e = secret if priv.point.y.num % 2 == 0 else N_ - secret
    t = int.from_bytes(ref_tagged(b"TapTweak", priv.point.xonly() + root), "big")
    if tw.secret != (e + t) % N_:
        return "tweaked secret differs from (even_secret + t) mod n"
    return None


def p_spend(tv, pv, idx, annex):
    """honest script-path spend of leaf idx verifies through Tx.verify_input (leaf scripts leave true)"""
    tree = mk_tree(tv)
    P = mk_point(pv)
    lv = tree_leaves(tv)[idx]
    leaf = mk_leaf(lv)
    cb = tree.control_block(P, leaf)
    spk = P.p2tr_script(tree.hash())
    tx_obj, tx_in = _spend_tx(spk)
    items = [leaf.tap_script.raw_serialize(), cb.serialize()]
    if annex:
        items.append(b"\x50" + annex)
    tx_in.witness = Witness(list(items))
    if not tx_obj.verify_input(0):
        return "honest script-path spend does not verify"
    return None


def p_tamper(tv, pv, idx, seed, stride):
    """every single-byte alteration (positions = offset mod stride) of the control block and of the raw leaf
    script is rejected by Tx.verify_input, and at the API level is rejected or changes (x, parity)"""
    import random
    r = random.Random(seed)
    tree = mk_tree(tv)
    P = mk_point(pv)
    lv = tree_leaves(tv)[idx]
    leaf = mk_leaf(lv)
    cb = tree.control_block(P, leaf)
    ext = tree.external_pubkey(P)
    spk = P.p2tr_script(tree.hash())
    tx_obj, tx_in = _spend_tx(spk)
    raw_cb = cb.serialize()
    raw_sc = leaf.tap_script.raw_serialize()
    if not _verify(tx_obj, tx_in, [raw_sc, raw_cb]):
        return "honest spend does not verify"
    off = seed % stride
    for which, raw in ((1, raw_cb), (0, raw_sc)):
        for pos in range(len(raw)):
            if stride > 1 and pos % stride != off and pos > 33:
                continue
            x = r.randrange(1, 256)
            bad = raw[:pos] + bytes([raw[pos] ^ x]) + raw[pos + 1:]
            items = [raw_sc, bad] if which else [bad, raw_cb]
            if _verify(tx_obj, tx_in, items):
                return f"altered {'control block' if which else 'leaf script'} byte {pos} (xor {x}) still spends"
            # API level
            try:
                cb2 = ControlBlock.parse(items[1])
                ts2 = Witness(list(items)).tap_script()
                q2 = cb2.external_pubkey(ts2)
            except Exception:
                continue
            if q2.xonly() == ext.xonly() and q2.parity == cb2.parity == ext.parity:
                return f"altered {'control block' if which else 'leaf script'} byte {pos} (xor {x}) " \
                       "recomputes the same key and parity"
    return None


def p_cb_codec(cv):
    """serialize/parse round trip for even versions, parity bit, <= 128 hashes; > 128 hashes rejected"""
    cb = mk_cb(cv)
    raw = cb.serialize()
    if len(cv[3]) > 128:
        try:
            ControlBlock.parse(raw)
        except Exception:
            return None
        return "control block with more than 128 hashes accepted"
    back = ControlBlock.parse(raw)
    if back.tapleaf_version != cv[0] or back.parity != cv[1] or back.hashes != list(cv[3]) \
            or back.internal_pubkey.xonly() != cb.internal_pubkey.xonly() or back.serialize() != raw:
        return "control block codec round trip"
    return None


def p_annex(items):
    """Witness.has_annex is the BIP341 rule: at least two items and the last one starts with 0x50"""
    want = len(items) >= 2 and len(items[-1]) > 0 and items[-1][0] == 0x50
    got = bool(Witness(list(items)).has_annex())
    if got != want:
        return f"has_annex is {got} for {len(items)} item(s), BIP341 says {want}"
    return None


def p_noncanonical(tv, pv, idx):
    """the raw leaf script of the witness with its first push re-encoded with OP_PUSHDATA1 (one inserted byte,
    same commands) is a different byte string than the committed script: it must not spend the output"""
    tree = mk_tree(tv)
    P = mk_point(pv)
    lv = tree_leaves(tv)[idx]
    leaf = mk_leaf(lv)
    raw = leaf.tap_script.raw_serialize()
    if not (1 <= raw[0] <= 75):
        return None
    alt = b"\x4c" + raw
    cb = tree.control_block(P, leaf)
    tx_obj, tx_in = _spend_tx(P.p2tr_script(tree.hash()))
    if not _verify(tx_obj, tx_in, [raw, cb.serialize()]):
        return "honest spend does not verify"
    if _verify(tx_obj, tx_in, [alt, cb.serialize()]):
        return "NONCANONICAL: a leaf script with a non-minimally encoded push (bytes differ from the committed " \
               "script) spends the output: the leaf hash is taken over the re-serialised parse, not over the witness bytes"
    return None


# ------------------------------------------------------------------ one object used repeatedly (stale state)
# Every predicate below keeps ONE object alive, interleaves queries (different arguments, different orders, the same
# argument twice) with in-place edits of its public fields, and compares each answer with the independent BIP341
# reference evaluated on the CURRENT public state (read through plain attribute access only).
EVEN_VERSIONS = [0xc0, 0xc2, 0x02, 0xfe, 0x00, 0x66, 0xc4]


def ref_leaf_hash(ver, raw):
    return ref_tagged(b"TapLeaf", bytes([ver]) + ref_compact(len(raw)) + raw)


def ref_path(tv, idx):
    """sibling hashes, leaf to root, of leaf number idx (in-order) of a tree value"""
    if tv[0] == 0:
        return []
    nl = len(tree_leaves(tv[1]))
    if idx < nl:
        return ref_path(tv[1], idx) + [ref_root(tv[2])]
    return ref_path(tv[2], idx - nl) + [ref_root(tv[1])]


def _leaf_objs(t):
    if isinstance(t, TapLeaf):
        return [t]
    return _leaf_objs(t.left) + _leaf_objs(t.right)


def _branch_objs(t):
    if isinstance(t, TapLeaf):
        return []
    return [t] + _branch_objs(t.left) + _branch_objs(t.right)


def p_reuse_tree(tv, pvs, seed, nops):
    """ONE tree object: hash / external_pubkey / leaves / path_hashes / control_block asked repeatedly with different
    keys and leaves, interleaved with in-place edits (phase A: also swaps / replacements of children, before the
    leaf list was ever asked for; phase B: leaf version, leaf script object, leaf script commands)"""
    import random
    r = random.Random(seed)
    tree = mk_tree(tv)
    pts = [mk_point(pv) for pv in pvs]
    fresh = [1000]

    def new_script_value():
        fresh[0] += 1
        data = fresh[0].to_bytes(2, "big") + bytes(r.getrandbits(8) for _ in range(r.choice([0, 3, 18, 30, 74, 200])))
        return [[data, 0x75, 0x51 + r.randrange(16)], []]

    def q_hash(where):
        cur = enc_tree(tree)
        if tree.hash() != ref_root(cur):
            return f"{where}: hash() of the reused tree differs from the BIP341 root of its current content"

    def q_ext(where):
        cur = enc_tree(tree)
        k = r.randrange(len(pts))
        got = tree.external_pubkey(pts[k])
        if enc_point(got) != list(ref_output(pvs[k][0], ref_root(cur))):
            return f"{where}: external_pubkey(key {k}) of the reused tree differs from the BIP341 output key"

    def q_leaves(where):
        got = tree.leaves()
        want = _leaf_objs(tree)
        if len(got) != len(want) or any(a is not b for a, b in zip(got, want)):
            return f"{where}: leaves() is not the in-order leaf list of the current tree"

    def q_path(where):
        cur = enc_tree(tree)
        lvs = tree_leaves(cur)
        i = r.randrange(len(lvs))
        arg = mk_leaf(lvs[i]) if r.random() < 0.5 else _leaf_objs(tree)[i]
        got = tree.path_hashes(arg)
        if got is None or list(got) != ref_path(cur, i):
            return f"{where}: path_hashes(leaf {i}) differs from the sibling hashes of the current tree"

    def q_cb(where):
        cur = enc_tree(tree)
        lvs = tree_leaves(cur)
        i = r.randrange(len(lvs))
        k = r.randrange(len(pts))
        arg = mk_leaf(lvs[i]) if r.random() < 0.5 else _leaf_objs(tree)[i]
        cb = tree.control_block(pts[k], arg)
        if cb is None:
            return f"{where}: no control block for leaf {i} of the current tree"
        q = ref_output(pvs[k][0], ref_root(cur))
        path = ref_path(cur, i)
        px = pvs[k][0].to_bytes(32, "big")
        if cb.tapleaf_version != lvs[i][0] or cb.parity != q[1] % 2 or list(cb.hashes) != path \
                or cb.internal_pubkey.xonly() != px:
            return f"{where}: control_block(key {k}, leaf {i}) fields differ from the current tree (version, parity, key, path)"
        if cb.serialize() != bytes([lvs[i][0] + q[1] % 2]) + px + b"".join(path):
            return f"{where}: control_block(key {k}, leaf {i}) serialisation differs from the current tree"
        sc = mk_script(lvs[i][1])
        if cb.merkle_root(sc) != ref_root(cur):
            return f"{where}: control block of leaf {i} does not recompute the current merkle root"

    def q_stranger(where, lv):
        cur = enc_tree(tree)
        if lv in tree_leaves(cur):
            return None
        if tree.path_hashes(mk_leaf(lv)) is not None and not isinstance(tree, TapLeaf):
            return f"{where}: path_hashes answers for a leaf that is no longer in the tree"
        if tree.control_block(pts[0], mk_leaf(lv)) is not None:
            return f"{where}: control block handed out for a leaf that is no longer in the tree"

    def e_leaf():
        """in-place edit of one leaf; returns its former value (now a stranger)"""
        leaf = r.choice(_leaf_objs(tree))
        old = [leaf.tapleaf_version, enc_script(leaf.tap_script)]
        k = r.randrange(3)
        if k == 0:
            leaf.tapleaf_version = r.choice([v for v in EVEN_VERSIONS if v != leaf.tapleaf_version])
        elif k == 1:
            leaf.tap_script = mk_script(new_script_value())
        else:
            fresh[0] += 1
            leaf.tap_script.commands[0] = fresh[0].to_bytes(2, "big") + bytes(r.getrandbits(8) for _ in range(r.randrange(0, 40)))
        return old

    def e_struct():
        bs = _branch_objs(tree)
        if not bs:
            return
        b = r.choice(bs)
        k = r.randrange(3)
        if k == 0:
            b.left, b.right = b.right, b.left
        else:
            sub = [0, r.choice(EVEN_VERSIONS), new_script_value()]
            if r.random() < 0.4:
                sub = [1, sub, [0, r.choice(EVEN_VERSIONS), new_script_value()]]
            if k == 1:
                b.left = mk_tree(sub)
            else:
                b.right = mk_tree(sub)

    # phase A: the leaf list has not been asked for yet (TapBranch._leaves is a documented memo of the structure)
    for step in range(nops // 3):
        where = f"phase A step {step}"
        k = r.random()
        if k < 0.35:
            d = q_hash(where)
        elif k < 0.5:
            d = q_ext(where)
        elif k < 0.8:
            e_struct()
            d = q_hash(where + " (after a child was swapped/replaced)")
        else:
            e_leaf()
            d = q_hash(where + " (after a leaf was edited)")
        if d:
            return d
    # phase B: everything, structure fixed, leaves edited in place
    for step in range(nops):
        where = f"phase B step {step}"
        k = r.random()
        if k < 0.15:
            d = q_hash(where)
        elif k < 0.25:
            d = q_ext(where)
        elif k < 0.35:
            d = q_leaves(where)
        elif k < 0.55:
            d = q_path(where)
        elif k < 0.75:
            d = q_cb(where)
        else:
            old = e_leaf()
            where += " (after a leaf was edited)"
            d = q_stranger(where, old) or r.choice([q_hash, q_path, q_path, q_cb])(where)
        if d:
            return d
    return q_hash("end") or q_cb("end")


def p_reuse_cb(cv, svs, pvs, seed, nops):
    """ONE ControlBlock object (and reused Script objects): merkle_root / external_pubkey / serialize / == asked
    repeatedly with different scripts, interleaved with edits of tapleaf_version, parity, internal_pubkey, hashes
    (reassigned and mutated in place) and of the scripts' commands"""
    import random
    r = random.Random(seed)
    cb = mk_cb(cv)
    ver, par, pv, hashes = cv[0], cv[1], list(cv[2]), list(cv[3])
    scripts = [mk_script(sv) for sv in svs]

    def cur_root(k):
        raw = ref_script(scripts[k].commands)
        h = ref_leaf_hash(ver, raw)
        for x in hashes:
            h = ref_tagged(b"TapBranch", h + x if h < x else x + h)
        return h

    for step in range(nops):
        where = f"step {step}"
        k = r.random()
        j = r.randrange(len(scripts))
        if k < 0.25:
            if cb.merkle_root(scripts[j]) != cur_root(j):
                return f"{where}: merkle_root(script {j}) of the reused control block differs from the BIP341 recomputation"
        elif k < 0.37:
            q = cb.external_pubkey(scripts[j])
            if enc_point(q) != list(ref_output(pv[0], cur_root(j))):
                return f"{where}: external_pubkey(script {j}) of the reused control block differs from the BIP341 output key"
        elif k < 0.5:
            want = bytes([ver + par]) + pv[0].to_bytes(32, "big") + b"".join(hashes)
            if cb.serialize() != want:
                return f"{where}: serialize() of the reused control block differs from its current fields"
            if not (cb == mk_cb([ver, par, pv, hashes])):
                return f"{where}: the reused control block is not equal to a fresh one with the same fields"
            if cb == mk_cb([ver, par ^ 1, pv, hashes]) or cb == mk_cb([ver, par, pv, hashes + [bytes(32)]]):
                return f"{where}: the reused control block equals a control block with other fields"
        elif k < 0.6:
            ver = r.choice([v for v in EVEN_VERSIONS if v != ver])
            cb.tapleaf_version = ver
        elif k < 0.66:
            par ^= 1
            cb.parity = par
        elif k < 0.74:
            pv = list(r.choice([p for p in pvs if list(p) != pv]))
            cb.internal_pubkey = mk_point(pv)
        elif k < 0.92:
            m = r.randrange(5)
            h = bytes(r.getrandbits(8) for _ in range(32))
            if m == 0:
                hashes = [bytes(r.getrandbits(8) for _ in range(32)) for _ in range(r.randrange(0, 4))]
                cb.hashes = list(hashes)
            elif m == 1 or not hashes:
                hashes.append(h)
                cb.hashes.append(h)
            elif m == 2:
                hashes.pop()
                cb.hashes.pop()
            elif m == 3:
                i = r.randrange(len(hashes))
                hashes[i] = h
                cb.hashes[i] = h
            else:
                hashes.reverse()
                cb.hashes.reverse()
        else:
            scripts[j].commands[0] = bytes(r.getrandbits(8) for _ in range(r.randrange(1, 60)))
    return None


def p_reuse_key(secrets, roots, seed, nops):
    """a few PrivateKey / S256Point objects used alternately: tweak / tweaked_key / p2tr_script / even_point /
    even_secret asked with different merkle roots in different orders and twice in a row"""
    import random
    r = random.Random(seed)
    privs = [PrivateKey(s) for s in secrets]
    last = None
    for step in range(nops):
        if last is not None and r.random() < 0.25:
            i, root, k = last                      # the same question twice
        else:
            i, root, k = r.randrange(len(privs)), r.choice(roots), r.randrange(7)
        last = (i, root, k)
        priv, P = privs[i], privs[i].point
        where = f"step {step} (key {i}, root {root.hex()[:8] or 'empty'})"
        px = P.x.num
        t = ref_tagged(b"TapTweak", px.to_bytes(32, "big") + root)
        if k == 0:
            if P.tweak(root) != t:
                return f"{where}: tweak differs from H_TapTweak(x || root)"
        elif k == 1:
            if enc_point(P.tweaked_key(root)) != list(ref_output(px, root)):
                return f"{where}: tweaked_key differs from the BIP341 output key"
        elif k == 2:
            t2 = ref_tagged(b"TapTweak", px.to_bytes(32, "big") + root + b"x")     # an explicit tweak wins
            want = ref_add(ref_lift_x(px), ref_mul(int.from_bytes(t2, "big"), G_))
            if enc_point(P.tweaked_key(root, tweak=t2)) != list(want):
                return f"{where}: tweaked_key(tweak=...) differs from even(P) + tG"
        elif k == 3:
            q = ref_output(px, root)
            if list(P.p2tr_script(root).commands) != [0x51, q[0].to_bytes(32, "big")]:
                return f"{where}: p2tr_script differs from OP_1 <x(Q)>"
        elif k == 4:
            ev = P.even_point()
            if enc_point(ev) != list(ref_lift_x(px)) or P.xonly() != px.to_bytes(32, "big") or P.parity != P.y.num % 2:
                return f"{where}: even_point / xonly / parity"
        else:
            tw = priv.tweaked_key(root)
            e = secrets[i] if P.y.num % 2 == 0 else N_ - secrets[i]
            if priv.even_secret() != e:
                return f"{where}: even_secret"
            if tw.secret != (e + int.from_bytes(t, "big")) % N_:
                return f"{where}: tweaked secret differs from (even_secret + t) mod n"
            if enc_point(tw.point) != list(ref_output(px, root)):
                return f"{where}: tweaked private key is not the discrete log of the BIP341 output key"
    return None


def p_tagged_order(seq):
    """module-level tagged hashes called in the given order with different tags (prefixes of each other, equal
    lengths, repeated): each equals sha256(sha256(tag) || sha256(tag) || msg)"""
    from buidl import hash as bh
    named = {b"TapLeaf": bh.hash_tapleaf, b"TapBranch": bh.hash_tapbranch, b"TapTweak": bh.hash_taptweak,
             b"TapSighash": bh.hash_tapsighash, b"BIP0340/challenge": bh.hash_challenge}
    for n, (tag, msg) in enumerate(seq):
        if bh.tagged_hash(tag, msg) != ref_tagged(tag, msg):
            return f"call {n}: tagged_hash({tag!r}, ...) differs from the BIP340 tagged hash"
        if tag in named and named[tag](msg) != ref_tagged(tag, msg):
            return f"call {n}: the named tagged hash for {tag!r} differs from the BIP340 tagged hash"
    return None


def p_reuse_witness(items, pool, seed, nops):
    """ONE Witness object: has_annex / control_block / tap_script / tap_leaf asked repeatedly, interleaved with
    in-place edits of .items (append/pop an annex, replace an item, new list); each answer is compared with the
    BIP341 selection rule applied to the current items"""
    import random
    r = random.Random(seed)
    w = Witness(list(items))

    def outcome(f):
        try:
            return f()
        except Exception:
            return ERR_

    for step in range(nops):
        where = f"step {step}"
        cur = list(w.items)
        annex = len(cur) >= 2 and len(cur[-1]) > 0 and cur[-1][0] == 0x50
        k = r.random()
        if k < 0.2:
            if bool(w.has_annex()) != annex or len(w) != len(cur):
                return f"{where}: has_annex/len of the reused witness differ from the BIP341 rule on its current items"
        elif k < 0.4:
            got = outcome(lambda: enc_cb(w.control_block()))
            want = outcome(lambda: enc_cb(ControlBlock.parse(cur[-2] if annex else cur[-1])))
            if got != want:
                return f"{where}: control_block() of the reused witness is not the parse of the current control-block item"
        elif k < 0.6:
            got = outcome(lambda: w.tap_script().raw_serialize())
            want = outcome(lambda: Script.parse(raw=(cur[-3] if annex else cur[-2])).raw_serialize())
            if got != want:
                return f"{where}: tap_script() of the reused witness is not the parse of the current script item"
        elif k < 0.7:
            got = outcome(lambda: w.tap_leaf().hash())
            want = outcome(lambda: ref_leaf_hash(ControlBlock.parse(cur[-2] if annex else cur[-1]).tapleaf_version,
                                                 Script.parse(raw=(cur[-3] if annex else cur[-2])).raw_serialize()))
            if got != want:
                return f"{where}: tap_leaf() of the reused witness differs from the current items"
        else:
            m = r.randrange(5)
            if m == 0:
                w.items.append(b"\x50" + bytes(r.getrandbits(8) for _ in range(r.randrange(0, 4))))
            elif m == 1 and w.items:
                w.items.pop()
            elif m == 2 and w.items:
                w.items[r.randrange(len(w.items))] = r.choice(pool)
            elif m == 3:
                w.items = [r.choice(pool) for _ in range(r.randrange(0, 4))]
            else:
                w.items.insert(r.randrange(len(w.items) + 1), r.choice(pool))
    return None


ERR_ = "raises"


def p_cb_converse(raw):
    """ControlBlock.parse accepts exactly the lengths 33 + 32m (m <= 128) whose key bytes lift; every accepted
    byte string is the serialisation of what it parses to; == of parsed blocks is equality of the bytes"""
    n = len(raw)
    len_ok = n % 32 == 1 and 33 <= n <= 33 + 32 * 128
    x = int.from_bytes(raw[1:33], "big") if n >= 33 else None
    key_ok = len_ok and (x == 0 or ref_lift_x(x) is not None)
    try:
        cb = ControlBlock.parse(raw)
    except Exception:
        return "control block of an accepted length with a liftable key rejected" if key_ok else None
    if not key_ok:
        return f"control block of length {n} accepted" if not len_ok else "control block whose key bytes do not lift accepted"
    if cb.serialize() != raw:
        return "serialize(parse(raw)) differs from raw"
    if cb.tapleaf_version % 2 or not 0 <= cb.tapleaf_version <= 254 or cb.parity not in (0, 1) \
            or cb.tapleaf_version + cb.parity != raw[0] or len(cb.hashes) != (n - 33) // 32 \
            or any(len(h) != 32 for h in cb.hashes) or b"".join(cb.hashes) != raw[33:]:
        return "parsed fields are not the slices of the input"
    if not (cb == ControlBlock.parse(raw)):
        return "two parses of the same bytes are not =="
    for pos in {0, 1, 32, n - 1}:
        other = raw[:pos] + bytes([raw[pos] ^ 1]) + raw[pos + 1:]
        try:
            cb2 = ControlBlock.parse(other)
        except Exception:
            continue
        if cb2 == cb:
            return f"control blocks parsed from byte strings that differ at {pos} are =="
    return None


def p_sibling_cb(tv, bits, pv):
    """the control blocks built by the tree with rearranged siblings recompute the root and output key of the
    original tree, for every leaf"""
    tree = mk_tree(tv)
    P = mk_point(pv)
    root = tree.hash()
    ext = tree.external_pubkey(P)
    other = mk_tree(_mirror(tv, bits))
    if sorted(map(repr, tree_leaves(_mirror(tv, bits)))) != sorted(map(repr, tree_leaves(tv))):
        return "harness: mirror changed the leaves"
    for lv in tree_leaves(tv):
        leaf = mk_leaf(lv)
        cb = other.control_block(P, leaf)
        if cb is None:
            return "no control block in the rearranged tree"
        if cb.merkle_root(leaf.tap_script) != root:
            return "control block of the rearranged tree recomputes another root"
        back = ControlBlock.parse(cb.serialize())
        q = back.external_pubkey(leaf.tap_script)
        if q != ext or q.parity != cb.parity:
            return "control block of the rearranged tree recomputes another output key / parity"
    return None


def _perturb(tv, k, path):
    """tree value with the leaf reached by path changed: k=0 version, k=1 one script byte, k=2 replaced by a
    branch of two copies, k=3 an extra opcode"""
    if tv[0] == 1:
        if path and path[0]:
            return [1, tv[1], _perturb(tv[2], k, path[1:])]
        return [1, _perturb(tv[1], k, path[1:]), tv[2]]
    ver, sv = tv[1], tv[2]
    cmds = list(sv[0])
    if k == 0:
        return [0, ver ^ 2, sv]
    if k == 1:
        d = cmds[0]
        cmds[0] = bytes([d[0] ^ 1]) + d[1:]
        return [0, ver, [cmds, []]]
    if k == 2:
        return [1, tv, tv]
    return [0, ver, [cmds + [0x51], []]]


def p_binding(tv, k, path):
    """a tree that differs in one leaf (version, script byte, shape, extra opcode) has another merkle root and
    another output key under the same internal key"""
    other = _perturb(tv, k, path)
    if mk_tree(tv).hash() == mk_tree(other).hash():
        return "two different trees have the same merkle root"
    return None


def p_raw_shadow(cmds, raw):
    """a leaf whose script kept a .raw (inexact parse) placed after a leaf with equal commands: the control block
    the library builds for it must recompute the tree's root from the leaf's own script"""
    s1 = Script(list(cmds))
    s2 = Script.parse(raw=raw)
    if s2.commands != s1.commands or s2.raw is None:
        return None
    l1, l2 = TapLeaf(s1), TapLeaf(s2)
    tree = TapBranch(l1, l2)
    P = S256Point.parse_xonly(G_[0].to_bytes(32, "big"))
    cb = tree.control_block(P, l2)
    if cb is None:
        return "no control block for a leaf of the tree"
    if cb.merkle_root(l2.tap_script) != tree.hash():
        return "RAWSHADOW: the control block built for the second of two == leaves (equal commands, different " \
               "serialisation because one script kept its .raw) is the path of the FIRST leaf and does not " \
               "recompute the root from the second leaf's own script"
    return None


def classify(v):
    if v.get("kind") == "prop" and v.get("name") == "noncanonical" and "NONCANONICAL" in (v.get("detail") or ""):
        return "K-C12-leafhash-reserialised"
    if v.get("kind") == "prop" and v.get("name") == "raw_shadow" and "RAWSHADOW" in (v.get("detail") or ""):
        return "K-C12-raw-shadowed-leaf"
    return None


PROPS = {k: _quiet(v) for k, v in {"reuse_tree": p_reuse_tree, "reuse_cb": p_reuse_cb, "reuse_key": p_reuse_key,
                                   "tagged_order": p_tagged_order, "reuse_witness": p_reuse_witness,
                                   "annex": p_annex, "noncanonical": p_noncanonical, "tree": p_tree, "sibling": p_sibling, "priv_pub": p_priv_pub, "spend": p_spend,
                                   "tamper": p_tamper, "cb_codec": p_cb_codec, "cb_converse": p_cb_converse,
                                   "sibling_cb": p_sibling_cb, "binding": p_binding,
                                   "raw_shadow": p_raw_shadow}.items()}

# ------------------------------------------------------------------ audit round: entry points most callers bypass,
# default arguments / default-constructed objects, coincidences of special values, unusual byte classes, results edited
# and sources used again, failure followed by retry.  Expectations come from the int/hashlib reference only.
RULE += (" Audit: producers (P2PKTapScript from a point and from bytes, MultiSigTapScript, MuSigTapScript leaves, every "
         "TapRootMultiSig tree builder incl. k = n, a single key and timelocked leaves) with the tree's OWN leaf objects; "
         "calls with every optional argument omitted (tweak(), tweaked_key(), p2tr_script(), p2tr_address() on three "
         "networks against an independent bech32m encoder, PrivateKey.tweaked_key(), TapLeaf(script), Witness(), "
         "Witness(None), Witness([])), falsy explicit tweaks (b'' and 32 zero bytes); default-constructed witnesses "
         "edited while another one is observed; Witness.parse / serialize / clone as the way into the script-path check, "
         "the same witness verified twice and compared with its bytes afterwards; results (path lists, control blocks) "
         "edited in place and the tree asked again; failure (unserialisable leaf, key at infinity, stranger leaf, bad "
         "control-block length, non-bytes message) followed by the repaired question; one leaf / subtree OBJECT in "
         "several positions, identical siblings; the four (internal parity, output parity) combinations, internal and "
         "output keys whose x starts with a zero byte, all-zero / all-ff roots, hashes and scripts, a leaf script "
         "longer than 65535 bytes; internal keys obtained through parse_sec (02/03/04), parse, parse_xonly and point "
         "addition.")
BECH_ = "qpzry9x8gf2tvdw0s3jn54khce6mua7l"


def ref_p2tr_address(hrp, prog):
    """BIP350 bech32m address of the version-1 witness program prog"""
    def polymod(values):
        chk = 1
        for v in values:
            top = chk >> 25
            chk = (chk & 0x1ffffff) << 5 ^ v
            for i, g in enumerate((0x3b6a57b2, 0x26508e6d, 0x1ea119fa, 0x3d4233dd, 0x2a1462b3)):
                if (top >> i) & 1:
                    chk ^= g
        return chk
    data, acc, bits = [1], 0, 0
    for byte in prog:
        acc = (acc << 8) | byte
        bits += 8
        while bits >= 5:
            bits -= 5
            data.append((acc >> bits) & 31)
    if bits:
        data.append((acc << (5 - bits)) & 31)
    hx = [ord(c) >> 5 for c in hrp] + [0] + [ord(c) & 31 for c in hrp]
    pm = polymod(hx + data + [0] * 6) ^ 0x2bc830a3
    return hrp + "1" + "".join(BECH_[d] for d in data + [(pm >> 5 * (5 - i)) & 31 for i in range(6)])


def ref_witness_ser(items):
    return ref_compact(len(items)) + b"".join(ref_compact(len(i)) + i for i in items)


def _ref_cb_bytes(tv, idx, px, q):
    lvs = tree_leaves(tv)
    return bytes([lvs[idx][0] + q[1] % 2]) + px.to_bytes(32, "big") + b"".join(ref_path(tv, idx))


def p_defaults(secret, root):
    """every optional argument omitted, and falsy explicit ones: tweak(), tweaked_key(), p2tr_script(), p2tr_address(),
    PrivateKey.tweaked_key(), TapLeaf(script) against the BIP341 / BIP350 reference"""
    pt = ref_mul(secret, G_)
    priv = PrivateKey(secret)
    P = priv.point
    if enc_point(P) != list(pt):
        return "public key differs from secret * G"
    x = pt[0]
    xb = x.to_bytes(32, "big")
    t0 = ref_tagged(b"TapTweak", xb)
    q0 = ref_output(x, b"")
    qr = ref_output(x, root)
    if P.tweak() != t0:
        return "tweak() without arguments differs from H_TapTweak(x)"
    if enc_point(P.tweaked_key()) != list(q0):
        return "tweaked_key() without arguments differs from lift_x(P) + H_TapTweak(x) G"
    if list(P.p2tr_script().commands) != [0x51, q0[0].to_bytes(32, "big")]:
        return "p2tr_script() without arguments differs from OP_1 <x(Q)>"
    if P.p2tr_address() != ref_p2tr_address("bc", q0[0].to_bytes(32, "big")):
        return "p2tr_address() without arguments differs from the bech32m address of the key-path-only output key"
    for kw, hrp in (({"network": "signet"}, "tb"), ({"network": "regtest"}, "bcrt"), ({}, "bc")):
        if P.p2tr_address(root, **kw) != ref_p2tr_address(hrp, qr[0].to_bytes(32, "big")):
            return f"p2tr_address(root, {kw}) does not commit to the merkle root (differs from the bech32m address of Q)"
    if P.p2tr_address(merkle_root=root, network="testnet") != ref_p2tr_address("tb", qr[0].to_bytes(32, "big")):
        return "p2tr_address(merkle_root=...) does not commit to the merkle root"
    t2 = ref_tagged(b"TapTweak", xb + root + b"x")
    q2 = ref_add(ref_lift_x(x), ref_mul(int.from_bytes(t2, "big"), G_))
    if list(P.p2tr_script(root, t2).commands) != [0x51, q2[0].to_bytes(32, "big")]:
        return "p2tr_script(root, tweak) does not use the explicit tweak"
    if P.p2tr_address(root, t2, "signet") != ref_p2tr_address("tb", q2[0].to_bytes(32, "big")):
        return "p2tr_address(root, tweak, network) does not use the explicit tweak"
    for falsy in (b"", bytes(32)):
        if enc_point(P.tweaked_key(root, tweak=falsy)) != list(ref_lift_x(x)):
            return f"tweaked_key(root, tweak={falsy!r}) (t = 0) is not the even internal key"
    tw = priv.tweaked_key()
    e = secret if pt[1] % 2 == 0 else N_ - secret
    if tw.secret != (e + int.from_bytes(t0, "big")) % N_ or enc_point(tw.point) != list(q0):
        return "PrivateKey.tweaked_key() without arguments differs from (even_secret + t) mod n"
    for cmds in ([0x51], [xb, 0xac]):
        leaf = TapLeaf(Script(list(cmds)))
        if leaf.tapleaf_version != 0xc0 or leaf.hash() != ref_leaf_hash(0xc0, ref_script(cmds)):
            return "TapLeaf(script) without a version is not a version-0xc0 leaf"
    return None


def p_witness_default(items, extra):
    """default-constructed witnesses do not share state; clone / parse / serialize keep the stack"""
    items = list(items)
    for make in (lambda: Witness(), lambda: Witness(None), lambda: Witness([]), lambda: Witness(items=None)):
        a = make()
        if len(a) != 0 or a.items != [] or a.has_annex():
            return "a witness constructed without items is not empty"
        a.items.append(extra)
        a.items.extend(items)
        a.items.append(b"\x50" + extra)
        b = make()
        if len(b) != 0 or b.items != [] or b.has_annex():
            return "a witness constructed without items shows the items appended to ANOTHER such witness"
        b.items.append(b"zz")
        if a.items != [extra] + items + [b"\x50" + extra]:
            return "editing one default-constructed witness changed another one"
        del a.items[:]
    if Script().commands != [] or TapScript().commands != []:
        return "a default-constructed script is not empty"
    s1 = TapScript()
    s1.commands.append(0x51)
    if TapScript().commands != [] or TapScript().tap_leaf().hash() != ref_leaf_hash(0xc0, b""):
        return "a default-constructed TapScript shows the commands appended to another one"
    w = Witness(list(items))
    c = w.clone()
    w.items.append(b"\x50" + extra)
    if c.items != items or len(c) != len(items):
        return "clone() shares the item list with its source (append on the source shows in the clone)"
    c.items.insert(0, extra)
    c.items.pop()
    if w.items != items + [b"\x50" + extra]:
        return "clone() shares the item list with its source (edit of the clone shows in the source)"
    ser = ref_witness_ser(items)
    if Witness(list(items)).serialize() != ser:
        return "Witness.serialize differs from compact_size(count) || compact_size(len) || item ..."
    back = Witness.parse(io.BytesIO(ser + b"tail"))
    if back.items != items or len(back) != len(items) or any(back[i] != items[i] for i in range(len(items))):
        return "Witness.parse(serialisation) differs from the items"
    want = len(items) >= 2 and len(items[-1]) > 0 and items[-1][0] == 0x50
    if bool(back.has_annex()) != want or bool(c.has_annex()) != bool(Witness(list(c.items)).has_annex()):
        return "has_annex of a parsed / cloned witness differs from the BIP341 rule"
    return None


def p_respend(tv, pv, idx, annex):
    """script-path spend entered through Witness.parse of independently encoded bytes (reference control block, reference
    script bytes, reference output key): verifies, verifies AGAIN, and the witness still holds the same bytes afterwards
    (the annex is not eaten); a clone of the used witness verifies too"""
    px = pv[0]
    root = ref_root(tv)
    q = ref_output(px, root)
    lvs = tree_leaves(tv)
    raw_sc = ref_script(lvs[idx][1][0])
    items = [raw_sc, _ref_cb_bytes(tv, idx, px, q)]
    if annex:
        items.append(b"\x50" + annex)
    ser = ref_witness_ser(items)
    tx_obj, tx_in = _spend_tx(P2TRScriptPubKey(q[0].to_bytes(32, "big")))
    w = Witness.parse(io.BytesIO(ser))
    tx_in.witness = w
    for n in (1, 2):
        try:
            ok = bool(tx_obj.verify_input(0))
        except Exception as e:
            return f"verification number {n} of the reference script-path witness raises {type(e).__name__}"
        if not ok:
            return f"verification number {n} of the reference script-path witness fails"
        if tx_in.witness is not w or w.items != items or w.serialize() != ser:
            return f"the witness of the input changed during verification number {n} (annex / items eaten)"
    got = outcome_(lambda: w.control_block().serialize())
    if got != items[1]:
        return "control_block() of the used witness is no longer the control-block item"
    tx_in.witness = w.clone()
    w.items.clear()
    if not _verify_keep(tx_obj):
        return "a clone of the witness does not verify after its source was emptied"
    # the tree's own control block is the reference one
    cb = mk_tree(tv).control_block(mk_point(pv), mk_leaf(lvs[idx]))
    if cb is None or cb.serialize() != items[1]:
        return "the control block built by the library differs from version+parity || x(P) || sibling path"
    return None


def outcome_(f):
    try:
        return f()
    except Exception:
        return ERR_


def _verify_keep(tx_obj):
    try:
        return bool(tx_obj.verify_input(0))
    except Exception:
        return False


def _check_cb(cb, tv, idx, px, q, where):
    lvs = tree_leaves(tv)
    if cb is None:
        return f"{where}: no control block for leaf {idx}"
    if cb.tapleaf_version != lvs[idx][0] or cb.parity != q[1] % 2 or list(cb.hashes) != ref_path(tv, idx) \
            or cb.internal_pubkey.xonly() != px.to_bytes(32, "big"):
        return f"{where}: control block fields of leaf {idx} differ from (version, parity of Q, P, sibling path)"
    if cb.serialize() != _ref_cb_bytes(tv, idx, px, q):
        return f"{where}: control block bytes of leaf {idx} differ from the reference"
    if cb.merkle_root(mk_script(lvs[idx][1])) != ref_root(tv):
        return f"{where}: control block of leaf {idx} does not recompute the merkle root"
    return None


def p_result_edit(tv, pv, seed):
    """answers (path lists, control blocks, leaf lists of leaves) edited in place by the caller, then the SAME tree asked
    again: the second answer is the reference again and is a new object"""
    import random
    r = random.Random(seed)
    tree = mk_tree(tv)
    P = mk_point(pv)
    px = pv[0]
    q = ref_output(px, ref_root(tv))
    lvs = tree_leaves(tv)
    objs = _leaf_objs(tree)
    junk = bytes(r.getrandbits(8) for _ in range(32))
    alive = []
    for idx in sorted(r.sample(range(len(lvs)), min(2, len(lvs)))):
        arg = objs[idx] if r.random() < 0.5 else mk_leaf(lvs[idx])
        ph = tree.path_hashes(arg)
        if list(ph) != ref_path(tv, idx):
            return f"path_hashes(leaf {idx}) differs from the sibling path"
        ph.append(junk)
        ph.reverse()
        if ph:
            ph[0] = junk
        ph2 = tree.path_hashes(arg)
        if ph2 is ph or list(ph2) != ref_path(tv, idx):
            return f"path_hashes(leaf {idx}) after the caller edited the previous answer differs from the sibling path"
        cb = tree.control_block(P, arg)
        d = _check_cb(cb, tv, idx, px, q, "first answer")
        if d:
            return d
        cb.hashes.append(junk)
        cb.hashes.reverse()
        cb.tapleaf_version ^= 2
        cb.parity ^= 1
        cb.internal_pubkey = mk_point([G_[0], G_[1]])
        cb2 = tree.control_block(P, arg)
        d = _check_cb(cb2, tv, idx, px, q, "after the caller edited the previous control block")
        if d:
            return d
        if cb2 is cb or cb2.hashes is cb.hashes:
            return "two control blocks handed out by the tree share their hash list"
        cb3 = tree.control_block(P, arg)
        alive.append((idx, cb3, ControlBlock.parse(_ref_cb_bytes(tv, idx, px, q))))
        cb2.hashes.clear()
        if list(tree.path_hashes(arg)) != ref_path(tv, idx):
            return "path_hashes after the caller emptied a control block's hash list differs from the sibling path"
    for idx, cb3, parsed in alive:
        for c, what in ((cb3, "built"), (parsed, "parsed")):
            d = _check_cb(c, tv, idx, px, q, f"{what} control block kept while others were {what} and edited")
            if d:
                return d
    if len(alive) == 2 and (alive[0][1].hashes is alive[1][1].hashes or alive[0][2].hashes is alive[1][2].hashes):
        return "two live control blocks share their hash list"
    if tree.hash() != ref_root(tv) or enc_point(tree.external_pubkey(P)) != list(q):
        return "root / output key changed after the caller edited answers"
    # single leaves as whole trees: the empty path of one control block is not the empty path of the next
    la, lb = mk_leaf(lvs[0]), mk_leaf(lvs[-1])
    ca = la.control_block(P)
    ca.hashes.append(junk)
    la.path_hashes(None).append(junk)
    la.leaves().append(lb)
    for leaf, lv in ((lb, lvs[-1]), (la, lvs[0])):
        for c in (leaf.control_block(P), leaf.control_block(P, mk_leaf(lv))):
            qs = ref_output(px, ref_root([0] + lv))
            if c is None or c.hashes != [] or c.serialize() != bytes([lv[0] + qs[1] % 2]) + px.to_bytes(32, "big"):
                return "the control block of a single-leaf tree is not version+parity || x(P) after ANOTHER control " \
                       "block's (empty) hash list was appended to"
        if leaf.path_hashes(leaf) != [] or len(leaf.leaves()) != 1 or leaf.leaves()[0] is not leaf:
            return "path_hashes / leaves of a single leaf changed after the caller edited a previous answer"
    return None


def p_shared_nodes(svs, vers):
    """ONE leaf object / ONE subtree object placed at several positions of a tree (and identical siblings built from
    separate objects): root and every sibling path equal the BIP341 reference of the tree read through its fields"""
    ls = [TapLeaf(mk_script(sv), v) for sv, v in zip(svs, vers)]
    sub = TapBranch(ls[0], ls[1])
    trees = [TapBranch(ls[0], ls[0]), TapBranch(sub, sub), TapBranch(sub, TapBranch(ls[2], sub)),
             TapBranch(TapBranch(ls[0], ls[0]), TapBranch(ls[0], ls[0])),
             TapBranch(mk_leaf([vers[0], svs[0]]), mk_leaf([vers[0], svs[0]])),
             TapBranch(TapBranch(sub, ls[2]), TapBranch(ls[2], sub))]
    for n, tree in enumerate(trees):
        for rep in (0, 1):
            cur = enc_tree(tree)
            root = ref_root(cur)
            if tree.hash() != root:
                return f"tree {n}: root of a tree with a shared node differs from the reference"
            lvs = tree_leaves(cur)
            got = tree.leaves()
            want = _leaf_objs(tree)
            if len(got) != len(want) or any(a is not b for a, b in zip(got, want)):
                return f"tree {n}: leaves() is not the in-order leaf list"
            for i, lv in enumerate(lvs):
                first = [j for j, o in enumerate(lvs) if o == lv][0]          # == leaves: the leftmost position answers
                ph = tree.path_hashes(want[i])
                if ph is None or list(ph) != ref_path(cur, first):
                    return f"tree {n}: path_hashes(leaf {i}) differs from the sibling path of its leftmost occurrence"
                cb = ControlBlock(lv[0], 0, None, ph)
                if cb.merkle_root(want[i].tap_script) != root:
                    return f"tree {n}: the path of leaf {i} does not recompute the root"
    return None


def p_retry(tv, pv, seed):
    """a question that fails (unserialisable leaf, key at infinity, leaf not in the tree, malformed control block,
    message of the wrong type) followed by the repaired question on the SAME objects: the answer is the reference"""
    from buidl import hash as bh
    tree = mk_tree(tv)
    P = mk_point(pv)
    px = pv[0]
    objs = _leaf_objs(tree)
    victim = objs[-1]
    good = victim.tap_script
    victim.tap_script = Script([bytes(521)])
    failed = 0
    for f in (tree.hash, tree.leaves, lambda: tree.path_hashes(objs[0]), lambda: tree.control_block(P, objs[0]),
              lambda: tree.external_pubkey(P), lambda: tree.control_block(P, victim), lambda: victim.control_block(P)):
        failed += outcome_(f) == ERR_
    if not failed:
        return "harness: no question failed on a tree with an unserialisable leaf"
    victim.tap_script = good
    outcome_(lambda: tree.control_block(S256Point(None, None), objs[0]))
    outcome_(lambda: tree.external_pubkey(S256Point(None, None)))
    stranger = TapLeaf(Script([b"not in the tree", 0x75, 0x51]))
    if len(objs) > 1 and (tree.control_block(P, stranger) is not None or tree.path_hashes(stranger) is not None):
        return "control block / path handed out for a leaf that is not in the tree"
    outcome_(lambda: P.tweaked_key("not bytes"))
    outcome_(lambda: P.tweak(None))
    if len(objs) > 1:
        objs[0].tap_script = Script(list(stranger.tap_script.commands))       # the stranger is a member now
        objs[0].tapleaf_version = 0xc0
        ph = tree.path_hashes(stranger)
        if ph is None or list(ph) != ref_path(enc_tree(tree), 0):
            return "a leaf that was asked for before it was put into the tree gets no / a wrong path afterwards"
        if tree.control_block(P, stranger) is None:
            return "a leaf that was asked for before it was put into the tree gets no control block afterwards"
    cur = enc_tree(tree)
    root = ref_root(cur)
    q = ref_output(px, root)
    if tree.hash() != root:
        return "root after a failed question differs from the reference"
    if enc_point(tree.external_pubkey(P)) != list(q):
        return "output key after a failed question differs from the reference"
    for idx in (0, len(objs) - 1):
        d = _check_cb(tree.control_block(P, objs[idx]), cur, idx, px, q, "after a failed question")
        if d:
            return d
    raw = _ref_cb_bytes(cur, 0, px, q)
    for bad in (raw[:-1], raw + b"\x00", raw[:32], b"", bytes([raw[0]]) + (P_ + 1).to_bytes(32, "big") + raw[33:]):
        if outcome_(lambda: ControlBlock.parse(bad)) != ERR_:
            return "malformed control block accepted"
        if outcome_(lambda: ControlBlock.parse(raw).serialize()) != raw:
            return "control block codec after a rejected parse"
    tag = b"audit/" + seed.to_bytes(4, "big")
    for t in (tag, b"TapLeaf", b"TapBranch", b"TapTweak"):
        for badmsg in ("text", None, 5):
            if outcome_(lambda: bh.tagged_hash(t, badmsg)) != ERR_:
                return "tagged_hash accepts a message that is not bytes"
        if bh.tagged_hash(t, b"m" + tag) != ref_tagged(t, b"m" + tag):
            return f"tagged_hash({t!r}) after a failed call differs from the BIP340 tagged hash"
    if bh.hash_tapleaf(b"x") != ref_tagged(b"TapLeaf", b"x") or tree.hash() != root:
        return "TapLeaf hash after failed tagged-hash calls"
    return None


def ref_multisig_cmds(xonlys, k):
    xs = sorted(xonlys)
    cmds = [xs[0], 0xac]
    if len(xs) > 1:
        for x in xs[1:]:
            cmds += [x, 0xba]
        cmds += [0x50 + k, 0x87]
    return cmds


def p_producers(secrets, k, mode):
    """trees and leaves made by the library's producers (P2PKTapScript, MultiSigTapScript, MuSigTapScript leaves,
    TapRootMultiSig.*): read through their public fields they commit as BIP341 says, and every leaf OBJECT of the tree
    gets its own sibling path / control block"""
    from buidl.taproot import MultiSigTapScript, P2PKTapScript, TapRootMultiSig
    from buidl.timelock import Locktime, Sequence
    pts = [ref_mul(s, G_) for s in secrets]
    xonlys = [p[0].to_bytes(32, "big") for p in pts]
    points = [S256Point(p[0], p[1]) for p in pts]
    n = len(points)
    import math
    if mode == 0:
        # single-key and multisig leaf scripts, from points and from bytes
        for p, xb in zip(points, xonlys):
            for arg in (p, xb):
                leaf = P2PKTapScript(arg).tap_leaf()
                if leaf.tapleaf_version != 0xc0 or leaf.hash() != ref_leaf_hash(0xc0, b"\x20" + xb + b"\xac"):
                    return "P2PKTapScript(...).tap_leaf() is not the version-0xc0 leaf of <x> OP_CHECKSIG"
        ms = MultiSigTapScript(points, k)
        want = ref_script(ref_multisig_cmds(xonlys, k))
        if ms.tap_leaf().hash() != ref_leaf_hash(0xc0, want) or ms.raw_serialize() != want:
            return "MultiSigTapScript(...).tap_leaf() is not the leaf of the sorted-key CHECKSIGADD script"
        if MultiSigTapScript(points[::-1], k).tap_leaf().hash() != ms.tap_leaf().hash():
            return "MultiSigTapScript leaf depends on the order of the keys"
        a = MultiSigTapScript(points, k, locktime=Locktime(500000001))
        b = MultiSigTapScript(points, k, sequence=Sequence.from_relative_blocks(7))
        hs = {ms.tap_leaf().hash(), a.tap_leaf().hash(), b.tap_leaf().hash()}
        if len(hs) != 3:
            return "leaves with / without a timelock have the same leaf hash"
        for s in (a, b):
            tail = ref_multisig_cmds(xonlys, k)
            if s.tap_leaf().hash() != ref_leaf_hash(0xc0, ref_script(s.commands)) or s.commands[-len(tail):] != tail \
                    or len(s.commands) != len(tail) + 3 or s.commands[1:3] not in ([0xb1, 0x75], [0xb2, 0x75]):
                return "timelocked multisig leaf is not <timelock> || the sorted-key CHECKSIGADD script"
        return None
    m = TapRootMultiSig(points, k)
    comb = math.comb(n, k)
    if mode == 1:
        trees = [(m.single_leaf(), 1), (m.multi_leaf_tree(), comb), (m.everything_tree(), 1 + 2 * comb)]
    elif mode == 2:
        trees = [(m.musig_and_single_leaf_tree(), 1 + comb), (m.musig_tree(), comb)]
    else:
        trees = [(m.degrading_multisig_tree(sequence_block_interval=6), sum(math.comb(n, j) for j in range(1, k + 1))),
                 (m.degrading_multisig_tree(sequence_time_interval=512 * 3), sum(math.comb(n, j) for j in range(1, k + 1))),
                 (m.single_leaf(sequence=Sequence.from_relative_blocks(9)), 1),
                 (m.multi_leaf_tree(locktime=Locktime(700000)), comb)]
    P = m.default_internal_pubkey if mode == 2 else points[0]
    px = P.x.num
    for tn, (tree, count) in enumerate(trees):
        cur = enc_tree(tree)
        lvs = tree_leaves(cur)
        objs = _leaf_objs(tree)
        where = f"mode {mode} tree {tn}"
        if len(lvs) != count:
            return f"{where}: {len(lvs)} leaves, expected {count}"
        if any(lv[0] != 0xc0 or lv[1][1] for lv in lvs):
            return f"{where}: a produced leaf is not a plain version-0xc0 leaf"
        if mode == 1 and tn < 2:
            import itertools
            wanted = [ref_multisig_cmds(list(c), k) for c in itertools.combinations(xonlys, k)] if tn else \
                [ref_multisig_cmds(xonlys, k)]
            if [lv[1][0] for lv in lvs] != wanted:
                return f"{where}: leaf scripts are not the k-of-k scripts of the key combinations"
        root = ref_root(cur)
        if tree.hash() != root:
            return f"{where}: root differs from the BIP341 root of the produced tree"
        for i, o in enumerate(objs):
            first = [j for j, lv in enumerate(lvs) if lv == lvs[i]][0]
            ph = tree.path_hashes(o)
            if ph is None or list(ph) != ref_path(cur, first):
                return f"{where}: path_hashes(leaf object {i}) differs from the sibling path"
            ph = tree.path_hashes(mk_leaf(lvs[i]))
            if ph is None or list(ph) != ref_path(cur, first):
                return f"{where}: path_hashes(plain leaf with the version and script of leaf {i}) differs from the sibling path"
        q = ref_output(px, root)
        if enc_point(tree.external_pubkey(P)) != list(q):
            return f"{where}: output key differs from the BIP341 reference"
        for i in sorted({0, len(objs) - 1}):
            if [j for j, lv in enumerate(lvs) if lv == lvs[i]][0] != i:
                continue
            d = _check_cb(tree.control_block(P, objs[i]), cur, i, px, q, where)
            if d:
                return d
    return None


def p_key_routes(secret, root):
    """the same internal key obtained through every constructor (coordinates, SEC 02/03/04, x-only, parse, a sum of
    points, secret * G), both y: parity, x-only bytes, even point, output key and a one-leaf control block equal the
    reference"""
    pt = ref_mul(secret, G_)
    one_less = ref_mul(secret - 1, G_)
    x = pt[0]
    xb = x.to_bytes(32, "big")
    q = ref_output(x, root)
    for y in (pt[1], P_ - pt[1]):
        yb = y.to_bytes(32, "big")
        routes = [("S256Point(x, y)", lambda: S256Point(x, y)),
                  ("parse_sec(compressed)", lambda: S256Point.parse_sec(bytes([2 + y % 2]) + xb)),
                  ("parse(compressed)", lambda: S256Point.parse(bytes([2 + y % 2]) + xb)),
                  ("parse_sec(uncompressed)", lambda: S256Point.parse_sec(b"\x04" + xb + yb)),
                  ("parse(uncompressed)", lambda: S256Point.parse(b"\x04" + xb + yb))]
        if y % 2 == 0:
            routes += [("parse_xonly", lambda: S256Point.parse_xonly(xb)), ("parse(x-only)", lambda: S256Point.parse(xb))]
        if y == pt[1]:
            routes += [("(s-1)G + G", lambda: S256Point(one_less[0], one_less[1]) + S256Point(G_[0], G_[1])),
                       ("PrivateKey(s).point", lambda: PrivateKey(secret).point)]
        for name, make in routes:
            Pt = make()
            if enc_point(Pt) != [x, y] or Pt.parity != y % 2 or Pt.xonly() != xb:
                return f"{name}: coordinates / parity / x-only bytes"
            if enc_point(Pt.even_point()) != list(ref_lift_x(x)):
                return f"{name}: even_point"
            if Pt.tweak(root) != ref_tagged(b"TapTweak", xb + root):
                return f"{name}: tweak"
            if name.startswith("parse("):
                continue                                   # a dispatcher over the two parsers checked in full
            if enc_point(Pt.tweaked_key(root)) != list(q):
                return f"{name}: output key differs from lift_x(x) + tG"
        leaf = TapLeaf(Script([xb, 0xac]))
        ql = ref_output(x, ref_leaf_hash(0xc0, b"\x20" + xb + b"\xac"))
        cb = leaf.control_block(make())
        if cb.serialize() != bytes([0xc0 + ql[1] % 2]) + xb:
            return "one-leaf control block under a key obtained by parsing"
    return None


def p_p2pk_entry(secret):
    """S256Point.p2pk_tap_script() is the single-key leaf script <x> OP_CHECKSIG of the point (the shortcut next to
    p2tr_script / p2tr_address)"""
    pt = ref_mul(secret, G_)
    P = S256Point(pt[0], pt[1])
    xb = pt[0].to_bytes(32, "big")
    try:
        sc = P.p2pk_tap_script()
    except Exception as e:                  # fixed in cf7650d: the import named buidl.script instead of buidl.taproot
        return f"S256Point.p2pk_tap_script() raises {type(e).__name__}: {e}"
    if list(sc.commands) != [xb, 0xac] or sc.tap_leaf().tapleaf_version != 0xc0:
        return "p2pk_tap_script() is not <x-only> OP_CHECKSIG at leaf version 0xc0"
    if sc.raw_serialize() != b"\x20" + xb + b"\xac" or sc.tap_leaf().hash() != ref_leaf_hash(0xc0, b"\x20" + xb + b"\xac"):
        return "p2pk_tap_script() is not the version-0xc0 leaf script <x> OP_CHECKSIG"
    return None


PROPS.update({k: _quiet(v) for k, v in {"p2pk_entry": p_p2pk_entry, "defaults": p_defaults, "witness_default": p_witness_default,
                                        "respend": p_respend, "result_edit": p_result_edit,
                                        "shared_nodes": p_shared_nodes, "retry": p_retry, "producers": p_producers,
                                        "key_routes": p_key_routes}.items()})


def _grind_key(cond, start=1):
    """smallest secret >= start whose public key (reference arithmetic) satisfies cond"""
    pt = ref_mul(start, G_)
    s = start
    while not cond(pt):
        pt = ref_add(pt, G_)
        s += 1
    return s, [pt[0], pt[1]]


def audit_cases(ctx):
    r = ctx.rng
    thorough = ctx.tier == "thorough"
    # (c)/(f) the four (internal parity, output parity) combinations on a one-leaf and a three-leaf tree
    for par in (0, 1):
        for out in (0, 1):
            s, pv = _grind_key(lambda p: p[1] % 2 == par, 3 + par)
            i = 0
            while True:
                leaf = [0, 0xc0 if out == par else 0xc2, [[bytes([par, out, i]), 0x75, 0x51], []]]
                tv = leaf if par == out else [1, [0, 0xfe, [[b"\x01", 0x75, 0x52], []]], [1, leaf, [0, 0xc0, [[b"\x02", 0x75, 0x53], []]]]]
                if ref_output(pv[0], ref_root(tv))[1] % 2 == out:
                    break
                i += 1
            ctx.label(f"audit/parity internal={par} output={out}")
            yield ("prop", "tree", [tv, pv])
            yield ("corr", "control_block", [tv, pv, tree_leaves(tv)[-1]])
            if par != out:
                yield ("prop", "respend", [tv, pv, 1, b"" if par else b"\x01\x02"])
    # (d) internal key / output key whose x starts with a zero byte
    s0, pz = _grind_key(lambda p: p[0] >> 248 == 0)
    for pv in (pz, [pz[0], P_ - pz[1]]):
        tv = [1, [0, 0xc0, [[b"lz", 0x75, 0x51], []]], [0, 0xc2, [[bytes(20), 0x75, 0x51], []]]]
        ctx.label("audit/internal key x with a leading zero byte")
        yield ("prop", "tree", [tv, pv])
        yield ("corr", "tree_external_pubkey", [tv, pv])
        yield ("corr", "cb_parse", [bytes([0xc1]) + pv[0].to_bytes(32, "big") + bytes(32)])
        yield ("prop", "cb_converse", [bytes([0xc1]) + pv[0].to_bytes(32, "big") + b"\xff" * 32])
    zroot = hashlib.sha256((111).to_bytes(2, "big")).digest()        # ground offline: first counter with x(Q) < 2^248
    assert s0 == 153 and ref_output(pz[0], zroot)[0] >> 248 == 0
    ctx.label("audit/output key x with a leading zero byte")
    yield ("corr", "tweaked_key", [pz, zroot])
    yield ("corr", "priv_tweaked_key", [s0, zroot])
    yield ("prop", "priv_pub", [s0, zroot])
    yield ("prop", "defaults", [s0, zroot])
    ctx.label("audit/defaults")
    yield ("prop", "defaults", [_grind_key(lambda p: p[1] % 2 == 1, 11)[0], b"\xff" * 32])
    # (d) all-zero / all-ff roots, sibling hashes, scripts; (c) leaf hash == sibling hash
    for root in (bytes(32), b"\xff" * 32, bytes(31) + b"\x01", b"\x00"):
        yield ("corr", "tweak", [pz, root])
        yield ("corr", "priv_tweaked_key", [N_ - s0, root])
    sv_zero, sv_ff = [[0x00] * 40, []], [[bytes(75), b"\xff" * 76, 0x75, 0x75, 0x51], []]
    for hs in ([bytes(32)], [b"\xff" * 32], [bytes(32), b"\xff" * 32, bytes(32)], [b"\xff" * 32] * 3):
        for sv in (sv_zero, sv_ff):
            ctx.label("audit/all-zero all-ff hashes")
            yield ("corr", "cb_merkle_root", [[0x00, 0, pz, hs], sv])
        yield ("prop", "reuse_cb", [[0xfe, 1, pz, hs], [sv_zero, sv_ff, [[b"\x00", 0x75, 0x51], []]],
                                    [pz, [pz[0], P_ - pz[1]]], r.getrandbits(30), 12])
    own = ref_leaf_hash(0xc0, ref_script(sv_ff[0]))
    yield ("corr", "cb_merkle_root", [[0xc0, 0, pz, [own, own]], sv_ff])           # sibling hash == own hash
    tz = [1, [0, 0xc0, sv_zero], [1, [0, 0x00, sv_ff], [0, 0xfe, sv_zero]]]
    yield ("corr", "tree_hash", [tz])
    yield ("prop", "tree", [tz, pz])
    # (d) a leaf script longer than 65535 bytes (compact size with the 0xfe prefix)
    huge = [0, 0xc0, [[bytes([j]) * 520 for j in range(127)] + [0x6d] * 63 + [0x75, 0x51], []]]
    ctx.label("audit/leaf script longer than 65535 bytes")
    yield ("corr", "leaf_hash", [[huge[1], huge[2]]])
    yield ("corr", "tree_hash", [[1, huge, [0, 0xc0, sv_zero]]])
    yield ("prop", "sibling", [[1, huge, [0, 0xc0, sv_zero]], 1])
    yield ("prop", "binding", [[1, huge, [0, 0xc0, [[b"\x07"], []]]], 1, [0]])
    yield ("prop", "tree", [[1, [0, 0xc0, sv_zero], huge], pz])
    # (c) identical siblings, one object at several positions
    la = [0, 0xc0, [[b"same", 0x75, 0x51], []]]
    for tv in ([1, la, la], [1, [1, la, la], [1, la, la]], [1, la, [1, [0, 0xc2, la[2]], la]]):
        ctx.label("audit/identical siblings")
        yield ("corr", "tree_hash", [tv])
        for lv in tree_leaves(tv)[-2:]:
            yield ("corr", "path_hashes", [tv, lv])
        yield ("corr", "control_block", [tv, pz, tree_leaves(tv)[-1]])
    yield ("prop", "sibling_cb", [[1, la, [1, [0, 0xc2, la[2]], la]], 1, pz])
    yield ("prop", "tree", [[1, la, la], pz])
    for _ in range(ctx.n(2, 10)):
        svs = [true_script(r, ctx, i, big=(i == 1 and r.random() < 0.5)) for i in range(3)]
        ctx.label("audit/shared node objects")
        yield ("prop", "shared_nodes", [svs, [r.choice(VERSIONS) for _ in range(3)]])
    # (b) default-constructed witnesses; (a) Witness.parse / clone / serialize
    for items in ([], [b""], [b"a", b"\x50"], [b"\x51", bytes([0xc0]) + G_[0].to_bytes(32, "big")], [bytes(300), b"", b"\x50" * 3],
                  [b"x"] * 253):
        ctx.label("audit/witness defaults, clone, parse")
        yield ("prop", "witness_default", [items, ctx.rbytes(r.randrange(0, 4))])
    # (g) results edited and the tree asked again; failure then retry; (a) reference-built witness verified twice
    _, pe = key_of_parity(r, 0)
    _, po = key_of_parity(r, 1)
    shapes_ = [(None, None), ((None, (None, None)), (None, None))] + [rand_shape(r, r.randrange(2, 9)) for _ in range(ctx.n(0, 12))]
    for num, shape in enumerate(shapes_):
        tv = fill(shape, r, ctx)
        pv = pe if num % 2 == 0 else po
        ctx.label("audit/result edited, source asked again")
        yield ("prop", "result_edit", [tv, pv, r.getrandbits(30)])
        ctx.label("audit/failure then retry")
        yield ("prop", "retry", [tv, po if num % 2 == 0 else pe, r.getrandbits(30)])
        lvs = tree_leaves(tv)
        idx = r.randrange(len(lvs))
        ctx.label("audit/reference witness verified twice")
        yield ("prop", "respend", [tv, pv, idx, [b"", b"\x00", ctx.rbytes(3)][num % 3]])
        yield ("prop", "respend", [tv, pv, (idx + 1) % len(lvs), ctx.rbytes(1 + num)])
    # (a) producers
    base = 2 + r.randrange(1 << 16)
    for mode, secrets, k in ([(0, [base, base + 1, base + 2], 2), (0, [153, base + 3], 1), (1, [base, base + 1, base + 2], 2),
                              (1, [base + 1, base], 2), (2, [base, base + 1, base + 2], 2), (3, [base, base + 1, base + 2], 2)]
                             + ([(1, [base + i for i in range(4)], 3), (3, [base + i for i in range(4)], 3)] if thorough else [])):
        ctx.label(f"audit/producers mode={mode} n={len(secrets)} k={k}")
        yield ("prop", "producers", [secrets, k, mode])
    ctx.label("audit/S256Point.p2pk_tap_script")
    yield ("prop", "p2pk_entry", [153])
    yield ("prop", "p2pk_entry", [N_ - base])
    # (a) the same key through every constructor
    for s in [base + 7] + [rand_secret(r) for _ in range(ctx.n(0, 6))]:
        ctx.label("audit/key routes")
        yield ("prop", "key_routes", [s, ctx.rbytes(32)])


# ------------------------------------------------------------------ generators


def shapes(n):
    if n == 1:
        yield None
        return
    for i in range(1, n):
        for a in shapes(i):
            for b in shapes(n - i):
                yield (a, b)


def rand_shape(r, n):
    if n == 1:
        return None
    i = r.randrange(1, n)
    return (rand_shape(r, i), rand_shape(r, n - i))


def true_script(r, ctx, i, big=False):
    """a script that leaves true: <data> OP_DROP OP_k ; distinct per leaf through the data"""
    ln = r.choice([1, 2, 5, 20, 32, 33, 40, 74, 75]) if not big else r.choice([76, 77, 255, 256, 300, 520])
    data = bytes([i]) + ctx.rbytes(ln - 1)
    return [[data, 0x75, 0x51 + r.randrange(0, 16)], []]


VERSIONS = [0xc0, 0xc0, 0xc0, 0xc2, 0x02, 0xfe, 0x00, 0x66, 0xc4]


def fill(shape, r, ctx, spendable=True, counter=None):
    counter = counter if counter is not None else [0]
    if shape is None:
        i = counter[0]
        counter[0] += 1
        ver = r.choice(VERSIONS)
        big = r.random() < 0.12
        return [0, ver, true_script(r, ctx, i, big)]
    return [1, fill(shape[0], r, ctx, spendable, counter), fill(shape[1], r, ctx, spendable, counter)]


def rand_secret(r):
    k = r.random()
    if k < 0.4:
        return r.randrange(1, 1 << 20)
    if k < 0.5:
        return N_ - r.randrange(1, 1 << 12)
    return r.randrange(1, N_)


_keys = {}


def key_of_parity(r, par):
    while True:
        s = rand_secret(r)
        if s not in _keys:
            _keys[s] = PrivateKey(s).point
        pt = _keys[s]
        if pt.parity == par:
            return s, enc_point(pt)


def generate(ctx):
    r = ctx.rng
    # --- bytes ordering
    for _ in range(ctx.n(60, 2000)):
        a = ctx.rbytes(r.randrange(0, 5))
        b = a[: r.randrange(0, len(a) + 1)] + ctx.rbytes(r.randrange(0, 3)) if r.random() < 0.6 else ctx.rbytes(r.randrange(0, 5))
        yield ("corr", "blt", [a, b])
    yield ("corr", "blt", [b"", b""])
    # --- leaf hashes over every serialisation form
    for ln in [0, 1, 74, 75, 76, 77, 240, 248, 249, 250, 251, 252, 253, 255, 256, 257, 519, 520, 521, 600]:
        for ver in (0xc0, 0xc1, 0x00, 0xff, 0x100, -1):
            if ver != 0xc0 and ln not in (0, 75, 521):
                continue
            lv = [ver, [[ctx.rbytes(ln), 0xac], []]]
            ctx.label("leaf/unserialisable" if ln > 520 or not 0 <= ver <= 255 else "leaf/ok")
            yield ("corr", "leaf_hash", [lv])
    yield ("corr", "leaf_hash", [[0xc0, [[0x51, 256], []]]])
    yield ("corr", "leaf_hash", [[0xc0, [[0x51], [b"\x02\xaa"]]]])       # a script that kept its .raw
    yield ("corr", "leaf_hash", [[0xc0, [[], []]]])
    # --- trees
    if ctx.tier == "thorough":
        todo = [(n, s) for n in range(1, 7) for s in shapes(n)]
        todo += [(n, rand_shape(r, n)) for n in (7, 8) for _ in range(ctx.n(4, 12))]
    else:
        todo = [(1, None), (2, (None, None))] + [(n, rand_shape(r, n)) for n in (3, 4, 5, 6, 7, 8)
                                                   for _ in range(ctx.n(2))]
    spend_cases = []
    for num, (n, shape) in enumerate(todo):
        tv = fill(shape, r, ctx)
        par = num % 2
        _, pv = key_of_parity(r, par)
        ctx.label(f"tree/leaves={n}")
        ctx.label(f"tree/internal-key-parity={par}")
        yield ("corr", "tree_hash", [tv])
        yield ("prop", "sibling", [tv, r.getrandbits(max(1, n - 1))])
        lvs = tree_leaves(tv)
        for lv in lvs:
            yield ("corr", "path_hashes", [tv, lv])
        for lv in r.sample(lvs, min(len(lvs), 2 if ctx.tier == "quick" else 3)):
            yield ("corr", "control_block", [tv, pv, lv])
        yield ("corr", "tree_external_pubkey", [tv, pv])
        yield ("prop", "tree", [tv, pv])
        spend_cases.append((tv, pv, n))
    # a leaf that is not in the tree, duplicates (leftmost wins), equal commands with different .raw
    tv = fill(((None, None), (None, None)), r, ctx)
    _, pv = key_of_parity(r, 1)
    stranger = [0xc0, [[b"zz", 0x75, 0x51], []]]
    yield ("corr", "path_hashes", [tv, stranger])
    yield ("corr", "control_block", [tv, pv, stranger])
    yield ("corr", "control_block", [tv[1][1], pv, stranger])
    yield ("corr", "control_block", [tv[1][1], pv, tree_leaves(tv)[0]])
    dup = [1, [1, tv[1][1], tv[2][1]], [1, tv[1][1], tv[1][2]]]
    for lv in tree_leaves(dup):
        ctx.label("tree/duplicate-leaf")
        yield ("corr", "path_hashes", [dup, lv])
        yield ("corr", "control_block", [dup, pv, lv])
    yield ("prop", "tree", [dup, pv])
    # the same script under two different leaf versions in one tree: both leaves must stay spendable
    first = tv[1][1]
    twin = [0, first[1] ^ 2, first[2]]
    for twins in ([1, [1, first, twin], tv[2]], [1, tv[1], [1, twin, tv[2][1]]], [1, [1, twin, tv[1][2]], [1, tv[2][0] if False else tv[2][1], first]]):
        ctx.label("tree/same-script-two-versions")
        yield ("prop", "tree", [twins, pv])
        for lv in tree_leaves(twins):
            yield ("corr", "control_block", [twins, pv, lv])
    wrong_version = [tree_leaves(tv)[0][0] ^ 2, tree_leaves(tv)[0][1]]
    yield ("corr", "control_block", [tv, pv, wrong_version])
    rawleaf = [tree_leaves(tv)[1][0], [tree_leaves(tv)[1][1][0], [b"\x03\x01"]]]
    yield ("corr", "path_hashes", [tv, rawleaf])
    yield ("corr", "control_block", [tv, pv, rawleaf])
    bad = [1, tv[1], [0, 0xc0, [[ctx.rbytes(521)], []]]]            # a leaf whose hash raises
    yield ("corr", "tree_hash", [bad])
    yield ("corr", "path_hashes", [bad, tree_leaves(tv)[0]])
    yield ("corr", "control_block", [bad, pv, tree_leaves(tv)[0]])
    yield ("corr", "control_block", [tv, [], tree_leaves(tv)[0]])   # internal key at infinity
    # --- TapBranch.combine
    for k in range(0, ctx.n(9, 18)):
        ts = [[0, 0xc0, true_script(r, ctx, i)] for i in range(k)]
        yield ("corr", "combine", [ts])
    # --- spends and tampering
    for tv, pv, n in spend_cases[: ctx.n(10, 80)]:
        lvs = tree_leaves(tv)
        idx = r.randrange(len(lvs))
        if lvs[idx][0] == 0x50:
            continue
        yield ("prop", "spend", [tv, pv, idx, b"" if r.random() < 0.6 else ctx.rbytes(r.randrange(0, 5))])
        P = mk_point(pv)
        tree = mk_tree(tv)
        cb = tree.control_block(P, mk_leaf(lvs[idx]))
        items = [mk_leaf(lvs[idx]).tap_script.raw_serialize(), cb.serialize()]
        q = tree.external_pubkey(P).xonly()
        yield ("corr", "commit_check", [q, items])
        yield ("corr", "commit_check", [q, items + [b"\x50" + ctx.rbytes(3)]])
        yield ("corr", "commit_check", [q, [b"\x01"] + items])
        yield ("corr", "witness_control_block", [items])
        yield ("corr", "witness_tap_script", [items])
        for _ in range(ctx.n(3, 10)):
            w = r.randrange(2)
            raw = items[w]
            pos = r.randrange(len(raw))
            bad = raw[:pos] + bytes([raw[pos] ^ r.randrange(1, 256)]) + raw[pos + 1:]
            it2 = list(items)
            it2[w] = bad
            ctx.label("commit_check/tampered")
            yield ("corr", "commit_check", [q, it2])
            yield ("corr", "witness_tap_script", [it2])
    for i, (tv, pv, n) in enumerate(spend_cases[: ctx.n(3, 30)]):
        lvs = tree_leaves(tv)
        idx = r.randrange(len(lvs))
        if lvs[idx][0] == 0x50:
            continue
        stride = 1 if (ctx.tier == "thorough" or n <= 2) else 4
        ctx.label("tamper/sweep")
        yield ("prop", "tamper", [tv, pv, idx, r.getrandbits(30), stride])
    for tv, pv, n in spend_cases[: ctx.n(2, 10)]:
        ctx.label("noncanonical-leaf-script")
        yield ("prop", "noncanonical", [tv, pv, r.randrange(n)])
    # --- witness shapes
    for items in [[], [b""], [b"\x50"], [b"\x50\x01"], [b"a", b"\x50"], [b"a", b""], [b"a", b"\x51"],
                  [b"a", b"b", b"\x50zz"], [b"", b""], [b"\x50", b"\x50"], [b"a", b"b", b"c", b"\x50"]]:
        yield ("corr", "has_annex", [items])
        yield ("prop", "annex", [items])
        yield ("corr", "witness_control_block", [items])
        yield ("corr", "witness_tap_script", [items])
        yield ("corr", "commit_check", [ctx.rbytes(32), items])
    # --- control block codec
    _, pe = key_of_parity(r, 0)
    _, po = key_of_parity(r, 1)
    for m in [0, 1, 2, 3, 127, 128, 129, 130]:
        for pv in (pe, po):
            cv = [r.choice([0xc0, 0xc2, 0x00, 0xfe]), r.randrange(2), pv, [ctx.rbytes(32) for _ in range(m)]]
            ctx.label(f"cb/hashes={'>128' if m > 128 else m}")
            yield ("corr", "cb_serialize", [cv])
            yield ("prop", "cb_codec", [cv])
            raw = mk_cb(cv).serialize()
            yield ("corr", "cb_parse", [raw])
            if m <= 3:
                for cut in {0, 1, 32, 33, 34, 64, 65, 66, len(raw) - 1, len(raw) + 1}:
                    yield ("corr", "cb_parse", [(raw + b"\x00")[:cut]])
    for cv in [[0xc1, 1, pe, []], [0xc1, 0, po, []], [0xff, 1, pe, []], [0xc0, 2, pe, []], [-1, 1, pe, []], [-1, 0, pe, []],
               [0xc0, 0, [], []], [0xc0, 1, pe, [b"short", b""]], [0x50, 0, pe, [bytes(32)]]]:
        yield ("corr", "cb_serialize", [cv])
    for x in [0, 1, 2, 5, P_ - 1, P_, P_ + 1, 2 ** 256 - 1, G_[0]]:
        for b0 in (0xc0, 0xc1, 0x50, 0x51, 0x00, 0xff):
            if x != G_[0] and b0 != 0xc0:
                continue
            ctx.label("cb/key-boundary")
            yield ("corr", "cb_parse", [bytes([b0]) + x.to_bytes(32, "big") + ctx.rbytes(32)])
    for _ in range(ctx.n(30, 600)):
        yield ("corr", "cb_parse", [ctx.rbytes(r.choice([0, 1, 32, 33, 34, 65, 97, r.randrange(0, 200)]))])
    # control block used with another script / wrong key
    cv = [0xc0, 0, pe, [ctx.rbytes(32), ctx.rbytes(32)]]
    for sv in [[[0x51], []], [[b"abc", 0xac], []], [[ctx.rbytes(521)], []], [[0x51], [b"\x4c"]]]:
        yield ("corr", "cb_merkle_root", [cv, sv])
        yield ("corr", "cb_external_pubkey", [cv, sv])
    yield ("corr", "cb_external_pubkey", [[0xc0, 0, [], []], [[0x51], []]])
    yield ("corr", "cb_merkle_root", [[0x1c0, 0, pe, []], [[0x51], []]])
    yield ("corr", "cb_merkle_root", [[0xc0, 0, pe, [b"", b"\x00", bytes(31), bytes(33)]], [[0x51], []]])
    # --- tweaks: both parities, secrets at the ends of the range
    secrets = [1, 2, 3, N_ - 1, N_ - 2, 0, N_, N_ + 1, -1]
    secrets += [key_of_parity(r, par)[0] for par in (0, 1) for _ in range(ctx.n(3, 40))]
    for s in secrets:
        for root in [b"", ctx.rbytes(32)] + ([ctx.rbytes(r.randrange(1, 70))] if r.random() < 0.3 else []):
            yield ("corr", "priv_tweaked_key", [s, root])
            if 1 <= s < N_:
                pv = enc_point(PrivateKey(s).point)
                ctx.label(f"tweak/parity={pv[1] % 2}/root={'empty' if not root else len(root)}")
                yield ("corr", "tweak", [pv, root])
                yield ("corr", "tweaked_key", [pv, root])
                yield ("prop", "priv_pub", [s, root])
    yield ("corr", "tweaked_key", [[], b""])
    yield ("corr", "tweak", [[], ctx.rbytes(32)])
    yield ("corr", "pubkey", [0])
    yield ("corr", "pubkey", [N_])
    # --- one object used repeatedly: stale memoised state (TapBranch._leaves, TAG_HASH_CACHE and any new cache)
    for num, shape in enumerate([None, (None, None)] + [rand_shape(r, n) for n in (3, 4, 6, 8)[: ctx.n(4)]]
                                + [rand_shape(r, r.randrange(2, 9)) for _ in range(ctx.n(1, 40))]):
        tv = fill(shape, r, ctx)
        pvs = [key_of_parity(r, 0)[1], key_of_parity(r, 1)[1]]
        ctx.label("reuse/tree")
        yield ("prop", "reuse_tree", [tv, pvs, r.getrandbits(30), ctx.n(18, 40)])
    for num in range(ctx.n(4, 40)):
        pvs = [key_of_parity(r, 0)[1], key_of_parity(r, 1)[1], key_of_parity(r, num % 2)[1]]
        cv = [r.choice(EVEN_VERSIONS), r.randrange(2), pvs[num % 3], [ctx.rbytes(32) for _ in range(r.randrange(0, 4))]]
        svs = [true_script(r, ctx, i, big=(i == 2)) for i in range(3)]
        ctx.label("reuse/control-block")
        yield ("prop", "reuse_cb", [cv, svs, pvs, r.getrandbits(30), ctx.n(40, 80)])
    for num in range(ctx.n(2, 20)):
        secrets = [key_of_parity(r, 0)[0], key_of_parity(r, 1)[0]] + ([N_ - 1] if num == 0 else [])
        roots = [b"", ctx.rbytes(32), ctx.rbytes(32), bytes(32)]
        ctx.label("reuse/keys")
        yield ("prop", "reuse_key", [secrets, roots, r.getrandbits(30), ctx.n(24, 40)])
    tags = [b"TapLeaf", b"TapBranch", b"TapTweak", b"TapSighash", b"BIP0340/challenge", b"TapLea", b"TapLeaf\x00",
            b"", b"Tap", b"tapleaf", b"TapLeag", b"TapTweek", b"KeyAgg list", b"BIP0340/aux", b"BIP0340/nonce"]
    for _ in range(ctx.n(6, 60)):
        seq = [[r.choice(tags) if r.random() < 0.85 else ctx.rbytes(r.randrange(0, 12)), ctx.rbytes(r.randrange(0, 70))]
               for _ in range(30)]
        ctx.label("reuse/tagged-hash-order")
        yield ("prop", "tagged_order", [seq])
    for tv, pv, n in spend_cases[: ctx.n(4, 30)]:
        lvs = tree_leaves(tv)
        tree, P = mk_tree(tv), mk_point(pv)
        pool = [b"", b"\x50", b"\x50\x01", b"\x51", ctx.rbytes(33), bytes([0xc0]) + G_[0].to_bytes(32, "big"),
                bytes([0xc3]) + G_[0].to_bytes(32, "big") + ctx.rbytes(32), bytes([0x50]) + G_[0].to_bytes(32, "big")]
        for lv in lvs[:3]:
            pool.append(mk_leaf(lv).tap_script.raw_serialize())
        cb = tree.control_block(P, mk_leaf(lvs[0]))
        pool.append(cb.serialize())
        ctx.label("reuse/witness")
        yield ("prop", "reuse_witness", [[pool[-2] if len(lvs) > 1 else pool[8], pool[-1]], pool, r.getrandbits(30), ctx.n(60, 120)])
    # ------------------------------------------------------------------ deepening cases
    # --- ControlBlock.__eq__
    other_y = [pe[0], P_ - pe[1]]
    base = [0xc0, 0, pe, [ctx.rbytes(32), ctx.rbytes(32)]]
    variants = [base, [0xc2, 0, pe, base[3]], [0xc0, 1, pe, base[3]], [0xc0, 0, po, base[3]], [0xc0, 0, other_y, base[3]],
                [0xc0, 0, pe, base[3][:1]], [0xc0, 0, pe, base[3] + [bytes(32)]], [0xc0, 0, pe, [base[3][1], base[3][0]]],
                [0xc1, 0, pe, base[3]], [0xc0, 0, pe, [base[3][0] + base[3][1]]], [0x1ff, 0, pe, []], [0xc0, 0, [], base[3]],
                [0xc0, 0, pe, []], [-1, 1, pe, base[3]]]
    for a in variants:
        for b in variants:
            ctx.label("cb_eq/" + ("same" if a is b else "other"))
            yield ("corr", "cb_eq", [a, b])
    # --- TapLeaf.control_block(key) without a leaf argument, TapScript.tap_leaf()
    for lv in [[0xc0, [[b"k", 0xac], []]], [0xc2, [[0x51], []]], [0xc0, [[ctx.rbytes(521)], []]], [0x100, [[0x51], []]],
               [0xc0, [[0x51], [b"\x02\xaa"]]], [0x50, [[0x51], []]]]:
        for pv in (pe, po, []):
            ctx.label("leaf_control_block_default")
            yield ("corr", "leaf_control_block_default", [lv, pv])
        yield ("corr", "tap_leaf_default", [lv[1]])
    # --- Witness.tap_leaf on honest, tampered and malformed witnesses
    for tv, pv, n in spend_cases[: ctx.n(6, 40)]:
        lvs = tree_leaves(tv)
        lv = lvs[r.randrange(len(lvs))]
        cb = mk_tree(tv).control_block(mk_point(pv), mk_leaf(lv))
        items = [mk_leaf(lv).tap_script.raw_serialize(), cb.serialize()]
        for it in (items, items + [b"\x50" + ctx.rbytes(2)], [b"\x01"] + items, items[:1], items[1:], [items[1], items[0]],
                   [items[0][:-1], items[1]], [items[0], items[1][:-1]], [b"\x4c" + items[0], items[1]],
                   [items[0], b"\x50" + items[1][1:]]):
            ctx.label("witness_tap_leaf")
            yield ("corr", "witness_tap_leaf", [it])
            yield ("corr", "witness_tap_leaf_hash", [it])
    for items in [[], [b""], [b"\x50"], [b"a", b"\x50"], [b"\x02\xaa", bytes([0xc0]) + G_[0].to_bytes(32, "big")],
                  [b"\x4d\xff", bytes([0xc1]) + G_[0].to_bytes(32, "big") + bytes(32)]]:
        yield ("corr", "witness_tap_leaf", [items])
        yield ("corr", "witness_tap_leaf_hash", [items])
    # --- the whole honest pipeline as one composition, per leaf; control blocks of the mirrored tree; binding
    for i, (tv, pv, n) in enumerate(spend_cases[: ctx.n(8, 60)]):
        lvs = tree_leaves(tv)
        for lv in r.sample(lvs, min(len(lvs), 2)):
            ctx.label("spend_pipeline/honest")
            yield ("corr", "spend_pipeline", [tv, pv, lv])
        if i < ctx.n(3, 25):
            ctx.label("sibling/control-blocks-of-mirrored-tree")
            yield ("prop", "sibling_cb", [tv, r.getrandbits(max(1, n - 1)) | 1, pv])
        for k in range(4):
            ctx.label("binding/perturbed-tree")
            yield ("prop", "binding", [tv, k, [r.randrange(2) for _ in range(8)]])
    yield ("corr", "spend_pipeline", [tv, pv, stranger])
    yield ("corr", "spend_pipeline", [tv, [], tree_leaves(tv)[0]])
    yield ("corr", "spend_pipeline", [[0, 0x50, [[0x51], []]], pe, [0x50, [[0x51], []]]])      # version 0x50: an "annex"
    yield ("corr", "spend_pipeline", [[0, 0xc1, [[0x51], []]], pe, [0xc1, [[0x51], []]]])      # odd version
    # the .raw-shadowed leaf (Coq: C12_every_leaf_own_script_refuted): model and code agree on it
    s_first, s_second = [[b"\xaa"], []], [[b"\xaa"], [b"\x02\xaa"]]
    shadow = [1, [0, 0xc0, s_first], [0, 0xc0, s_second]]
    for lv in ([0xc0, s_first], [0xc0, s_second]):
        ctx.label("raw-shadowed-leaf")
        yield ("corr", "path_hashes", [shadow, lv])
        yield ("corr", "control_block", [shadow, pe, lv])
        yield ("corr", "spend_pipeline", [shadow, pe, lv])
    yield ("corr", "tree_hash", [shadow])
    yield ("corr", "witness_tap_script", [[b"\x02\xaa", b""]])
    yield ("prop", "raw_shadow", [[b"\xaa"], b"\x02\xaa"])
    yield ("prop", "raw_shadow", [[b"\xaa", 0x51], b"\x01\xaa\x51"])            # exact parse: no .raw, nothing shadowed
    # --- converse codec round trip on every length class
    xs_ok = [G_[0], pe[0], po[0], 0]
    for m in [0, 1, 2, 3, 127, 128, 129]:
        for _ in range(ctx.n(1, 4)):
            raw = bytes([r.randrange(256)]) + r.choice(xs_ok).to_bytes(32, "big") + ctx.rbytes(32 * m)
            ctx.label(f"cb_converse/m={'>128' if m > 128 else m}")
            yield ("prop", "cb_converse", [raw])
            if m <= 3:
                yield ("prop", "cb_converse", [raw[:-1]])
                yield ("prop", "cb_converse", [raw + b"\x00"])
    for _ in range(ctx.n(20, 300)):
        n = r.choice([33, 65, 97, 33, r.randrange(0, 140)])
        yield ("prop", "cb_converse", [ctx.rbytes(n)])
    # --- audit round (entry points, defaults, coincidences, byte classes, shared state, retry)
    yield from audit_cases(ctx)
