"""C06 — input verification accepts properly signed spends and nothing unauthorised."""
import contextlib
import copy
import io
from io import BytesIO
from itertools import combinations

from buidl.ecc import PrivateKey, Signature
from buidl.script import (P2PKHScriptPubKey, P2SHScriptPubKey, P2TRScriptPubKey, P2WPKHScriptPubKey,
                          P2WSHScriptPubKey, RedeemScript, Script, WitnessScript)
from buidl.taproot import MultiSigTapScript, TapRootMultiSig
from buidl.tx import Tx, TxIn, TxOut
from buidl.witness import Witness
from vp.sexp import ERR

PID = "C06"
BUDGET_S = {"quick": 900, "thorough": 3000}
RULE = ("Every standard output type the library signs (P2PKH, P2SH m-of-n, P2WPKH, P2SH-P2WPKH, P2WSH and "
        "P2SH-P2WSH m-of-n, P2TR key path, P2TR script path k-of-n) × key sets × 1..3 inputs; for each valid spend "
        "the whole mutation catalogue of the property (drop/replace/duplicate/reorder signatures, foreign keys, "
        "flipped sighash byte, changed amount/output/sequence/locktime/outpoint, swapped scripts, truncated and "
        "annex-only witnesses, signature-free scriptSigs with opcodes or pushes around the redeem script, non-empty "
        "scriptSigs on witness outputs, witness programs pushed inside a scriptSig). Each case is verified by the "
        "implementation and by the extracted model (model-level ECDSA/BIP340 on secp256k1). Hand-assembled spends "
        "(own serialiser, reference digests, own ECDSA/BIP340 signer with fixed nonces): every signer subset of "
        "m-of-n OP_CHECKMULTISIG (bare, p2sh, p2wsh, p2sh-p2wsh) and k-of-n OP_CHECKSIG/OP_CHECKSIGADD leaves with a "
        "different hash type per signature; stack depths at every signature op code (also on top of a non-empty "
        "item); malformed, uncompressed and 32-byte keys inside scripts; leaves at depth 1..3 and 128/129 with "
        "tampered control blocks; DER integers of 31/32/33 bytes; scripts at the push-opcode and compact-size "
        "boundaries; two inputs with one script; nested witness programs. Library helpers: TapLeaf/TapBranch "
        "control blocks, initialize/finalize_p2tr_multisig for every signer subset and their misuse, sign_input, "
        "Tx.verify, library signatures whose r/s start with 00/01. Construction paths other than Tx.parse: "
        "hand-signed transactions whose inputs are ALL spends of different kinds / hash types / sequences, built "
        "with the constructors (explicit, defaults filled in place), looked up through TxFetcher.cache, from a "
        "legacy serialisation, cloned; Tx.verify() against verify_input(i) with each input invalid in turn (also "
        "one script spent twice), fee at / one below the BIP141 virtual size and negative; sign_* / sign_input / "
        "get_sig_* with a wrong key, then the right key on the same object, hash types and defaulted script "
        "arguments; byte classes of witness version, leaf version, annex, hash-type byte and output key.")
TRUSTED = ["the digests tx.sig_hash(i, hash_type) are taken from the implementation and handed to the model as a "
           "table (their correctness is property C05)",
           "hashlib for hash160/sha256/tagged hashes"]
ASSUMPTIONS = ["secp256k1 group laws are not used by C06's theorems (they are about the interpreter structure and the "
               "multisig matching loop, for every signature oracle)"]

HTS = (0, 1, 2, 3, 0x81, 0x82, 0x83)


def quiet(f, *a):
    with contextlib.redirect_stdout(io.StringIO()):
        return f(*a)


# ----------------------------------------------------------------- context <-> objects

def pack(tx, idx):
    """canonical context: [segwit serialisation, index, [[amount, raw scriptPubKey] per input]]"""
    t = copy.copy(tx)
    t.segwit = True
    pre = [[ti._value, ti._script_pubkey.raw_serialize()] for ti in tx.tx_ins]
    return [t.serialize_segwit(), idx, pre]


def assign_spent(tx, pre):
    from buidl.script import ScriptPubKey
    from buidl.helper import encode_varstr
    for ti, (amount, spk) in zip(tx.tx_ins, pre):
        ti._value = amount
        ti._script_pubkey = ScriptPubKey.parse(BytesIO(encode_varstr(spk)))
    return tx


def unpack(ctx):
    raw, idx, pre = ctx
    return assign_spent(Tx.parse(BytesIO(raw)), pre), idx


def model_args(ctx):
    """arguments of the model's verify_input derived from the (re-parsed) transaction"""
    tx, idx = unpack(ctx)
    ti = tx.tx_ins[idx]
    ss = list(ti.script_sig.commands)
    pk = list(ti._script_pubkey.commands)
    wit = list(ti.witness.items)
    hts = set(HTS)
    for el in [c for c in ss if isinstance(c, bytes)] + wit:
        if el:
            hts.add(el[-1])
    table = []
    for ht in sorted(hts):
        try:
            z = quiet(tx.sig_hash, idx, ht)
        except Exception:
            continue
        table.append([ht, z])
    return [ss, pk, wit, [int(tx.locktime), int(ti.sequence), tx.version], table, ctx]


def i_verify_input(ss, pk, wit, c, table, ctx):
    tx, idx = unpack(ctx)
    try:
        return 1 if quiet(tx.verify_input, idx) else 0
    except Exception:
        return 0            # an exception is "not accepted"


def i_match_sigs(keys, sigs, rows):
    """reference greedy matching as in op_checkmultisig, on an abstract verdict matrix"""
    pts = list(keys)
    for sg in sigs:
        if len(pts) == 0:
            return 0
        while pts:
            k = pts.pop(0)
            if rows[k[0]][sg[0]]:
                break
        else:
            return 0
    return 1


# too slow inside Coq (256-bit curve arithmetic): not part of the extraction self-check
VM_SKIP = {"verify_input"}

IMPL = {"verify_input": i_verify_input, "match_sigs": i_match_sigs}


# ----------------------------------------------------------------- property predicates

def p_valid_spend(ctx):
    tx, idx = unpack(ctx)
    try:
        ok = quiet(tx.verify_input, idx)
    except Exception as e:
        return f"properly signed spend raised {type(e).__name__}"
    return None if ok else "properly signed spend reported invalid"


def p_unauthorised(ctx, label):
    tx, idx = unpack(ctx)
    try:
        ok = quiet(tx.verify_input, idx)
    except Exception:
        return None
    if ok:
        return f"unauthorised spend accepted: {label.decode()}"
    return None


def p_multisig_matching(keys, sigs, rows):
    """the greedy loop accepts iff an order-preserving injection sigs -> keys with all pairs verifying exists"""
    n, m = len(keys), len(sigs)
    exists = any(all(rows[keys[ci][0]][sigs[j][0]] for j, ci in enumerate(comb))
                 for comb in combinations(range(n), m)) if m <= n else False
    got = bool(i_match_sigs(keys, sigs, rows))
    if got != exists:
        return f"matching loop says {got}, an ordered assignment {'exists' if exists else 'does not exist'}"
    return None


# ----------------------------------------------------------------- one object, many calls
# The statement is "for every spend the verdict is X": a Tx / TxIn / Script / Witness object that is verified,
# edited in place and verified again must answer like a freshly parsed object in the same state.  The fields
# below are the declared (constructor) fields; anything else an object carries (memoised digests, parsed
# scripts, verdicts …) is left alone by the in-place editor, so a memo that is not invalidated goes stale here.

_FIELDS = {
    "Tx": ("version", "tx_ins", "tx_outs", "locktime", "network", "segwit"),
    "TxIn": ("prev_tx", "prev_index", "script_sig", "sequence", "witness", "_value", "_script_pubkey"),
    "TxOut": ("amount", "script_pubkey"),
    "Script": ("commands", "raw"),
    "Witness": ("items",),
}


def _fields(o):
    for cls in type(o).__mro__:
        if cls.__name__ in _FIELDS:
            return _FIELDS[cls.__name__]
    return None


def graft(dst, src, depth):
    """Give every declared field of dst the value it has in src, editing dst IN PLACE down to `depth` levels of
    objects (below that, src's sub-objects are assigned); lists are always edited by slice assignment.
    Returns the object to store in the parent (dst when it could be kept)."""
    if isinstance(dst, list) and isinstance(src, list):
        dst[:] = [graft(dst[i], y, depth) if i < len(dst) else y for i, y in enumerate(src)]
        return dst
    f = _fields(dst)
    if f is None or type(dst) is not type(src) or depth <= 0:
        return src
    for name in f:
        setattr(dst, name, graft(getattr(dst, name, None), getattr(src, name, None), depth - 1))
    return dst


def verdict(tx, idx):
    try:
        return 1 if quiet(tx.verify_input, idx) else 0
    except Exception:
        return 0            # an exception is "not accepted"


def p_reuse(ctxs, mode):
    """ONE Tx object taken through the states ctxs[0], ctxs[1], … by in-place edits (mode bit 0 clear: the fields
    of the Tx / TxIn / TxOut objects are assigned; set: the command and item lists inside the existing Script and
    Witness objects are rewritten), verify_input(idx) after every step: each verdict must be the verdict of a
    freshly parsed transaction in that state.  Mode bit 1: at the last state, if accepted, ONE combined Script
    object is evaluated twice."""
    from vp import sexp
    fresh = {}

    def want(c):
        k = sexp.enc(c)
        if k not in fresh:
            fresh[k] = verdict(*unpack(c))
        return fresh[k]

    T, _ = unpack(ctxs[0])
    depth = 9 if mode & 1 else 2
    for step, c in enumerate(ctxs):
        F, idx = unpack(c)
        if step:
            graft(T, F, depth)
        try:
            same = sexp.canon(pack(T, idx)) == sexp.canon(c)
        except Exception as e:  # noqa
            return f"step {step}: the edited transaction object does not serialise ({type(e).__name__})"
        if not same:
            return f"step {step}: the edited transaction object serialises differently from a fresh one in the same state"
        got, exp = verdict(T, idx), want(c)
        if got != exp:
            return (f"step {step}: verify_input({idx}) on the reused object says {bool(got)}, on a fresh object in "
                    f"the same state {bool(exp)}")
        if exp and (mode & 2) and step == len(ctxs) - 1:
            ti = T.tx_ins[idx]
            comb = ti.script_sig + ti.script_pubkey()
            before = list(comb.commands)
            res = []
            for _ in range(2):
                try:
                    res.append(1 if quiet(comb.evaluate, T, idx) else 0)
                except Exception:
                    res.append(0)
            if res != [1, 1] or comb.commands != before:
                return (f"step {step}: one combined Script object evaluated twice gives {res} "
                        f"(commands {'changed' if comb.commands != before else 'unchanged'})")
    return None


def p_handmade_spend(kind_i, n_in, n_out, idx, hts, salt, nalt=0):
    """spends assembled by hand (not through the signing API) whose signatures carry DIFFERENT hash types and are made
    over an independent reference digest: the properly signed spend verifies, a signature whose hash-type label
    was changed does not (shared with C05: harness/props/c05.py p_verifier_digest)"""
    from props import c05 as _c05
    return _c05.p_verifier_digest(kind_i, n_in, n_out, idx, hts, salt, nalt)


PROPS = {"valid_spend": p_valid_spend, "unauthorised": p_unauthorised, "multisig_matching": p_multisig_matching,
         "reuse": p_reuse, "handmade_spend": p_handmade_spend}
# (finalize_api, p2tr_api, lib_signed, tx_verify are registered below, where they are defined)


# ----------------------------------------------------------------- building spends

def new_tx(r, spks, amounts, n_out=1, locktime=0, version=2):
    tx_ins = []
    for k, (spk, am) in enumerate(zip(spks, amounts)):
        ti = TxIn(bytes(r.getrandbits(8) for _ in range(32)), r.randrange(0, 4))
        ti._value = am
        ti._script_pubkey = spk
        tx_ins.append(ti)
    outs = [TxOut(r.randrange(1000, 50000), P2PKHScriptPubKey(bytes(r.getrandbits(8) for _ in range(20))))
            for _ in range(n_out)]
    return Tx(version, tx_ins, outs, locktime, network="mainnet", segwit=True)


def rpriv(r):
    return PrivateKey(r.randrange(1, 2 ** 256 - 2 ** 33))


class Spend:
    def __init__(self, kind, tx, idx, **meta):
        self.kind, self.tx, self.idx, self.meta = kind, tx, idx, meta


def multisig_cmds(m, privs):
    secs = [p.point.sec() for p in privs]
    return [0x50 + m] + secs + [0x50 + len(secs), 174]


def build(kind, r, m=1, n=1, n_in=1, signers=None):
    """returns a Spend whose input idx is validly signed through the library API (by the keys `signers`, default:
    a random m-subset)"""
    idx = r.randrange(n_in)
    privs = [rpriv(r) for _ in range(n)]
    other = [P2PKHScriptPubKey(bytes(r.getrandbits(8) for _ in range(20))) for _ in range(n_in)]
    amounts = [r.randrange(60000, 10 ** 8) for _ in range(n_in)]
    signers = sorted(r.sample(range(n), m)) if not signers else sorted(signers)
    if kind == "p2pkh":
        spk = privs[0].point.p2pkh_script()
    elif kind == "p2wpkh":
        spk = privs[0].point.p2wpkh_script()
    elif kind == "p2sh-p2wpkh":
        redeem = privs[0].point.p2sh_p2wpkh_redeem_script()
        spk = redeem.script_pubkey()
    elif kind == "p2sh":
        redeem = RedeemScript(multisig_cmds(m, privs))
        spk = redeem.script_pubkey()
    elif kind == "p2wsh":
        ws = WitnessScript(multisig_cmds(m, privs))
        spk = ws.script_pubkey()
    elif kind == "p2sh-p2wsh":
        ws = WitnessScript(multisig_cmds(m, privs))
        spk = ws.script_pubkey().redeem_script().script_pubkey()
    elif kind == "p2tr-key":
        spk = privs[0].point.p2tr_script()
    elif kind == "p2tr-script":
        if n > 1:
            trm = TapRootMultiSig([p.point for p in privs], m)
            leaf = trm.single_leaf()
            internal = trm.default_internal_pubkey
        else:
            leaf = MultiSigTapScript([privs[0].point], 1).tap_leaf()
            internal = rpriv(r).point
        spk = internal.p2tr_script(leaf.hash())
    else:
        raise ValueError(kind)
    spks = list(other)
    spks[idx] = spk
    tx = new_tx(r, spks, amounts, n_out=r.randrange(1, 3))
    ti = tx.tx_ins[idx]
    meta = dict(privs=privs, signers=signers, m=m, n=n)
    if kind == "p2pkh":
        quiet(tx.sign_p2pkh, idx, privs[0])
    elif kind == "p2wpkh":
        quiet(tx.sign_p2wpkh, idx, privs[0])
    elif kind == "p2sh-p2wpkh":
        quiet(tx.sign_p2sh_p2wpkh, idx, privs[0])
    elif kind == "p2sh":
        sigs = [tx.get_sig_legacy(idx, privs[k], redeem_script=redeem) for k in signers]
        ti.finalize_p2sh_multisig(sigs, redeem)
        meta.update(script=redeem)
    elif kind == "p2wsh":
        sigs = [tx.get_sig_segwit(idx, privs[k], witness_script=ws) for k in signers]
        ti.finalize_p2wsh_multisig(sigs, ws)
        meta.update(script=ws)
    elif kind == "p2sh-p2wsh":
        sigs = [tx.get_sig_segwit(idx, privs[k], witness_script=ws) for k in signers]
        ti.finalize_p2sh_p2wsh_multisig(sigs, ws)
        meta.update(script=ws)
    elif kind == "p2tr-key":
        # the key path is signed with the TWEAKED private key (BIP341)
        quiet(tx.sign_p2tr_keypath, idx, privs[0].tweaked_key())
    elif kind == "p2tr-script":
        ti.witness.items = []
        tx.initialize_p2tr_multisig(idx, leaf.control_block(internal, leaf), leaf.tap_script)
        sigs = []
        for k, p in enumerate(privs):
            sigs.append(tx.get_sig_taproot(idx, p, ext_flag=1) if k in signers else b"")
        quiet(tx.finalize_p2tr_multisig, idx, sigs)
        meta.update(leaf=leaf, internal=internal)
    return Spend(kind, tx, idx, **meta)


def build_all(r, kinds, via_sign_input=False):
    """a transaction whose inputs (one per entry of kinds, single-key types) are ALL validly signed (through the
    sign_* helpers or through the Tx.sign_input dispatcher)"""
    privs = [rpriv(r) for _ in kinds]
    spks = []
    for kind, p in zip(kinds, privs):
        spks.append({"p2pkh": p.point.p2pkh_script, "p2wpkh": p.point.p2wpkh_script,
                     "p2sh-p2wpkh": lambda p=p: p.point.p2sh_p2wpkh_redeem_script().script_pubkey(),
                     "p2tr-key": p.point.p2tr_script}[kind]())
    tx = new_tx(r, spks, [r.randrange(60000, 10 ** 8) for _ in kinds], n_out=2)
    for i, (kind, p) in enumerate(zip(kinds, privs)):
        if via_sign_input:
            if kind == "p2sh-p2wpkh":
                quiet(tx.sign_input, i, p, p.point.p2sh_p2wpkh_redeem_script())
            else:
                quiet(tx.sign_input, i, p.tweaked_key() if kind == "p2tr-key" else p)
        elif kind == "p2pkh":
            quiet(tx.sign_p2pkh, i, p)
        elif kind == "p2wpkh":
            quiet(tx.sign_p2wpkh, i, p)
        elif kind == "p2sh-p2wpkh":
            quiet(tx.sign_p2sh_p2wpkh, i, p)
        else:
            quiet(tx.sign_p2tr_keypath, i, p.tweaked_key())
    return tx


def clone(sp):
    tx = copy.deepcopy(sp.tx)
    return tx, tx.tx_ins[sp.idx]


def foreign_sig(r, tx, idx, kind, sp):
    """a well-formed signature by a key that is not in the script"""
    p = rpriv(r)
    if kind in ("p2pkh", "p2sh"):
        rs = sp.meta.get("script")
        return tx.get_sig_legacy(idx, p, redeem_script=rs)
    if kind in ("p2wsh", "p2sh-p2wsh"):
        return tx.get_sig_segwit(idx, p, witness_script=sp.meta["script"])
    if kind == "p2wpkh":
        return tx.get_sig_segwit(idx, p)
    if kind == "p2sh-p2wpkh":
        return tx.get_sig_segwit(idx, p, redeem_script=sp.meta["privs"][0].point.p2sh_p2wpkh_redeem_script())
    if kind == "p2tr-key":
        return tx.get_sig_taproot(idx, p)
    return tx.get_sig_taproot(idx, p, ext_flag=1)


def mutations(r, sp):
    """yields (label, tx, unauthorised?) — unauthorised=True means the property forbids acceptance"""
    kind, idx = sp.kind, sp.idx
    segwit_like = kind not in ("p2pkh", "p2sh")
    # --- changes to the signed transaction (all committed under SIGHASH_ALL / DEFAULT)
    tx, ti = clone(sp)
    tx.tx_outs[0].amount += 1
    yield "changed output amount", tx, True
    tx, ti = clone(sp)
    tx.locktime = type(tx.locktime)((int(tx.locktime) + 1) % 2 ** 32)
    yield "changed locktime", tx, True
    tx, ti = clone(sp)
    ti.sequence = type(ti.sequence)((int(ti.sequence) - 1) % 2 ** 32)
    yield "changed sequence", tx, True
    tx, ti = clone(sp)
    ti.prev_index += 1
    yield "changed outpoint", tx, True
    tx, ti = clone(sp)
    tx.version += 1
    yield "changed version", tx, True
    if segwit_like:
        tx, ti = clone(sp)
        ti._value += 1
        yield "changed spent amount", tx, True
    # --- signature level
    tx, ti = clone(sp)
    if kind in ("p2pkh", "p2sh"):
        cmds = ti.script_sig.commands
        sig_pos = [k for k, c in enumerate(cmds) if isinstance(c, bytes) and len(c) > 60 and c[0] == 0x30]
        holder, setter = cmds, None
    else:
        cmds = ti.witness.items
        if kind.startswith("p2tr"):
            sig_pos = [k for k, c in enumerate(cmds) if len(c) in (64, 65)][: sp.meta["n"] if kind == "p2tr-script" else 1]
        else:
            sig_pos = [k for k, c in enumerate(cmds) if len(c) > 60 and c[:1] == b"\x30"]
    if sig_pos:
        k0 = sig_pos[0]
        # flipped sighash byte / appended sighash byte
        t2, i2 = clone(sp)
        c2 = i2.script_sig.commands if kind in ("p2pkh", "p2sh") else i2.witness.items
        if kind.startswith("p2tr"):
            c2[k0] = c2[k0][:64] + b"\x03"
        else:
            c2[k0] = c2[k0][:-1] + b"\x03"
        yield "flipped sighash byte", t2, True
        # foreign-key signature in place of the first one
        t2, i2 = clone(sp)
        c2 = i2.script_sig.commands if kind in ("p2pkh", "p2sh") else i2.witness.items
        c2[k0] = foreign_sig(r, t2, idx, kind, sp)
        yield "first signature replaced by a foreign-key signature", t2, True
        # corrupted signature bytes
        t2, i2 = clone(sp)
        c2 = i2.script_sig.commands if kind in ("p2pkh", "p2sh") else i2.witness.items
        b = bytearray(c2[k0])
        b[len(b) // 2] ^= 1 << r.randrange(8)
        c2[k0] = bytes(b)
        yield "bit flipped inside a signature", t2, True
        # empty signature
        t2, i2 = clone(sp)
        c2 = i2.script_sig.commands if kind in ("p2pkh", "p2sh") else i2.witness.items
        c2[k0] = b""
        yield "first signature emptied", t2, True
        if kind in ("p2sh", "p2wsh", "p2sh-p2wsh"):
            # drop one signature (m-1 of m)
            t2, i2 = clone(sp)
            c2 = i2.script_sig.commands if kind == "p2sh" else i2.witness.items
            del c2[k0]
            yield "one signature dropped", t2, True
            if len(sig_pos) >= 2:
                # duplicate a signature in place of another: fewer distinct keys than m
                t2, i2 = clone(sp)
                c2 = i2.script_sig.commands if kind == "p2sh" else i2.witness.items
                c2[sig_pos[1]] = c2[sig_pos[0]]
                yield "signature duplicated (fewer distinct keys than m)", t2, True
                # reordered signatures: still m valid signatures by distinct keys -> correspondence only
                t2, i2 = clone(sp)
                c2 = i2.script_sig.commands if kind == "p2sh" else i2.witness.items
                c2[sig_pos[0]], c2[sig_pos[1]] = c2[sig_pos[1]], c2[sig_pos[0]]
                yield "signatures reordered", t2, False
    # --- script level
    if kind in ("p2sh", "p2wsh", "p2sh-p2wsh"):
        other = multisig_cmds(1, [rpriv(r)])
        t2, i2 = clone(sp)
        if kind == "p2sh":
            i2.script_sig.commands[-1] = RedeemScript(other).raw_serialize()
        else:
            i2.witness.items[-1] = WitnessScript(other).raw_serialize()
        yield "script swapped for the attacker's 1-of-1", t2, True
        # no signatures at all, only the script
        t2, i2 = clone(sp)
        if kind == "p2sh":
            i2.script_sig = Script([i2.script_sig.commands[-1]])
        else:
            i2.witness = Witness([i2.witness.items[-1]])
        yield "signature-free spend (script only)", t2, True
        for junk in ([b"\x01"], [b"\x01"] * (sp.meta["m"] + 1), [b"\x01"] * (sp.meta["m"] + 2)):
            t2, i2 = clone(sp)
            if kind == "p2sh":
                i2.script_sig = Script(list(junk) + [i2.script_sig.commands[-1]])
            else:
                i2.witness = Witness(list(junk) + [i2.witness.items[-1]])
            yield "signature-free spend (%d non-empty item(s) and the script)" % len(junk), t2, True
    if kind == "p2pkh":
        # signature-free scriptSigs that try to NEUTRALISE the scriptPubKey appended after them: a conditional opened in
        # the scriptSig and never closed (the remaining commands would become its body), in every shape of open levels
        sec = ti.script_sig.commands[-1]
        for label, cmds in (("OP_1 OP_0 OP_IF", [0x51, 0x00, 0x63]), ("OP_1 OP_1 OP_NOTIF", [0x51, 0x51, 0x64]),
                            ("<01> OP_0 OP_IF", [b"\x01", 0x00, 0x63]), ("OP_1 OP_1 OP_IF OP_ELSE", [0x51, 0x51, 0x63, 0x67]),
                            ("OP_1 OP_0 OP_NOTIF OP_ELSE", [0x51, 0x00, 0x64, 0x67]),
                            ("OP_1 OP_0 OP_IF OP_IF OP_ENDIF", [0x51, 0x00, 0x63, 0x63, 0x68]),
                            ("OP_1 OP_0 OP_IF OP_0 OP_IF", [0x51, 0x00, 0x63, 0x00, 0x63]),
                            ("OP_0 OP_IF", [0x00, 0x63]), ("OP_1 OP_IF", [0x51, 0x63]), ("OP_1 OP_0 OP_IF OP_ELSE", [0x51, 0x00, 0x63, 0x67]),
                            ("<sec> OP_1 OP_0 OP_IF", [sec, 0x51, 0x00, 0x63]), ("OP_1", [0x51]), ("OP_1 OP_ENDIF", [0x51, 0x68]),
                            ("OP_1 OP_0 OP_IF OP_ENDIF OP_0 OP_IF", [0x51, 0x00, 0x63, 0x68, 0x00, 0x63])):
            t2, i2 = clone(sp)
            i2.script_sig = Script(list(cmds))
            yield "signature-free scriptSig " + label, t2, True
    if kind == "p2sh":
        raw = ti.script_sig.commands[-1]
        for label, cmds in (("<redeem> OP_NOP", [raw, 0x61]), ("OP_1 <redeem> OP_NOP", [0x51, raw, 0x61]),
                            ("<redeem> OP_1", [raw, 0x51]), ("OP_1 <redeem> OP_DROP OP_1", [0x51, raw, 0x75, 0x51]),
                            ("<01> <redeem> OP_NOP OP_NOP", [b"\x01", raw, 0x61, 0x61])):
            t2, i2 = clone(sp)
            i2.script_sig = Script(list(cmds))
            yield "signature-free scriptSig " + label, t2, True
        # witness program pushed inside the scriptSig, attacker's own key and signature in the witness
        att = rpriv(r)
        t2, i2 = clone(sp)
        i2.script_sig = Script([0, att.point.hash160(), raw])
        try:
            z = quiet(t2.sig_hash, idx, 1)
            i2.witness = Witness([att.sign(z).der() + b"\x01", att.point.sec()])
            yield "witness program pushed inside a p2sh scriptSig (attacker key in witness)", t2, True
        except Exception:
            pass
    if kind == "p2pkh":
        att = rpriv(r)
        fake = Signature(1, 1).der() + b"\x01"
        t2, i2 = clone(sp)
        i2.script_sig = Script([0, att.point.hash160(), fake, sp.meta["privs"][0].point.sec()])
        z = quiet(t2.sig_hash, idx, 1)
        i2.witness = Witness([att.sign(z).der() + b"\x01", att.point.sec()])
        yield "witness program pushed inside a p2pkh scriptSig (attacker key in witness)", t2, True
        t2, i2 = clone(sp)
        i2.script_sig = Script([i2.script_sig.commands[0], att.point.sec()])
        yield "wrong public key", t2, True
        t2, i2 = clone(sp)
        i2.script_sig = Script([0x51])
        yield "scriptSig OP_1", t2, True
        t2, i2 = clone(sp)
        i2.script_sig = Script([fake, sp.meta["privs"][0].point.sec()])
        yield "well-formed signature (1,1) by nobody", t2, True
    if kind in ("p2wpkh", "p2wsh", "p2tr-key", "p2tr-script"):
        for label, cmds in (("OP_1", [0x51]), ("OP_0", [0]), ("<01>", [b"\x01"]), ("OP_1 OP_1", [0x51, 0x51])):
            t2, i2 = clone(sp)
            i2.script_sig = Script(list(cmds))
            i2.witness = Witness([])
            yield f"witness output spent with scriptSig {label} and no witness", t2, True
        t2, i2 = clone(sp)
        i2.script_sig = Script([0x51])
        yield "non-empty scriptSig on a witness output (valid witness kept)", t2, True
        t2, i2 = clone(sp)
        i2.witness = Witness([])
        yield "empty witness", t2, True
    if kind in ("p2sh-p2wpkh", "p2sh-p2wsh"):
        raw = ti.script_sig.commands[-1]
        t2, i2 = clone(sp)
        i2.script_sig = Script([b"\x01", raw])
        i2.witness = Witness([])
        yield "p2sh-wrapped witness program with an extra push and no witness", t2, True
        t2, i2 = clone(sp)
        i2.script_sig = Script([0x51, raw])
        yield "p2sh-wrapped witness program with an extra OP_1 (valid witness kept)", t2, True
        t2, i2 = clone(sp)
        i2.witness = Witness([])
        yield "p2sh-wrapped witness program, empty witness", t2, True
    if kind == "p2wpkh" or kind == "p2sh-p2wpkh":
        att = rpriv(r)
        t2, i2 = clone(sp)
        i2.witness = Witness([i2.witness.items[0], att.point.sec()])
        yield "wrong public key in witness", t2, True
    if kind.startswith("p2tr"):
        t2, i2 = clone(sp)
        i2.witness = Witness([b"\x50" + bytes(r.getrandbits(8) for _ in range(5))])
        yield "annex-only witness", t2, True
        t2, i2 = clone(sp)
        i2.witness = Witness([b"\x50\x01", b"\x50\x02"])
        yield "two annex-like items", t2, True
        t2, i2 = clone(sp)
        i2.witness = Witness(list(i2.witness.items) + [b"\x50\xaa\xbb"])
        yield "annex appended after signing", t2, True      # BIP341 commits to the annex
    if kind == "p2tr-script":
        t2, i2 = clone(sp)
        it = i2.witness.items
        b = bytearray(it[-1])
        b[r.randrange(len(b))] ^= 1 << r.randrange(8)
        it[-1] = bytes(b)
        yield "bit flipped in the control block", t2, True
        t2, i2 = clone(sp)
        it = i2.witness.items
        it[-2] = MultiSigTapScript([rpriv(r).point], 1).raw_serialize()
        yield "leaf script swapped for the attacker's", t2, True
        t2, i2 = clone(sp)
        i2.witness = Witness(i2.witness.items[-2:])
        yield "script path without any signature item", t2, True
        t2, i2 = clone(sp)
        i2.witness = Witness(i2.witness.items[1:])
        yield "truncated witness", t2, None       # depends on which item was dropped: correspondence only


# ----------------------------------------------------------------- hand-assembled spends (independent builder)
# Nothing of the signing side under test is used to BUILD these cases: transactions are serialised here, the
# digests come from the reference implementation in props/c05.py (written from the BIP texts), scripts, control
# blocks and taproot commitments are assembled from hashlib, and ECDSA / BIP340 signatures are computed here from
# FIXED nonces (s = (z + r d) / k resp. s = k + e d: signing costs no curve operation).  The only library code a
# case is built with is the curve arithmetic of buidl.pecc (d*G once per pool, P+Q).

import hashlib as _hl

from props import c05 as _c05

N_ORD = 0xFFFFFFFFFFFFFFFFFFFFFFFFFFFFFFFEBAAEDCE6AF48A03BBFD25E8CD0364141
P_FLD = 2 ** 256 - 2 ** 32 - 977
HT_ECDSA = (1, 2, 3, 0x81, 0x82, 0x83)
HT_SCHNORR = (0, 1, 2, 3, 0x81, 0x82, 0x83)
S = _c05.S


def _sha(b):
    return _hl.sha256(b).digest()


def _h160(b):
    return _hl.new("ripemd160", _sha(b)).digest()


def _tag(t, m):
    th = _sha(t.encode())
    return _sha(th + th + m)


def _b32(v):
    return v.to_bytes(32, "big")


def der_int(v, pad=0):
    b = v.to_bytes(max(1, (v.bit_length() + 7) // 8), "big")
    if b[0] & 0x80:
        b = b"\x00" + b
    b = b"\x00" * pad + b
    return b"\x02" + bytes([len(b)]) + b


def der(r, s, rpad=0, spad=0):
    body = der_int(r, rpad) + der_int(s, spad)
    return b"\x30" + bytes([len(body)]) + body


class HKey:
    """a key pair together with ONE fixed nonce pair (k, R = kG)"""

    def __init__(self, d, P, k, R):
        self.d, self.k, self.P, self.R = d, k, P, R
        self.px, self.py, self.rx, self.ry = P.x.num, P.y.num, R.x.num, R.y.num

    def sec(self, compressed=True, prefix=None):
        if compressed:
            return bytes([2 + (self.py & 1) if prefix is None else prefix]) + _b32(self.px)
        return bytes([4 if prefix is None else prefix]) + _b32(self.px) + _b32(self.py)

    def xonly(self):
        return _b32(self.px)

    def rs(self, z, high_s=False):
        r = self.rx % N_ORD
        s = (z + r * self.d) * pow(self.k, -1, N_ORD) % N_ORD
        if (s > N_ORD // 2) != high_s:
            s = N_ORD - s
        return r, s

    def ecdsa(self, z, ht, high_s=False):
        return der(*self.rs(z, high_s)) + bytes([ht])

    def schnorr(self, msg, ht):
        d = self.d if self.py % 2 == 0 else N_ORD - self.d
        k = self.k if self.ry % 2 == 0 else N_ORD - self.k
        e = int.from_bytes(_tag("BIP0340/challenge", _b32(self.rx) + _b32(self.px) + msg), "big") % N_ORD
        sig = _b32(self.rx) + _b32((k + e * d) % N_ORD)
        return sig if ht == 0 else sig + bytes([ht])

    def even_point(self):
        from buidl.pecc import S256Point
        return self.P if self.py % 2 == 0 else S256Point(self.px, P_FLD - self.py)

    def tweak_t(self, root=b""):
        return int.from_bytes(_tag("TapTweak", _b32(self.px) + root), "big")

    def tweak_point(self, root=b""):
        from buidl.pecc import G
        return self.tweak_t(root) * G + self.even_point()

    def tweaked(self, root=b""):
        """the key pair of the taproot output key Q = lift_x(P) + tG (same nonce)"""
        d = self.d if self.py % 2 == 0 else N_ORD - self.d
        return HKey((d + self.tweak_t(root)) % N_ORD, self.tweak_point(root), self.k, self.R)

    def renonce(self, pred, limit=4000):
        """the same key with the next nonce k+i whose R satisfies pred(HKey) (R + G per step: no multiplication)"""
        from buidl.pecc import G
        k, R = self.k, self.R
        for _ in range(limit):
            k, R = k + 1, R + G
            c = HKey(self.d, self.P, k, R)
            if pred(c):
                return c
        return None


_POOLS = {}


def key_pool(seed, count=7):
    """count key pairs d0+i with nonces k0+i (two scalar multiplications in all); both y parities occur"""
    if seed in _POOLS:
        return _POOLS[seed]
    import random
    from buidl.pecc import G
    r = random.Random("c06-keys:%d" % seed)
    d, k = r.randrange(2 ** 200, N_ORD - 2 ** 64), r.randrange(2 ** 200, N_ORD - 2 ** 64)
    P, R = d * G, k * G
    keys = []
    while len(keys) < count or len({x.py & 1 for x in keys}) < 2:
        keys.append(HKey(d, P, k, R))
        d, k, P, R = d + 1, k + 1, P + G, R + G
    _POOLS.clear()
    _POOLS[seed] = keys
    return keys


def ser_tx(txv):
    """segwit serialisation of a transaction value [version, ins, outs, locktime] (c05 conventions)"""
    c = _c05
    ver, ins, outs, lt = txv
    out = c._u32(ver) + b"\x00\x01" + c._cs(len(ins))
    for pt, pi, sc, sq, _w in ins:
        out += pt[::-1] + c._u32(pi) + c._sscript(c.ref_raw_script(sc)) + c._u32(sq)
    out += c._cs(len(outs))
    for am, sc in outs:
        out += c._i64(am) + c._sscript(c.ref_raw_script(sc))
    for _pt, _pi, _sc, _sq, w in ins:
        out += c._cs(len(w)) + b"".join(c._cs(len(x)) + x for x in w)
    return out + c._u32(lt)


def _push(items):
    return [x if x != b"" else 0 for x in items]


def wrap_script(kind, cmds):
    """(scriptPubKey commands, place) for the script `cmds` spent bare or through a script hash;
    place(stack items) -> (scriptSig commands, witness items)"""
    raw = _c05.ref_raw_script(S(cmds))
    if kind == "bare":
        return list(cmds), (lambda items: (_push(items), []))
    if kind == "p2sh":
        return [0xa9, _h160(raw), 0x87], (lambda items: (_push(items) + [raw], []))
    if kind == "p2wsh":
        return [0, _sha(raw)], (lambda items: ([], list(items) + [raw]))
    if kind == "p2sh-p2wsh":
        redeem = b"\x00\x20" + _sha(raw)
        return [0xa9, _h160(redeem), 0x87], (lambda items: ([redeem], list(items) + [raw]))
    raise ValueError(kind)


def tap_leaf_hash(raw, ver=0xc0):
    return _tag("TapLeaf", bytes([ver]) + _c05._cs(len(raw)) + raw)


def tap_branch(a, b):
    return _tag("TapBranch", min(a, b) + max(a, b))


def wrap_tap(cmds, internal, path=(), annex=None, ver=0xc0):
    """(scriptPubKey commands, place, control block) of a script-path spend of the leaf `cmds` under the sibling
    hashes `path`"""
    raw = _c05.ref_raw_script(S(cmds))
    h = tap_leaf_hash(raw, ver)
    for sib in path:
        h = tap_branch(h, sib)
    Q = internal.tweak_point(h)
    cb = bytes([ver | (Q.y.num & 1)]) + internal.xonly() + b"".join(path)
    tail = [raw, cb] + ([annex] if annex else [])
    return [0x51, _b32(Q.x.num)], (lambda items: ([], list(items) + tail)), cb


SHAPES = [(2, 2, 1), (3, 3, 2), (1, 1, 0), (2, 3, 0), (3, 3, 1), (3, 1, 2)]


class HSpend:
    """one input of a hand-made transaction"""

    def __init__(self, r, spk_cmds, place, shape):
        rb = lambda n: bytes(r.getrandbits(8) for _ in range(n))       # noqa: E731
        n_in, n_out, idx = shape
        self.idx, self.place = idx, place
        self.ins = [[rb(32), r.randrange(0, 4), S([]), r.choice([0xffffffff, 0xfffffffe, 0, 5]), []]
                    for _ in range(n_in)]
        self.spent = [[r.randrange(600, 10 ** 8), S([0x76, 0xa9, rb(20), 0x88, 0xac])] for _ in range(n_in)]
        self.outs = [[r.randrange(600, 10 ** 6), S([0x76, 0xa9, rb(20), 0x88, 0xac])] for _ in range(n_out)]
        self.spent[idx][1] = S(spk_cmds)
        self.lock = r.choice([0, 0, 499999999, 1700000000])
        self.single_ok = idx < n_out

    def value(self, items):
        ss, wit = self.place(items)
        ins = [list(i) for i in self.ins]
        ins[self.idx][2], ins[self.idx][4] = S(ss), list(wit)
        return [2, ins, self.outs, self.lock]

    def ht(self, ht):
        """SIGHASH_SINGLE needs a matching output (otherwise ALL / ALL|ANYONECANPAY is used)"""
        return ht if self.single_ok or ht & 3 != 3 else (ht & 0x80) | 1

    def digest(self, ht, items):
        d = _c05.ref_sig_hash(self.value(items), self.spent, self.idx, ht)
        if d is None:
            raise ValueError("the reference defines no digest for this spend")
        return d[2]

    def ctx(self, items):
        return [ser_tx(self.value(items)), self.idx, [[a, _c05.ref_raw_script(s)] for a, s in self.spent]]


def subset_plan(quick):
    """(n, k, signers): every k-subset of the n keys for n <= 3 (thorough: n <= 5), so that every key position is
    once a signing and once a non-signing one; quick tier, n = 4: the new last position signing alone and alone not
    signing, the first one alone not signing, all four"""
    full = 3 if quick else 5
    out = []
    for n in range(1, 6):
        for k in range(1, n + 1):
            combs = list(combinations(range(n), k))
            if n > full:
                combs = {(4, 1): [(3,)], (4, 3): [(0, 1, 2), (1, 2, 3)], (4, 4): combs}.get((n, k), [])
            out += [(n, k, c) for c in combs]
    return out


def gen_subsets(ctx):
    """m-of-n OP_CHECKMULTISIG and k-of-n tapscript OP_CHECKSIGADD spends with ENUMERATED signer subsets: every
    key position is once a signing and once a non-signing one; the signatures of one input carry different hash
    types, keys are compressed and uncompressed, the tapscript keys are NOT sorted, with and without annex / sibling"""
    r = ctx.rng
    quick = ctx.tier == "quick"
    keys = key_pool(ctx.seed)
    kinds = ["p2sh", "p2wsh", "bare", "p2sh-p2wsh"]
    for c, (n, k, sub) in enumerate(subset_plan(quick)):
        ks = [keys[(c + j) % len(keys)] for j in range(n)]
        # ---- OP_CHECKMULTISIG
        kind = kinds[c % 4]
        secs = [key.sec(compressed=(c + j) % 3 != 0) for j, key in enumerate(ks)]
        spk, place = wrap_script(kind, [0x50 + k] + secs + [0x50 + n, 0xae])
        sp = HSpend(r, spk, place, SHAPES[c % len(SHAPES)])
        ph = [b""] + [b"\x30" * 71] * k
        sigs = []
        for j, i in enumerate(sub):
            ht = sp.ht(HT_ECDSA[(c + j) % 6])
            sigs.append(ks[i].ecdsa(sp.digest(ht, ph), ht))
        cx = sp.ctx([b""] + sigs)
        ctx.label("subset/checkmultisig/%d-of-%d" % (k, n))
        ctx.label("subset/kind/" + kind)
        yield ("prop", "valid_spend", [cx])
        if not quick or c % 8 == 0:
            yield ("corr", "verify_input", model_args(cx))
        if k == 2 and sub == (0, 1) and (not quick or n == 3):
            z1 = sp.digest(1, ph)
            f1 = keys[(c + n) % len(keys)].ecdsa(z1, 1)
            for lab, bad in (("one signature twice", [sigs[0], sigs[0]]), ("a foreign second signature", [sigs[0], f1]),
                             ("a foreign first signature", [f1, sigs[1]])):
                ctx.label("subset/checkmultisig/unauthorised")
                yield ("prop", "unauthorised", [sp.ctx([b"\x01", b""] + bad), "2-of-%d multisig with %s, on top of a "
                                                "non-empty item" % (n, lab)])
            yield ("corr", "verify_input", model_args(sp.ctx([b"\x01", b"", sigs[1], sigs[0]])))      # wrong order
        # ---- OP_CHECKSIG / OP_CHECKSIGADD leaf
        xs = [key.xonly() for key in ks]
        cmds = [xs[0], 0xac]
        for x in xs[1:]:
            cmds += [x, 0xba]
        if n > 1 or c % 2:
            cmds += [0x50 + k, 0x87 if c % 3 else 0x9c]
        annex = (b"\x50" + bytes(r.getrandbits(8) for _ in range(c % 4))) if c % 3 == 0 else None
        path = [bytes(r.getrandbits(8) for _ in range(32))] if c % 4 == 1 else []
        spk, place, _cb = wrap_tap(cmds, keys[(c + n) % len(keys)], path, annex)
        sp = HSpend(r, spk, place, SHAPES[(c + 2) % len(SHAPES)])
        items = [b""] * n
        for j, i in enumerate(sub):
            ht = sp.ht(HT_SCHNORR[(c + j) % 7])
            items[n - 1 - i] = ks[i].schnorr(sp.digest(ht, [b""] * n), ht)
        cx = sp.ctx(items)
        ctx.label("subset/checksigadd/%d-of-%d" % (k, n))
        yield ("prop", "valid_spend", [cx])
        if not quick or c % 8 == 4:
            yield ("corr", "verify_input", model_args(cx))
        # ---- the same leaf with too few / misplaced signatures
        if k >= 2 and (not quick or sub == (0, 1)) and sub[0] + 1 == sub[1]:
            a, b = n - 1 - sub[0], n - 1 - sub[1]
            bad = list(items)
            bad[a], bad[b] = bad[b], bad[a]
            ctx.label("subset/checksigadd/exchanged-slots")
            yield ("prop", "unauthorised", [sp.ctx(bad), "tapscript signatures of two keys put in each other's slot"])
            bad = list(items)
            bad[a] = b""
            ctx.label("subset/checksigadd/k-1")
            yield ("prop", "unauthorised", [sp.ctx(bad), "k-1 tapscript signatures"])
        if k < n and (not quick or (n, k) == (3, 2)) and sub == tuple(range(k)):
            more = list(items)
            ht = sp.ht(1)
            more[n - 1 - k] = ks[k].schnorr(sp.digest(ht, [b""] * n), ht)
            ctx.label("subset/checksigadd/k+1")
            yield ("corr", "verify_input", model_args(sp.ctx(more)))        # k+1 valid signatures: EQUAL k fails


class _Emit:
    """yields the cases of one hand-made spend: verdict True -> valid_spend, False -> unauthorised, None -> the
    model decides (correspondence only); corr=True adds the correspondence case to a predicate case"""

    def __init__(self, ctx, junk=False):
        self.ctx, self.junk, self.n = ctx, junk, ctx.seed

    def __call__(self, sp, items, verdict, label, corr=False, junk=None):
        cx = sp.ctx(items)
        self.ctx.label("handmade/" + label[:60])
        if verdict is True:
            yield ("prop", "valid_spend", [cx])
        elif verdict is False:
            yield ("prop", "unauthorised", [cx, label])
        if corr and verdict is not None and self.ctx.tier == "quick":
            self.n += 1                      # quick tier: every third of the doubled (predicate + model) cases
            corr = self.n % 3 == 0
        if verdict is None or corr:
            yield ("corr", "verify_input", model_args(cx))
        if (verdict is False and (self.junk if junk is None else junk)) or (verdict is None and junk):
            # the same items on top of a NON-EMPTY item: an op code that fails without pushing, or whose failure is
            # swallowed, must not leave that item to decide the script
            cx = sp.ctx([b"\x01"] + list(items))
            self.ctx.label("handmade/non-empty item below")
            if verdict is False:
                yield ("prop", "unauthorised", [cx, label + " (on top of a non-empty item)"])
            else:
                yield ("corr", "verify_input", model_args(cx))


def gen_stack_bounds(ctx):
    """the stack-depth guards of OP_CHECKSIG(VERIFY) / OP_CHECKMULTISIG(VERIFY) / tapscript OP_CHECKSIG(VERIFY) /
    OP_CHECKSIGADD: too few items, exactly enough, one more; missing dummy element, missing m, n beyond the keys,
    m beyond n, 0-of-n"""
    r = ctx.rng
    quick = ctx.tier == "quick"
    keys = key_pool(ctx.seed)
    K0, K1, K2 = keys[0], keys[1], keys[2]
    emit = _Emit(ctx, junk=True)
    cnt = [0]

    def spend(kind, cmds):
        cnt[0] += 1
        spk, place = wrap_script(kind, cmds)
        return HSpend(r, spk, place, SHAPES[cnt[0] % len(SHAPES)])

    def sig(sp, key, n_items, ht=1):
        ht = sp.ht(ht)
        return key.ecdsa(sp.digest(ht, [b"\x30" * 71] * n_items), ht)

    sec0, sec1 = K0.sec(), K1.sec(compressed=False)
    # ---- OP_CHECKSIG with the key taken from the stack
    for kind in ("p2wsh", "bare") if quick else ("p2wsh", "bare", "p2sh", "p2sh-p2wsh"):
        sp = spend(kind, [0xac])
        sg = sig(sp, K0, 2, 0x83)
        yield from emit(sp, [], False, "OP_CHECKSIG on an empty stack")
        yield from emit(sp, [sec0], False, "OP_CHECKSIG with the key only")
        yield from emit(sp, [sg], False, "OP_CHECKSIG with the signature only")
        yield from emit(sp, [sg, sec0], True, "OP_CHECKSIG with signature and key", corr=True)
        yield from emit(sp, [b"\x01", sg, sec0], None, "OP_CHECKSIG with an item below signature and key")
        yield from emit(sp, [sec0, sg], False, "OP_CHECKSIG with key and signature exchanged")
    # ---- key in the script
    sp = spend("p2sh", [sec1, 0xac])
    yield from emit(sp, [], False, "<key> OP_CHECKSIG without a signature item")
    yield from emit(sp, [sig(sp, K1, 1, 2)], True, "<key> OP_CHECKSIG with a signature")
    yield from emit(sp, [sig(sp, K0, 1, 2)], False, "<key> OP_CHECKSIG with another key's signature")
    # ---- the other families of op codes Script.evaluate dispatches on (OP_IF: command list, alt stack)
    sp = spend("p2wsh", [0x51, 0x63, 0, 0x64, sec0, 0x6b, 0x6c, 0xac, 0x68, 0x68])
    yield from emit(sp, [sig(sp, K0, 1, 0x81)], True,
                    "OP_1 OP_IF OP_0 OP_NOTIF <key> OP_TOALTSTACK OP_FROMALTSTACK OP_CHECKSIG OP_ENDIF OP_ENDIF", corr=True)
    yield from emit(sp, [], False, "OP_1 OP_IF OP_0 OP_NOTIF <key> OP_TOALTSTACK OP_FROMALTSTACK OP_CHECKSIG OP_ENDIF OP_ENDIF unsigned")
    # ---- the value a signature op code pushes
    sp = spend("p2wsh", [sec0, 0xac, 0x51, 0x87])
    yield from emit(sp, [sig(sp, K0, 1, 0x82)], True, "<key> OP_CHECKSIG OP_1 OP_EQUAL with a signature")
    sp = spend("p2sh", [0x51, sec0, 0x51, 0xae, 0x51, 0x87])
    yield from emit(sp, [b"", sig(sp, K0, 2, 3)], True, "1-of-1 OP_CHECKMULTISIG OP_1 OP_EQUAL with a signature")
    # ---- OP_CHECKSIGVERIFY / OP_CHECKMULTISIGVERIFY
    sp = spend("p2wsh", [sec0, 0xad, 0x51])
    good = sig(sp, K0, 1, 3)
    yield from emit(sp, [good], True, "<key> OP_CHECKSIGVERIFY OP_1 with a signature")
    yield from emit(sp, [sig(sp, K2, 1, 3)], False, "<key> OP_CHECKSIGVERIFY OP_1 with a foreign signature", corr=True)
    yield from emit(sp, [], False, "<key> OP_CHECKSIGVERIFY OP_1 without items")
    sp = spend("p2sh", [0x51, sec0, 0x51, 0xaf, 0x51])
    yield from emit(sp, [b"", sig(sp, K0, 2)], True, "1-of-1 OP_CHECKMULTISIGVERIFY OP_1 with a signature")
    yield from emit(sp, [b"", sig(sp, K1, 2)], False, "1-of-1 OP_CHECKMULTISIGVERIFY OP_1 with a foreign signature",
                    corr=True)
    yield from emit(sp, [b""], False, "1-of-1 OP_CHECKMULTISIGVERIFY OP_1 with the dummy only")
    # ---- OP_CHECKMULTISIG 1-of-2: depth of the stack below the keys
    for kind in ("p2wsh", "p2sh"):
        sp = spend(kind, [0x51, sec0, sec1, 0x52, 0xae])
        sg = sig(sp, K0, 2, 0x82)
        yield from emit(sp, [], False, "1-of-2 OP_CHECKMULTISIG with no stack item")
        yield from emit(sp, [b""], False, "1-of-2 OP_CHECKMULTISIG with the dummy only")
        yield from emit(sp, [sg], None, "1-of-2 OP_CHECKMULTISIG without the dummy element")
        yield from emit(sp, [b"", sg], True, "1-of-2 OP_CHECKMULTISIG with dummy and signature")
        yield from emit(sp, [sg, b""], False, "1-of-2 OP_CHECKMULTISIG with signature and dummy exchanged")
        yield from emit(sp, [b"", b"", sg], None, "1-of-2 OP_CHECKMULTISIG with an extra item below the dummy")
        yield from emit(sp, [b"\x01", sg], None, "1-of-2 OP_CHECKMULTISIG with a non-null dummy")
        if quick:
            break
    sp = spend("p2wsh", [sec0, sec1, 0x52, 0xae])
    sg = sig(sp, K0, 3)
    yield from emit(sp, [], False, "<k0> <k1> 2 OP_CHECKMULTISIG (no m) with no item")
    yield from emit(sp, [b"\x01"], False, "<k0> <k1> 2 OP_CHECKMULTISIG (no m) with m only")
    yield from emit(sp, [b"", sg, b"\x01"], None, "<k0> <k1> 2 OP_CHECKMULTISIG with m supplied by the spender")
    sp = spend("p2wsh", [0xae])
    yield from emit(sp, [], False, "OP_CHECKMULTISIG on an empty stack")
    yield from emit(sp, [b""], False, "OP_CHECKMULTISIG with n = 0 only")
    yield from emit(sp, [b"", b"", b""], None, "OP_CHECKMULTISIG with 0-of-0 from the witness")
    sp = spend("p2sh", [0x51, sec0, 0x53, 0xae])
    yield from emit(sp, [b"", sig(sp, K0, 2)], None, "1 <k0> 3 OP_CHECKMULTISIG (n beyond the keys)", junk=True)
    sp = spend("p2wsh", [0, sec0, 0x51, 0xae])
    yield from emit(sp, [b""], None, "0-of-1 OP_CHECKMULTISIG")
    yield from emit(sp, [], False, "0-of-1 OP_CHECKMULTISIG without the dummy element", junk=False)
    sp = spend("p2sh", [0x52, sec0, 0x51, 0xae])
    sg = sig(sp, K0, 3)
    yield from emit(sp, [b"", sg, sg], False, "2-of-1 OP_CHECKMULTISIG with one signature twice", corr=True)
    sp = spend("p2wsh", [0x52, sec0, sec0, 0x52, 0xae])
    sg = sig(sp, K0, 3)
    yield from emit(sp, [b"", sg, sg], None, "2-of-2 OP_CHECKMULTISIG over one key twice")
    # ---- tapscript
    x0, x1 = K0.xonly(), K1.xonly()

    def tspend(cmds, path=(), annex=None):
        cnt[0] += 1
        spk, place, _cb = wrap_tap(cmds, K2, path, annex)
        return HSpend(r, spk, place, SHAPES[cnt[0] % len(SHAPES)])

    def tsig(sp, key, n_items, ht=0):
        ht = sp.ht(ht)
        return key.schnorr(sp.digest(ht, [b""] * n_items), ht)

    sp = tspend([x0, 0xac, x1, 0xba, 0x51, 0x87])
    yield from emit(sp, [], False, "tapscript 1-of-2 without items")
    yield from emit(sp, [b""], False, "tapscript 1-of-2 with one empty item")
    yield from emit(sp, [b"", b""], False, "tapscript 1-of-2 with two empty items")
    yield from emit(sp, [tsig(sp, K0, 1, 0x81)], None, "tapscript 1-of-2 with one item (a valid signature) only")
    v1 = tsig(sp, K1, 2, 2)
    yield from emit(sp, [v1, b""], True, "tapscript 1-of-2 signed by the second key", corr=True)
    yield from emit(sp, [v1, tsig(sp, K2, 2)], None, "tapscript 1-of-2: valid second signature, foreign first one")
    yield from emit(sp, [tsig(sp, K2, 2, 1), tsig(sp, K0, 2, 1)], None,
                    "tapscript 1-of-2: valid first signature, foreign second one")
    yield from emit(sp, [tsig(sp, K2, 2, 1), tsig(sp, K2, 2)], False, "tapscript 1-of-2: two foreign signatures")
    sp = tspend([x0, 0xba])
    s0 = tsig(sp, K0, 2, 3)
    yield from emit(sp, [s0, b""], True, "<sig> 0 <key> OP_CHECKSIGADD")
    yield from emit(sp, [s0], None, "<sig> <key> OP_CHECKSIGADD (no counter)")
    yield from emit(sp, [s0, b"\x01"], None, "<sig> 1 <key> OP_CHECKSIGADD")
    yield from emit(sp, [b"", b""], False, "<empty> 0 <key> OP_CHECKSIGADD", corr=True)
    yield from emit(sp, [b"", b"\x01"], None, "<empty> 1 <key> OP_CHECKSIGADD")
    yield from emit(sp, [b"\x01", b"", b""], False, "1 <empty> 0 <key> OP_CHECKSIGADD", corr=True)
    sp = tspend([x0, 0xad, 0x51], annex=b"\x50")
    yield from emit(sp, [tsig(sp, K0, 1, 1)], True, "tapscript <key> OP_CHECKSIGVERIFY OP_1 with a signature")
    yield from emit(sp, [b""], False, "tapscript <key> OP_CHECKSIGVERIFY OP_1 with an empty signature")
    yield from emit(sp, [], False, "tapscript <key> OP_CHECKSIGVERIFY OP_1 without items")
    yield from emit(sp, [tsig(sp, K1, 1, 1)], False, "tapscript <key> OP_CHECKSIGVERIFY OP_1 with a foreign signature")
    # ---- leaves that end with an empty stack
    sp = tspend([])
    yield from emit(sp, [], False, "tapscript: empty leaf script", corr=True, junk=False)
    sp = tspend([x0, 0xad])
    yield from emit(sp, [tsig(sp, K0, 1)], None, "tapscript <key> OP_CHECKSIGVERIFY alone with a signature", junk=False)
    sp = tspend([0xac])
    s0 = tsig(sp, K0, 2)
    yield from emit(sp, [s0, x0], True, "tapscript OP_CHECKSIG with signature and key from the witness")
    yield from emit(sp, [x0], False, "tapscript OP_CHECKSIG with the key only")
    yield from emit(sp, [s0], False, "tapscript OP_CHECKSIG with the signature only")


def gen_bad_keys(ctx):
    """public keys of the wrong length / prefix / not on the curve inside scripts, 32-byte keys in legacy scripts,
    uncompressed keys; x-only keys of the wrong length in tapscript"""
    r = ctx.rng
    quick = ctx.tier == "quick"
    keys = key_pool(ctx.seed)
    odd = [k for k in keys if k.py & 1][0]
    even = [k for k in keys if not k.py & 1][0]
    emit = _Emit(ctx)
    cnt = [0]

    def spend(kind, cmds):
        cnt[0] += 1
        spk, place = wrap_script(kind, cmds)
        return HSpend(r, spk, place, SHAPES[cnt[0] % len(SHAPES)])

    def sig(sp, key, n_items, ht=1):
        return key.ecdsa(sp.digest(ht, [b"\x30" * 71] * n_items), ht)

    xo, xe = _b32(odd.px), _b32(even.px)
    off_x = next(x for x in range(odd.px + 1, odd.px + 200)
                 if pow((pow(x, 3, P_FLD) + 7) % P_FLD, (P_FLD - 1) // 2, P_FLD) != 1)
    bad = [("34 bytes", odd.sec() + b"\x00"), ("31 bytes", odd.sec()[:31]), ("empty", b""),
           ("33 bytes prefix 05", b"\x05" + xo), ("33 bytes prefix 04", b"\x04" + xo), ("33 bytes prefix 00", b"\x00" + xo),
           ("65 bytes prefix 02", odd.sec(False, 2)), ("65 bytes prefix 07", odd.sec(False, 7)),
           ("65 bytes not on the curve", b"\x04" + xo + _b32(odd.py ^ 1)),
           ("33 bytes x not on the curve", b"\x02" + _b32(off_x)), ("33 bytes x = p", b"\x03" + _b32(P_FLD)),
           ("64 bytes", xo + _b32(odd.py))]
    # ---- inside OP_CHECKMULTISIG: before and after the key that signs
    for j, (name, bk) in enumerate(bad):
        if quick and j % 2 != ctx.seed % 2 and j > 5:
            continue
        for pos in (0, 1):
            if quick and pos == 0 and j not in (0, 3, 6):
                continue
            ks = [even.sec(), even.sec()]
            ks[pos] = bk
            sp = spend(("p2wsh", "p2sh", "bare")[(j + pos) % 3], [0x51] + ks + [0x52, 0xae])
            yield from emit(sp, [b"", sig(sp, even, 2)], None,
                            "1-of-2 multisig, %s key %s the signing key" % (name, "before" if pos == 0 else "after"),
                            junk=(j + pos) % 2 == 0)
    # ---- good encodings
    sp = spend("p2sh", [0x51, odd.sec(False), even.sec(False), 0x52, 0xae])
    yield from emit(sp, [b"", sig(sp, even, 2)], True, "1-of-2 multisig over uncompressed keys", corr=True)
    sp = spend("p2wsh", [0x51, xe, 0x51, 0xae])
    yield from emit(sp, [b"", sig(sp, even, 2)], None, "1-of-1 multisig over a 32-byte key (even y)")
    sp = spend("p2wsh", [0x51, xo, 0x51, 0xae])
    yield from emit(sp, [b"", sig(sp, odd, 2)], None, "1-of-1 multisig over a 32-byte key (odd y)")
    # ---- single key: p2pkh / p2wpkh over the hash of a malformed key, signature by the key it resembles
    for j, (name, bk, key) in enumerate([("33 bytes prefix 05", b"\x05" + xo, odd), ("33 bytes prefix 04", b"\x04" + xo, odd),
                                         ("prefix of the other parity", b"\x02" + xo, odd),
                                         ("prefix of the other parity", b"\x03" + xe, even),
                                         ("34 bytes", odd.sec() + b"\x00", odd), ("33 bytes prefix 01", b"\x01" + xe, even)]):
        cnt[0] += 1
        if (j + ctx.seed) % 2:
            sp = HSpend(r, [0x76, 0xa9, _h160(bk), 0x88, 0xac], (lambda items: (_push(items), [])), SHAPES[cnt[0] % 6])
            what = "p2pkh"
        else:
            sp = HSpend(r, [0, _h160(bk)], (lambda items: ([], list(items))), SHAPES[cnt[0] % 6])
            what = "p2wpkh"
        yield from emit(sp, [sig(sp, key, 2), bk], False, "%s over a malformed key (%s)" % (what, name), corr=True)
    cnt[0] += 1
    usec = odd.sec(False)
    sp = HSpend(r, [0x76, 0xa9, _h160(usec), 0x88, 0xac], (lambda items: (_push(items), [])), SHAPES[cnt[0] % 6])
    yield from emit(sp, [sig(sp, odd, 2, 0x81), usec], True, "p2pkh over an uncompressed key", corr=True)
    # ---- tapscript keys
    tk = [("31 bytes", xe[1:]), ("33 bytes", xe + b"\x00"), ("x = 0", bytes(32)), ("x = p", _b32(P_FLD)),
          ("x not on the curve", _b32(off_x)), ("empty", b"")]
    for j, (name, bk) in enumerate(tk):
        cnt[0] += 1
        spk, place, _cb = wrap_tap([bk if bk else 0, 0xac], keys[3])
        sp = HSpend(r, spk, place, SHAPES[cnt[0] % 6])
        yield from emit(sp, [even.schnorr(sp.digest(0, [b""]), 0)], None, "tapscript OP_CHECKSIG over a key of %s" % name)


def gen_taptrees(ctx):
    """script-path spends out of trees with several leaves: control blocks with 1, 2, 3 and 128 sibling hashes, the
    leaf hash below and above its sibling; wrong / exchanged / missing / extra siblings, parity, leaf version,
    internal key, control blocks of a wrong length, 129 siblings"""
    r = ctx.rng
    quick = ctx.tier == "quick"
    keys = key_pool(ctx.seed)
    emit = _Emit(ctx)
    internal = keys[4]
    rb = lambda n: bytes(r.getrandbits(8) for _ in range(n))       # noqa: E731
    leaves = [[k.xonly(), 0xac] for k in keys[:4]]
    lh = [tap_leaf_hash(_c05.ref_raw_script(S(c))) for c in leaves]
    # (leaf index, path) — ((L0 L1) L2) L3
    b01 = tap_branch(lh[0], lh[1])
    b012 = tap_branch(b01, lh[2])
    shapes = [(0, [lh[1]]), (1, [lh[0]]), (2, [b01]), (0, [lh[1], lh[2]]), (1, [lh[0], lh[2], lh[3]]), (3, [b012])]
    if quick:
        shapes = [shapes[0], shapes[1], shapes[3], shapes[4]]
    for c, (li, path) in enumerate(shapes):
        annex = b"\x50" + rb(3) if c == 2 else None
        spk, place, cb = wrap_tap(leaves[li], internal, path, annex)
        sp = HSpend(r, spk, place, SHAPES[c % 6])
        ht = sp.ht(HT_SCHNORR[c % 7])
        sg = keys[li].schnorr(sp.digest(ht, [b""]), ht)
        order = "below" if tap_leaf_hash(_c05.ref_raw_script(S(leaves[li]))) < path[0] else "above"
        yield from emit(sp, [sg], True, "leaf at depth %d (leaf hash %s its sibling)" % (len(path), order), corr=c % 2 == 0)
        if len(path) != 2:
            continue
        # ---- the same spend with another control block (the witness is assembled by hand here)
        raw = _c05.ref_raw_script(S(leaves[li]))

        def alt(new_cb, script=raw, sig=sg):
            a = HSpend.__new__(HSpend)
            a.__dict__.update(sp.__dict__)
            a.place = lambda items: ([], list(items) + [script, new_cb] + ([annex] if annex else []))
            return a
        flip = bytearray(cb)
        flip[33 + r.randrange(64)] ^= 1 << r.randrange(8)
        variants = [("a sibling hash with one bit flipped", bytes(flip)),
                    ("the two sibling hashes exchanged", cb[:33] + cb[65:97] + cb[33:65]),
                    ("the last sibling hash missing", cb[:65]),
                    ("the first sibling hash missing", cb[:33] + cb[65:]),
                    ("no sibling hashes", cb[:33]),
                    ("an extra sibling hash", cb + rb(32)),
                    ("the parity bit flipped", bytes([cb[0] ^ 1]) + cb[1:]),
                    ("leaf version 0xc2", bytes([cb[0] ^ 2]) + cb[1:]),
                    ("another internal key", cb[:1] + keys[5].xonly() + cb[33:]),
                    ("one byte short", cb[:-1]),
                    ("one byte long", cb + b"\x00"),
                    ("32 bytes (no version byte)", cb[1:33]),
                    ("empty", b"")]
        for j, (name, ncb) in enumerate(variants):
            if quick and j % 2 != (ctx.seed + c) % 2 and j not in (0, 1, 6, 10):
                continue
            yield from emit(alt(ncb), [sg], False, "control block with " + name, corr=j % 3 == 0)
        other = _c05.ref_raw_script(S(leaves[2]))
        yield from emit(alt(cb, script=other), [keys[2].schnorr(sp.digest(0, [b""]), 0)], False,
                        "another leaf of the tree under this leaf's control block", corr=True)
    # ---- the depth limit
    for depth in (128, 129) if quick else (127, 128, 129, 130):
        path = [rb(32) for _ in range(depth)]
        spk, place, cb = wrap_tap(leaves[0], internal, path)
        sp = HSpend(r, spk, place, SHAPES[depth % 6])
        ref = HSpend.__new__(HSpend)           # the digest commits to the leaf, not to the path: the reference
        ref.__dict__.update(sp.__dict__)       # (which defines none beyond 128 siblings) is asked with a short path
        ref.place = lambda items, cb=cb: ([], list(items) + [_c05.ref_raw_script(S(leaves[0])), cb[:65]])
        sg = keys[0].schnorr(ref.digest(0, [b""]), 0)
        yield from emit(sp, [sg], True if depth <= 128 else None, "control block with %d sibling hashes" % depth, corr=True)


def _grind(key, pred):
    k = key.renonce(pred)
    if k is None:
        raise ValueError("no nonce of the wanted class found")
    return k


def gen_der(ctx):
    """ECDSA signatures whose DER integers are 31 / 32 / 33 bytes long (r and s independently; 33-byte s = high S),
    reached by stepping the nonce; p2pkh, p2wpkh and p2sh-p2wpkh"""
    r = ctx.rng
    quick = ctx.tier == "quick"
    keys = key_pool(ctx.seed)
    emit = _Emit(ctx)
    combos = [(31, 32), (33, 31), (32, 33), (33, 33), (32, 32), (33, 32), (32, 31), (31, 33)]
    for c, (rl, sl) in enumerate(combos[:4] if quick else combos):
        key = keys[c % len(keys)]
        sec = key.sec(compressed=c % 3 != 1)
        kind = ("p2wpkh", "p2pkh", "p2sh-p2wpkh")[c % 3]
        if kind == "p2pkh":
            sp = HSpend(r, [0x76, 0xa9, _h160(sec), 0x88, 0xac], (lambda items: (_push(items), [])), SHAPES[c % 6])
        elif kind == "p2wpkh":
            sp = HSpend(r, [0, _h160(sec)], (lambda items: ([], list(items))), SHAPES[c % 6])
        else:
            redeem = b"\x00\x14" + _h160(sec)
            sp = HSpend(r, [0xa9, _h160(redeem), 0x87], (lambda items, redeem=redeem: ([redeem], list(items))), SHAPES[c % 6])
        ht = sp.ht(HT_ECDSA[c % 6])
        z = sp.digest(ht, [b"\x30" * 71, sec])

        def ok(cand, z=z, rl=rl, sl=sl):
            rr, ss = cand.rs(z, high_s=(sl == 33))
            return len(der_int(rr)) - 2 == rl and len(der_int(ss)) - 2 == sl
        try:
            kk = _grind(key, ok)
        except ValueError:
            ctx.label("der/no-nonce-found")
            continue
        sg = kk.ecdsa(z, ht, high_s=(sl == 33))
        yield from emit(sp, [sg, sec], True, "%s, DER r of %d and s of %d bytes" % (kind, rl, sl), corr=True)
        if c == 0:
            rr, ss = kk.rs(z)
            yield from emit(sp, [der(rr, ss, rpad=1) + bytes([ht]), sec], None, "DER r with a superfluous zero byte")
            yield from emit(sp, [der(rr, ss)[:-1] + bytes([ht]), sec], False, "DER signature one byte short", corr=True)
            yield from emit(sp, [der(rr, ss) + b"\x00" + bytes([ht]), sec], None, "DER signature with a trailing byte")
            yield from emit(sp, [der(0, ss) + bytes([ht]), sec], False, "signature with r = 0", corr=True)
            yield from emit(sp, [der(rr, 0) + bytes([ht]), sec], False, "signature with s = 0", corr=True)
            yield from emit(sp, [der(rr, ss + N_ORD) + bytes([ht]), sec], False, "signature with s + n", corr=True)
            yield from emit(sp, [der(rr + N_ORD, ss) + bytes([ht]), sec], False, "signature with r + n", corr=True)
            yield from emit(sp, [der(rr, N_ORD - ss) + bytes([ht]), sec], None, "signature with n - s (high S)")
            yield from emit(sp, [sg[:-1], sec], None, "signature without the hash type byte")


def gen_shapes(ctx):
    """scriptSig shapes of a p2sh spend around the `command > 96` guard of verify_input, redeem / witness scripts
    whose length sits on a push-opcode or compact-size boundary, a signature made for another input with the same
    script, schnorr signatures with trailing bytes"""
    r = ctx.rng
    quick = ctx.tier == "quick"
    keys = key_pool(ctx.seed)
    emit = _Emit(ctx)
    K0, K1 = keys[0], keys[1]
    # ---- op codes in a p2sh scriptSig that carries valid signatures
    spk, place = wrap_script("p2sh", [0x51, K0.sec(), K1.sec(), 0x52, 0xae])
    sp = HSpend(r, spk, place, SHAPES[0])
    ht = sp.ht(0x83)
    sg = K1.ecdsa(sp.digest(ht, [b"", b"\x30" * 71]), ht)
    raw = place([])[0][-1]
    for name, pre, verdict in (("OP_16", [0x60], True), ("OP_NOP", [0x61], None), ("OP_1NEGATE", [0x4f], True),
                               ("OP_RESERVED", [0x50], None), ("OP_DUP after the dummy", None, None)):
        a = HSpend.__new__(HSpend)
        a.__dict__.update(sp.__dict__)
        if pre is None:
            a.place = lambda items: ([0, 0x76, 0x75] + _push(items[1:]) + [raw], [])
        else:
            a.place = lambda items, pre=pre: (pre + _push(items) + [raw], [])
        yield from emit(a, [b"", sg], verdict, "p2sh scriptSig with %s and valid signatures" % name, corr=verdict is True)
    # ---- the p2sh / witness rules fire at most once: scripts that leave the pattern of a rule behind
    inner = b"\x00"                                  # OP_0 as a script: false
    spk, place = wrap_script("p2sh", [inner, 0xa9, _h160(inner), 0x87])
    yield from emit(HSpend(r, spk, place, SHAPES[2]), [], None, "p2sh redeem script <X> OP_HASH160 <h(X)> OP_EQUAL (X = OP_0)")
    for kind in ("p2wsh", "p2sh-p2wsh"):
        h20 = _h160(keys[0].sec())
        spk, place = wrap_script(kind, [0, h20])
        spn = HSpend(r, spk, place, SHAPES[0])
        yield from emit(spn, [], None, kind + " witness script OP_0 <20 bytes> (a v0 program left on the stack)")
        yield from emit(spn, [keys[0].ecdsa(spn.digest(1, []), 1), keys[0].sec()], None,
                        kind + " witness script OP_0 <20 bytes> with signature and key below")
        spk, place = wrap_script(kind, [0x51, _b32(keys[0].tweaked().px)])
        yield from emit(HSpend(r, spk, place, SHAPES[1]), [b"\x01"], None,
                        kind + " witness script OP_1 <32 bytes> (a v1 program left on the stack)")
        if quick:
            break
    h20 = _h160(keys[1].sec())
    spn = HSpend(r, [0, h20], (lambda items: ([], list(items))), SHAPES[3])
    yield from emit(spn, [b"", h20], False, "p2wpkh with the witness <empty> <20 bytes> (a v0 program again)")
    spk, place, _cb = wrap_tap([0x51, _b32(keys[1].tweaked().px)], keys[2])
    yield from emit(HSpend(r, spk, place, SHAPES[4]), [], None, "tapscript leaf OP_1 <32 bytes> (a v1 program left on the stack)")
    # ---- script lengths at the push-opcode / compact-size boundaries (padding: OP_NOP)
    sizes = [("p2sh", 75), ("p2sh", 76), ("p2sh", 255), ("p2sh", 256), ("p2wsh", 252), ("p2wsh", 253), ("p2sh", 520),
             ("p2wsh", 75), ("p2wsh", 76), ("p2sh-p2wsh", 255), ("p2sh-p2wsh", 256), ("p2wsh", 521), ("bare", 253)]
    for c, (kind, size) in enumerate(sizes[:6] if quick else sizes):
        key = keys[c % len(keys)]
        body = [key.sec(), 0xac]
        cmds = [0x61] * (size - 35) + body
        spk, place = wrap_script(kind, cmds)
        sp = HSpend(r, spk, place, SHAPES[c % 6])
        ht = sp.ht(HT_ECDSA[c % 6])
        yield from emit(sp, [key.ecdsa(sp.digest(ht, [b"\x30" * 71]), ht)], True,
                        "%s script of %d bytes" % (kind, size), corr=c % 2 == 1)
    # ---- two inputs spending the same script: each signature is valid for its own input only
    for c, kind in enumerate(("p2wpkh", "p2pkh", "p2tr")):
        if quick and c != ctx.seed % 3:
            continue
        key = keys[2 + c]
        if kind == "p2tr":
            tk = key.tweaked()
            spk_cmds, place = [0x51, tk.xonly()], (lambda items: ([], list(items)))
        elif kind == "p2wpkh":
            spk_cmds, place = [0, _h160(key.sec())], (lambda items: ([], list(items)))
        else:
            spk_cmds, place = [0x76, 0xa9, _h160(key.sec()), 0x88, 0xac], (lambda items: (_push(items), []))
        a = HSpend(r, spk_cmds, place, (2, 2, 0))
        a.spent[1] = [a.spent[0][0], S(spk_cmds)]
        a.ins[1][3] = a.ins[0][3]
        b = HSpend.__new__(HSpend)
        b.__dict__.update(a.__dict__)
        b.idx = 1
        sigs = []
        for s_ in (a, b):
            if kind == "p2tr":
                sigs.append([tk.schnorr(s_.digest(0x83, [b""]), 0x83)])
            else:
                sigs.append([key.ecdsa(s_.digest(0x83, [b"\x30" * 71, key.sec()]), 0x83), key.sec()])
        yield from emit(a, sigs[0], True, "%s: first of two inputs with the same script" % kind)
        yield from emit(b, sigs[1], True, "%s: second of two inputs with the same script" % kind)
        yield from emit(a, sigs[1], False, "%s: signature made for the other input with the same script and amount" % kind,
                        corr=True)
        yield from emit(b, sigs[0], False, "%s: signature made for the other input with the same script and amount" % kind)
    # ---- key path: forms of the signature item
    key = keys[3].tweaked()
    sp = HSpend(r, [0x51, key.xonly()], (lambda items: ([], list(items))), SHAPES[1])
    s64 = key.schnorr(sp.digest(0, [b""]), 0)
    yield from emit(sp, [s64], True, "key path, 64-byte signature", corr=True)
    yield from emit(sp, [s64 + b"\x01\x00"], None, "key path, 64-byte signature with two trailing bytes")
    yield from emit(sp, [s64[:63]], False, "key path, 63-byte signature", corr=True)
    yield from emit(sp, [b""], False, "key path, empty signature", corr=True)
    s_all = key.schnorr(sp.digest(1, [b""]), 1)
    yield from emit(sp, [s_all[:64]], False, "key path, SIGHASH_ALL signature without its hash type byte", corr=True)
    yield from emit(sp, [s64 + b"\x01"], False, "key path, default signature relabelled SIGHASH_ALL")
    untweaked = keys[3]
    yield from emit(sp, [untweaked.schnorr(sp.digest(0, [b""]), 0)], False, "key path signed with the untweaked key", corr=True)
    e_, s_ = s64[:32], int.from_bytes(s64[32:], "big")
    yield from emit(sp, [e_ + _b32(N_ORD)], False, "key path, s = n")
    if s_ + N_ORD < 2 ** 256:
        yield from emit(sp, [e_ + _b32(s_ + N_ORD)], False, "key path, s + n", corr=True)
    yield from emit(sp, [_b32(P_FLD) + s64[32:]], False, "key path, R.x = p")
    yield from emit(sp, [bytes(32) + s64[32:]], False, "key path, R.x = 0", corr=True)
    # ---- witness item counts at the compact-size boundary (the items below the signature are left on the stack)
    for cnt_ in (0xfd,) if quick else (0xfc, 0xfd, 0xfe):
        k_ = keys[1]
        spk_, place_ = wrap_script("p2wsh", [k_.sec(), 0xac])
        spw = HSpend(r, spk_, place_, SHAPES[2])
        fill = [bytes([1 + i % 5]) for i in range(cnt_ - 2)]
        yield from emit(spw, fill + [k_.ecdsa(spw.digest(1, [b""]), 1)], None, "p2wsh witness of %d items" % cnt_)
    sp2 = HSpend(r, [0x51, key.xonly()], (lambda items: ([], list(items) + [b"\x50\x01\x02"])), SHAPES[3])
    yield from emit(sp2, [key.schnorr(sp2.digest(2, [b""]), 2)], True, "key path with annex, SIGHASH_NONE", corr=True)
    yield from emit(sp2, [key.schnorr(sp.digest(2, [b""]), 2)], False, "key path with annex, signed without the annex")


# ----------------------------------------------------------------- library-signed spends of particular classes

def fixed_spend(secret, kind="p2wpkh", compressed=True):
    """a FIXED one-input transaction (nothing random) spending an output of the key `secret`, unsigned"""
    p = PrivateKey(secret, compressed=compressed)
    spk = p.point.p2wpkh_script() if kind == "p2wpkh" else p.point.p2pkh_script(compressed=compressed)
    ti = TxIn(bytes(range(32)), 1)
    ti._value, ti._script_pubkey = 123456, spk
    out = TxOut(120000, P2PKHScriptPubKey(bytes(range(20))))
    return p, Tx(2, [ti], [out], 0, network="mainnet", segwit=True)


# secrets found by search (offline) for which the library's own RFC 6979 signature of fixed_spend(secret) has a DER
# integer of a particular form; if signing or the digest change these are ordinary valid spends
_GS = 0x1c060000000000000000000000000000
GROUND_SECRETS = [(_GS + 0x340, "s-top-bytes-01-then-below-80"), (_GS + 0x5cf, "r-top-bytes-01-then-below-80"),
                  (_GS + 0x1f0, "r-of-31-bytes"), (_GS + 0x78, "s-of-31-bytes"),
                  (_GS + 0x07, "s-top-byte-01-then-high-bit"), (_GS + 0x15e, "r-top-byte-01-then-high-bit"),
                  (_GS + 0x26, "r-top-byte-00-then-high-bit"), (_GS + 0x14, "s-top-byte-00-then-high-bit"),
                  (_GS + 0x1f, "r-top-byte-7f"), (_GS + 0x01, "r-of-33-bytes")]


def p_lib_signed(secret, kind, compressed, via):
    """a spend of a fixed transaction signed THROUGH the library (sign_p2wpkh / sign_p2pkh / sign_input) verifies:
    the signing call returns True and a freshly parsed copy verifies"""
    kind = kind.decode() if isinstance(kind, bytes) else kind
    p, tx = fixed_spend(secret, kind, bool(compressed))
    try:
        if via == 0:
            res = quiet(tx.sign_p2wpkh if kind == "p2wpkh" else tx.sign_p2pkh, 0, p)
        else:
            res = quiet(tx.sign_input, 0, p)
    except Exception as e:
        return f"signing raised {type(e).__name__}: {e}"
    if res is not True:
        return f"the signing helper returned {res!r} for its own signature"
    item = (tx.tx_ins[0].witness.items if kind == "p2wpkh" else tx.tx_ins[0].script_sig.commands)[0]
    if not p_valid_spend(pack(tx, 0)) is None:
        return "the library-signed spend (signature %s) does not verify after a round trip" % item.hex()
    return None


# ----------------------------------------------------------------- the library's tapscript multisig path

def _combine_hashes(hs):
    """root and sibling paths of the tree TapBranch.combine builds over the leaf hashes hs (halving)"""
    if len(hs) == 1:
        return hs[0], [[]]
    half = len(hs) // 2
    lr, lp = _combine_hashes(hs[:half])
    rr, rp = _combine_hashes(hs[half:])
    return tap_branch(lr, rr), [p + [rr] for p in lp] + [p + [lr] for p in rp]


def _lib_multisig(salt, n, k, tree, leaf_i):
    """library objects and the independent expectations of a k-of-n tapscript multisig output:
    tree 0 = the single k-of-n leaf is the root, 1 = one k-of-k leaf per k-subset (TapBranch.combine),
    2 = TapBranch(single leaf, that tree)"""
    import random
    from buidl.taproot import TapBranch
    keys = key_pool(salt)
    ks = sorted(keys[:n], key=lambda key: key.xonly())
    internal = keys[n]

    def leaf_cmds(sub, kk):
        xs = [key.xonly() for key in sub]
        cmds = [xs[0], 0xac]
        if len(xs) > 1:
            for x in xs[1:]:
                cmds += [x, 0xba]
            cmds += [0x50 + kk, 0x87]
        return cmds
    single_lib = MultiSigTapScript([key.P for key in keys[:n]], k).tap_leaf()
    single_own = leaf_cmds(ks, k)
    if tree == 0:
        node, leaf, own, leaf_keys, path = single_lib, single_lib, single_own, ks, []
    else:
        subs = list(combinations(ks, k))
        # the library is handed the points in pool order (unsorted); its leaves sort them
        lib_leaves = [MultiSigTapScript([key.P for key in sub][::-1], k).tap_leaf() for sub in subs]
        own_hashes = [tap_leaf_hash(_c05.ref_raw_script(S(leaf_cmds(sub, k)))) for sub in subs]
        sub_root, paths = _combine_hashes(own_hashes)
        li = leaf_i % len(subs)
        leaf, own, leaf_keys, path = lib_leaves[li], leaf_cmds(subs[li], k), list(subs[li]), paths[li]
        node = TapBranch.combine(lib_leaves)
        if tree == 2:
            path = path + [tap_leaf_hash(_c05.ref_raw_script(S(single_own)))]
            node = TapBranch(single_lib, node)
    spk, place, cb = wrap_tap(own, internal, path)
    hs = HSpend(random.Random("c06-lib:%d" % salt), spk, place, SHAPES[salt % len(SHAPES)])
    tx = _c05.mk_tx(hs.value([])[:1] + [[i[:4] + [[]] for i in hs.value([])[1]]] + hs.value([])[2:], hs.spent)
    return keys, internal, node, leaf, leaf_keys, own, cb, spk, hs, tx


def p_finalize_api(salt, n, k, tree, leaf_i, signers, rot):
    """TapLeaf / TapBranch.control_block, P2TR output script, Tx.initialize_p2tr_multisig and
    Tx.finalize_p2tr_multisig on a k-of-n tapscript multisig: the signatures (made here over the reference digest,
    64 and 65 bytes long) are handed over in a rotated order, with or without empty entries; finalize must return
    True and leave exactly the witness [signature or empty per key, last key first] + [script, control block]"""
    keys, internal, node, leaf, leaf_keys, own, cb, spk, hs, tx = _lib_multisig(salt, n, k, tree, leaf_i)
    lib_cb = node.control_block(internal.P, leaf)
    if lib_cb is None or lib_cb.serialize() != cb:
        return "control_block(internal, leaf) is %s, the control block of this leaf is %s" % (
            None if lib_cb is None else lib_cb.serialize().hex(), cb.hex())
    lib_spk = internal.P.p2tr_script(node.hash()).raw_serialize()
    if lib_spk != _c05.ref_raw_script(S(spk)):
        return "p2tr_script(root) is %s, BIP341 gives %s" % (lib_spk.hex(), _c05.ref_raw_script(S(spk)).hex())
    raw = _c05.ref_raw_script(S(own))
    if leaf.tap_script.raw_serialize() != raw:
        return "the leaf script is %s, expected %s" % (leaf.tap_script.raw_serialize().hex(), raw.hex())
    m = len(leaf_keys)
    per_key = [b""] * m
    for j, i in enumerate(signers):
        ht = hs.ht(HT_SCHNORR[(salt + j) % 7])
        per_key[i] = leaf_keys[i].schnorr(hs.digest(ht, [b""] * m), ht)
    handed = per_key[rot % m:] + per_key[:rot % m]
    if rot >= m:
        handed = [x for x in handed if x]
    idx = hs.idx
    try:
        quiet(tx.initialize_p2tr_multisig, idx, lib_cb, leaf.tap_script)
        res = quiet(tx.finalize_p2tr_multisig, idx, handed)
    except Exception as e:
        return f"initialize / finalize raised {type(e).__name__}: {e}"
    want = per_key[::-1] + [raw, cb]
    got = list(tx.tx_ins[idx].witness.items)
    if got != want:
        return "finalize_p2tr_multisig left the witness %s, expected %s" % ([x.hex() for x in got], [x.hex() for x in want])
    enough = len(signers) == (k if m > 1 else 1)
    if bool(res) != enough or (res is not True and res is not False):
        return f"finalize_p2tr_multisig returned {res!r} with {len(signers)} of the {k} required signatures"
    return None


API_SCENARIOS = ["finalize-before-initialize", "initialize-with-a-plain-tapscript", "finalize-after-witness-cut-to-one-item",
                 "finalize-with-a-63-byte-signature", "finalize-with-a-66-byte-signature", "finalize-with-a-foreign-signature",
                 "sign_input-on-a-p2sh-multisig-output", "finalize-after-tap_script-cleared",
                 "finalize-with-a-valid-signature-followed-by-a-63-byte-one"]


def p_p2tr_api(scenario, salt):
    """misuse of the tapscript multisig helpers never yields a spend reported valid: the call raises, or returns
    False; where the precondition of the helper is violated it raises and leaves the witness alone"""
    from buidl.taproot import TapScript
    name = API_SCENARIOS[scenario]
    keys, internal, node, leaf, leaf_keys, own, cb, spk, hs, tx = _lib_multisig(salt, 2, 1, 0, 0)
    idx = hs.idx
    ti = tx.tx_ins[idx]
    lib_cb = node.control_block(internal.P, leaf)
    good = leaf_keys[0].schnorr(hs.digest(0, [b"", b""]), 0)

    def call(f, *a):
        try:
            return ("returned", quiet(f, *a))
        except Exception as e:
            return ("raised", type(e).__name__)
    if name == "finalize-before-initialize":
        out, before = call(tx.finalize_p2tr_multisig, idx, [good]), []
        must_raise = True
    elif name == "initialize-with-a-plain-tapscript":
        out = call(tx.initialize_p2tr_multisig, idx, lib_cb, TapScript(list(leaf.tap_script.commands)))
        if out[0] == "raised":
            out = call(tx.finalize_p2tr_multisig, idx, [good])
        before, must_raise = None, True
    elif name in ("finalize-after-witness-cut-to-one-item", "finalize-after-tap_script-cleared"):
        quiet(tx.initialize_p2tr_multisig, idx, lib_cb, leaf.tap_script)
        if name.endswith("one-item"):
            ti.witness.items.pop()
        else:
            ti.tap_script = None
        before = list(ti.witness.items)
        out, must_raise = call(tx.finalize_p2tr_multisig, idx, [good]), True
    elif name in ("finalize-with-a-63-byte-signature", "finalize-with-a-66-byte-signature",
                  "finalize-with-a-valid-signature-followed-by-a-63-byte-one"):
        quiet(tx.initialize_p2tr_multisig, idx, lib_cb, leaf.tap_script)
        before = None
        bad = good[:63] if "63" in name else good + b"\x01\x00"
        out, must_raise = call(tx.finalize_p2tr_multisig, idx, [good, bad] if "followed" in name else [bad]), True
    elif name == "finalize-with-a-foreign-signature":
        quiet(tx.initialize_p2tr_multisig, idx, lib_cb, leaf.tap_script)
        before = None
        out, must_raise = call(tx.finalize_p2tr_multisig, idx, [keys[5].schnorr(hs.digest(0, [b"", b""]), 0)]), False
        if out == ("returned", False) and ti.witness.items[:2] != [b"", b""]:
            return f"{name}: the foreign signature was placed in the witness"
    else:
        sp_, place = wrap_script("p2sh", [0x51, keys[0].sec(), 0x51, 0xae])
        ti._script_pubkey = _c05.mk_script(S(sp_))
        before = None
        out, must_raise = call(tx.sign_input, idx, PrivateKey(keys[0].d)), True
    if out == ("returned", True) or (out[0] == "returned" and out[1] not in (False, None)):
        return f"{name}: the helper returned {out[1]!r}"
    if must_raise and out[0] != "raised":
        return f"{name}: the helper did not refuse (returned {out[1]!r})"
    if before is not None and list(ti.witness.items) != before:
        return f"{name}: the helper refused but changed the witness"
    if "valid-signature" not in name and verdict(tx, idx):
        return f"{name}: the input verifies afterwards"
    return None


def p_tx_verify(c, expect, label):
    """Tx.verify(): true iff every input verifies (and the fee covers the virtual size)"""
    tx, _ = unpack(c)
    try:
        got = quiet(tx.verify)
    except Exception as e:
        got = f"raised {type(e).__name__}"
        if not expect:
            return None             # an exception is "not reported valid"
    if got is not bool(expect):
        return f"Tx.verify() is {got!r}, expected {bool(expect)}: {label.decode() if isinstance(label, bytes) else label}"
    return None


def gen_api(ctx):
    r = ctx.rng
    quick = ctx.tier == "quick"
    salt = ctx.seed
    # ---- library tapscript multisig, every signer subset
    plans = [(2, 1, 0), (3, 2, 0), (3, 2, 1), (3, 2, 2)] if quick else \
        [(n, k, t) for n in range(1, 5) for k in range(1, n + 1) for t in (0, 1, 2) if not (t and n == 1)]
    c = 0
    for (n, k, tree) in plans:
        m = n if tree == 0 else k
        subsets = list(combinations(range(m), k if tree == 0 else m))
        n_leaves = 1 if tree == 0 else len(list(combinations(range(n), k)))
        for leaf_i in range(n_leaves):
            if quick and tree and leaf_i != (n_leaves - 1 if tree == 1 else 1):
                continue
            for sub in subsets:
                if quick and (n, k, tree) == (3, 2, 0) and sub != (0, 2):
                    continue
                c += 1
                rot = c % (2 * m)
                ctx.label("finalize_api/tree%d/%d-of-%d" % (tree, k, n))
                yield ("prop", "finalize_api", [salt, n, k, tree, leaf_i, list(sub), rot])
    # one signature short: finalize returns False
    ctx.label("finalize_api/too-few")
    yield ("prop", "finalize_api", [salt, 3, 2, 0, 0, [1], 1])
    for s in range(len(API_SCENARIOS)):
        ctx.label("p2tr_api/" + API_SCENARIOS[s])
        yield ("prop", "p2tr_api", [s, salt])
    # ---- library signatures of particular DER classes, uncompressed keys, sign_input
    for j, (sec, what) in enumerate(GROUND_SECRETS):
        if quick and j not in (0, 1, 2 + salt % 2):
            continue
        ctx.label("lib_signed/" + what)
        yield ("prop", "lib_signed", [sec, "p2wpkh", 1, 0])
    base = r.randrange(2 ** 128, 2 ** 250)
    ctx.label("lib_signed/p2pkh-uncompressed")
    yield ("prop", "lib_signed", [base, "p2pkh", 0, 0])
    ctx.label("lib_signed/sign_input")
    yield ("prop", "lib_signed", [base + 1, "p2pkh", 1, 1])
    if not quick:
        yield ("prop", "lib_signed", [base + 2, "p2wpkh", 1, 1])
        yield ("prop", "lib_signed", [base + 3, "p2pkh", 0, 1])
    # ---- Tx.verify over all inputs
    kinds = ["p2wpkh", "p2pkh", "p2tr-key"]
    bsalt = r.getrandbits(40)
    try:
        tx = build_all(_rnd(bsalt), kinds, via_sign_input=True)
        pack(tx, 0)
    except Exception:
        ctx.label("library-signing-raised")
        yield ("prop", "built_all", [kinds, bsalt, 1])
        return
    ctx.label("tx_verify/all-valid")
    yield ("prop", "tx_verify", [pack(tx, 0), 1, "every input signed"])
    for i in range(3):
        t2 = copy.deepcopy(tx)
        ti = t2.tx_ins[i]
        if kinds[i] == "p2pkh":
            ti.script_sig.commands[0] = ti.script_sig.commands[0][:-1] + b"\x02"
        else:
            it = ti.witness.items
            it[0] = it[0][:64] + b"\x02" if kinds[i] == "p2tr-key" else it[0][:-1] + b"\x02"
        ctx.label("tx_verify/one-invalid")
        yield ("prop", "tx_verify", [pack(t2, 0), 0, "input %d of 3 carries a relabelled signature" % i])
    t2 = copy.deepcopy(tx)
    t2.tx_ins[1]._value = sum(o.amount for o in t2.tx_outs) - t2.tx_ins[0]._value - t2.tx_ins[2]._value
    ctx.label("tx_verify/no-fee")
    yield ("prop", "tx_verify", [pack(t2, 0), 0, "every input signed, fee 0"])


def _rnd(salt):
    import random
    return random.Random("c06-build:%d" % salt)


def p_built_spend(kind, m, n, n_in, salt, signers):
    """signing a spend of this type through the library (and listing its mutation catalogue) does not raise, and
    the spend verifies"""
    kind = kind.decode() if isinstance(kind, bytes) else kind
    try:
        sp = build(kind, _rnd(salt), m, n, n_in, signers=list(signers))
        list(mutations(_rnd(salt + 1), sp))
        c0 = pack(sp.tx, sp.idx)
    except Exception as e:
        return f"signing a {kind} {m}-of-{n} spend through the library raised {type(e).__name__}: {e}"
    return p_valid_spend(c0)


def p_built_all(kinds, salt, via):
    """a transaction whose inputs are all signed through the library: signing does not raise, every input verifies"""
    kinds = [k.decode() if isinstance(k, bytes) else k for k in kinds]
    try:
        tx = build_all(_rnd(salt), kinds, via_sign_input=bool(via))
        cs = [pack(tx, i) for i in range(len(kinds))]
    except Exception as e:
        return f"signing the inputs {kinds} through the library raised {type(e).__name__}: {e}"
    for i, c in enumerate(cs):
        d = p_valid_spend(c)
        if d:
            return f"input {i} ({kinds[i]}): {d}"
    return None


PROPS.update({"built_spend": p_built_spend, "built_all": p_built_all, "finalize_api": p_finalize_api, "p2tr_api": p_p2tr_api, "lib_signed": p_lib_signed,
              "tx_verify": p_tx_verify})

# ----------------------------------------------------------------- entry points, defaults, shared objects
# Every case above reaches verify_input through ONE construction path: Tx.parse of a segwit serialisation, with
# _value / _script_pubkey assigned (typed ScriptPubKey objects).  The cases below drive the other ways a caller
# gets there: objects made by the constructors (all arguments / defaults filled in place afterwards), spent outputs
# looked up through TxFetcher.cache (what the library's own callers do), a legacy serialisation, Tx.clone();
# Tx.verify() against verify_input(i) for EVERY i on transactions whose inputs are all of different kinds, hash
# types and sequences; the fee test of Tx.verify() at its boundary; the sign_* / get_sig_* helpers with their
# default arguments, with a key that does not own the output, and again with the right key on the SAME object.

import buidl.tx as _btx


def _no_network(*a, **k):
    raise RuntimeError("the harness never touches the network")


_btx.urlopen = _no_network

M_PLANS = [["p2pkh", "p2sh-p2wpkh", "p2wsh-ms"],           # no taproot input: a legacy input's amount is not signed
           ["p2tr-key", "p2sh-ms", "p2tr-script", "p2wpkh"],
           ["p2pkh", "p2sh-ms", "p2pkh"]]                  # legacy only; inputs 0 and 2 spend the same script
M_STYLES = ["parsed", "constructors-explicit", "constructor-defaults-filled-in-place", "looked-up-through-TxFetcher",
            "legacy-serialisation-parsed", "constructors-segwit-flag-false"]
M_FEES = ["generous", "exactly-the-virtual-size", "one-below-the-virtual-size", "negative"]


def ser_tx_legacy(txv):
    c = _c05
    ver, ins, outs, lt = txv
    out = c._u32(ver) + c._cs(len(ins))
    for pt, pi, sc, sq, _w in ins:
        out += pt[::-1] + c._u32(pi) + c._sscript(c.ref_raw_script(sc)) + c._u32(sq)
    out += c._cs(len(outs))
    for am, sc in outs:
        out += c._i64(am) + c._sscript(c.ref_raw_script(sc))
    return out + c._u32(lt)


def m_part(kind, keys, j):
    """one input of a hand-made transaction: scriptPubKey, placement, placeholder items, signer"""
    K, K2, F = keys[j % len(keys)], keys[(j + 1) % len(keys)], keys[(j + 3) % len(keys)]
    ph = b"\x30" * 71
    wit_only = lambda items: ([], list(items))                                   # noqa: E731
    if kind in ("p2pkh", "p2wpkh", "p2sh-p2wpkh"):
        sec = K.sec(compressed=(kind != "p2pkh" or j % 2 == 0))
        if kind == "p2pkh":
            spk, place = [0x76, 0xa9, _h160(sec), 0x88, 0xac], (lambda items: (_push(items), []))
        elif kind == "p2wpkh":
            spk, place = [0, _h160(sec)], wit_only
        else:
            redeem = b"\x00\x14" + _h160(sec)
            spk, place = [0xa9, _h160(redeem), 0x87], (lambda items: ([redeem], list(items)))
        return dict(spk=spk, place=place, ph=[ph, sec], key=K, foreign=F, ecdsa=True,
                    sign=lambda z, ht, key: [key.ecdsa(z, ht), sec])
    if kind.endswith("-ms"):
        spk, place = wrap_script(kind[:-3], [0x51, K.sec(), K2.sec(compressed=False), 0x52, 0xae])
        return dict(spk=spk, place=place, ph=[b"", ph], key=K, foreign=F, ecdsa=True,
                    sign=lambda z, ht, key: [b"", key.ecdsa(z, ht)])
    if kind == "p2tr-key":
        return dict(spk=[0x51, K.tweaked().xonly()], place=wit_only, ph=[b""], key=K.tweaked(), foreign=F, ecdsa=False,
                    sign=lambda z, ht, key: [key.schnorr(z, ht)])
    if kind == "p2tr-script":
        spk, place, _cb = wrap_tap([K.xonly(), 0xac], K2, [_sha(b"sibling %d" % j)], b"\x50\x07")
        return dict(spk=spk, place=place, ph=[b""], key=K, foreign=F, ecdsa=False,
                    sign=lambda z, ht, key: [key.schnorr(z, ht)])
    raise ValueError(kind)


class MTx:
    """a hand-made transaction in which EVERY input is a signed spend of its own kind (own signer, reference
    digests), each with another hash type and sequence; the outputs spent are outputs of hand-serialised previous
    transactions (inputs 0 and 1 spend outputs 1 and 0 of ONE of them, next to decoy outputs)"""

    def __init__(self, salt, plan, fee_mode=0):
        import random
        r = random.Random("c06-mtx:%d:%d" % (salt, plan))
        rb = lambda n: bytes(r.getrandbits(8) for _ in range(n))       # noqa: E731
        keys = key_pool(salt)
        self.kinds = kinds = M_PLANS[plan]
        self.n = n = len(kinds)
        # the legacy-only plan spends ONE p2pkh script twice (inputs 0 and 2): Tx.verify() must look at both
        self.parts = [m_part(k, keys, (0 if plan == 2 and j == 2 else j) + salt) for j, k in enumerate(kinds)]
        amounts = [r.choice([60000, 2 ** 32 + 5, 10 ** 8]) + j for j in range(n)]
        self.spent = [[amounts[j], S(self.parts[j]["spk"])] for j in range(n)]
        self.hts = [(HT_ECDSA[(salt + j) % 6] if p["ecdsa"] else HT_SCHNORR[(salt + j) % 7])
                    for j, p in enumerate(self.parts)]

        def decoy(j):
            return [amounts[j] + 1 + r.randrange(9), S([0x76, 0xa9, rb(20), 0x88, 0xac])]

        def prev(outs):
            raw = (_c05._u32(1) + b"\x01" + rb(32) + _c05._u32(r.randrange(4)) + b"\x00" + _c05._u32(0xffffffff)
                   + _c05._cs(len(outs)) + b"".join(_c05._i64(a) + _c05._sscript(_c05.ref_raw_script(s)) for a, s in outs)
                   + _c05._u32(0))
            self.prevs[_c05._dsha(raw)[::-1]] = raw
            return _c05._dsha(raw)[::-1]
        self.prevs = {}
        points = [None] * n
        if n >= 2:
            txid = prev([self.spent[1], self.spent[0], decoy(0)])
            points[0], points[1] = (txid, 1), (txid, 0)
        for j in range(2 if n >= 2 else 0, n):
            pi = j % 3
            points[j] = (prev([decoy(j) for _ in range(pi)] + [self.spent[j], decoy(j)]), pi)
        seqs = [0xffffffff, 0xfffffffe, 0, 5]
        self.ins = [[points[j][0], points[j][1], seqs[(j + salt) % 4]] for j in range(n)]
        self.version = 1 + (salt + plan) % 2
        self.lock = [0, 499999999, 1700000000][(salt + plan) % 3]
        total = sum(amounts)
        self.out_sum = out_sum = total + 1000 if fee_mode == 3 else total - 5000
        self.outs = [[out_sum // n + (out_sum % n if j == 0 else 0), S([0x76, 0xa9, rb(20), 0x88, 0xac])] for j in range(n)]

    def value(self, items):
        ins = []
        for j, p in enumerate(self.parts):
            ss, wit = p["place"](items[j])
            ins.append([self.ins[j][0], self.ins[j][1], S(ss), self.ins[j][2], list(wit)])
        return [self.version, ins, self.outs, self.lock]

    def signed(self, bad=-1):
        """the stack items of every input; input `bad` is signed by a key that is not in its script"""
        v = self.value([p["ph"] for p in self.parts])
        items = []
        for j, p in enumerate(self.parts):
            d = _c05.ref_sig_hash(v, self.spent, j, self.hts[j])
            if d is None:
                raise ValueError("the reference defines no digest for this spend")
            items.append(p["sign"](d[2], self.hts[j], p["foreign"] if j == bad else p["key"]))
        return items

    def settle_fee(self, items, fee_mode):
        """fee := BIP141 virtual size (mode 1) or one less (mode 2), by the amount of a LEGACY input (which no
        signature of this transaction commits to: there is no taproot input)"""
        v = self.value(items)
        vsize = (3 * len(ser_tx_legacy(v)) + len(ser_tx(v)) + 3) // 4
        j = [k for k, kind in enumerate(self.kinds) if kind in ("p2pkh", "p2sh-ms")][0]
        if any(k.startswith("p2tr") for k in self.kinds):
            raise ValueError("a taproot input commits to every amount")
        others = sum(a for k, (a, _s) in enumerate(self.spent) if k != j)
        self.spent[j][0] = self.out_sum + vsize - (1 if fee_mode == 2 else 0) - others
        self.prevs = None                       # the previous transactions no longer carry this amount

    def build(self, style, items):
        """the library objects of this transaction, made in one of M_STYLES"""
        v = self.value(items)
        pre = [[a, _c05.ref_raw_script(s)] for a, s in self.spent]
        if style == 0:
            return unpack([ser_tx(v), 0, pre])[0]
        if style == 4:
            if any(i[4] for i in v[1]):
                raise ValueError("a legacy serialisation carries no witness")
            return assign_spent(Tx.parse(BytesIO(ser_tx_legacy(v))), pre)
        ver, ins, outs, lock = v
        if style == 2:
            tins = [TxIn(pt, pi) if sq == 0xffffffff else TxIn(pt, pi, sequence=sq) for (pt, pi, _sc, sq, _w) in ins]
            for ti, (_pt, _pi, sc, _sq, wit) in zip(tins, ins):          # the constructors' own objects, filled in place
                ti.script_sig.commands.extend(sc[0])
                ti.witness.items.extend(wit)
        else:
            tins = []
            for (pt, pi, sc, sq, wit) in ins:
                ti = TxIn(pt, pi, Script(list(sc[0])), sq)
                ti.witness = Witness(list(wit))
                tins.append(ti)
        if style != 3:
            for ti, (a, s) in zip(tins, self.spent):
                ti._value, ti._script_pubkey = a, Script(list(s[0]))
        touts = [TxOut(a, Script(list(s[0]))) for a, s in outs]
        if style == 2 and lock == 0:
            return Tx(ver, tins, touts, network="mainnet", segwit=True)
        return Tx(ver, tins, touts, lock, network="testnet" if style == 3 else "mainnet", segwit=(style != 5))


def p_all_inputs(salt, plan, style, bad, fee_mode):
    """Tx.verify() and verify_input(i) on a transaction in which every input is a spend of another kind: all properly
    signed and the fee at least the BIP141 virtual size -> Tx.verify() is True (and an input verified again on the
    same object, and after a clone of the transaction was emptied, still verifies); input `bad` signed by a foreign
    key -> Tx.verify() is not True, verify_input(bad) is not True, the next input still verifies; a fee below the
    virtual size or negative -> Tx.verify() is not True while the inputs verify"""
    mt = MTx(salt, plan, fee_mode)
    items = mt.signed(bad)
    if fee_mode in (1, 2):
        mt.settle_fee(items, fee_mode)
    what = "%s; fee %s; inputs %s" % (M_STYLES[style], M_FEES[fee_mode], " + ".join(mt.kinds))
    loaded = []
    try:
        if style == 3:
            for txid, raw in mt.prevs.items():               # as TxFetcher.load_cache does
                _btx.TxFetcher.cache[txid.hex()] = Tx.parse_hex(raw.hex())
                loaded.append(txid.hex())
        tx = mt.build(style, items)
        try:
            got = quiet(tx.verify)
        except Exception as e:
            got = "raised %s: %s" % (type(e).__name__, e)
        n = mt.n
        if bad < 0 and fee_mode in (0, 1):
            if got is not True:
                return "Tx.verify() is %r for a transaction whose inputs are all properly signed (%s); verify_input per input: %s" % (
                    got, what, [verdict(tx, i) for i in range(n)])
            i = 2 if plan == 1 else salt % n          # plan 1: the script-path input with an annex
            if not verdict(tx, i):
                return "verify_input(%d) is not True after Tx.verify() was True on the same object (%s)" % (i, what)
            if style in (1, 3):
                c = quiet(tx.clone)
                i = (salt + 1) % n
                c.tx_ins[i].script_sig.commands[:] = []
                c.tx_ins[i].witness.items[:] = []
                if verdict(c, i):
                    return "input %d of a clone verifies with an empty scriptSig and witness (%s)" % (i, what)
                if not verdict(tx, i):
                    return "input %d no longer verifies after the same input of a CLONE was emptied (%s)" % (i, what)
        elif bad >= 0:
            if got is True:
                return "Tx.verify() is True although input %d is signed by a key outside its script (%s)" % (bad, what)
            if verdict(tx, bad):
                return "verify_input(%d) accepts a signature by a key outside the script (%s)" % (bad, what)
            j = (bad + 1) % n
            if not verdict(tx, j):
                return "verify_input(%d) rejects a properly signed input of a transaction whose input %d is invalid (%s)" % (j, bad, what)
        else:
            if got is True:
                return "Tx.verify() is True with a fee %s (%s)" % (M_FEES[fee_mode], what)
            i = salt % n
            if not verdict(tx, i):
                return "verify_input(%d) rejects a properly signed input (%s)" % (i, what)
    finally:
        for k in loaded:
            _btx.TxFetcher.cache.pop(k, None)
    return None


SIGN_SCENARIOS = ["wrong-key-then-right-key/p2pkh", "wrong-key-then-right-key/p2wpkh", "wrong-key-then-right-key/p2sh-p2wpkh",
                  "wrong-key-then-right-key/p2tr", "p2tr-hash-type/sign_input", "p2tr-hash-type/sign_p2tr_keypath-with-aux",
                  "get_sig_legacy/redeem-script-left-to-the-default", "get_sig_segwit/witness-script-left-to-the-default",
                  "get_sig_taproot/ext_flag-left-to-the-default"]


def p_sign_api(scenario, salt, variant):
    """The signing helpers on transactions made with the constructors' defaults (TxIn(prev_tx, prev_index) only).
    What sign_* RETURNS is a verdict too: with a key that does not own the output it is not True (and the input does
    not verify), with the right key on the SAME object afterwards it is True, signing the second input (which shares
    its scriptPubKey object with the first) leaves the first valid.  variant bit 0: through Tx.sign_input.  Taproot
    hash types through sign_input(hash_type=) / sign_p2tr_keypath(hash_type=, aux=).  A get_sig_* call that leaves
    redeem_script / witness_script / ext_flag to the default signs another message: the spend finalised with it must
    not verify, the one made with the argument (same TxIn object) must."""
    import random
    name = SIGN_SCENARIOS[scenario]
    r = random.Random("c06-sign:%d:%d" % (salt, scenario))
    rb = lambda n: bytes(r.getrandbits(8) for _ in range(n))       # noqa: E731
    keys = key_pool(salt)
    A, W = keys[(salt + scenario) % len(keys)], keys[(salt + scenario + 2) % len(keys)]
    via_input = bool(variant & 1)

    def mk(spk_cmds, n_in):
        spk = Script(list(spk_cmds))                      # ONE object for every input
        tins = []
        for k in range(n_in):
            ti = TxIn(rb(32), k)
            ti._value, ti._script_pubkey = 70000 + k, spk
            tins.append(ti)
        return Tx(2, tins, [TxOut(60000, Script([0x76, 0xa9, rb(20), 0x88, 0xac]))], network="mainnet", segwit=True)

    def call(f, *a, **k):
        try:
            return quiet(lambda: f(*a, **k))
        except Exception as e:
            return "raised %s" % type(e).__name__

    if name.startswith("wrong-key"):
        kind = name.split("/")[1]
        compressed = not (kind == "p2pkh" and salt % 2)
        sec = A.sec(compressed=compressed)
        redeem = None
        if kind == "p2tr":
            spk = [0x51, A.tweaked().xonly()]
            right, wrong = PrivateKey(A.tweaked().d), PrivateKey(W.tweaked().d if salt % 2 else A.d)
        else:
            right, wrong = PrivateKey(A.d, compressed=compressed), PrivateKey(W.d)
            if kind == "p2pkh":
                spk = [0x76, 0xa9, _h160(sec), 0x88, 0xac]
            elif kind == "p2wpkh":
                spk = [0, _h160(sec)]
            else:
                redeem = RedeemScript([0, _h160(sec)])
                spk = [0xa9, _h160(b"\x00\x14" + _h160(sec)), 0x87]
                via_input = True
        tx = mk(spk, 2)

        def sign(i, key):
            if via_input:
                return call(tx.sign_input, i, key, redeem) if redeem else call(tx.sign_input, i, key)
            return call({"p2pkh": tx.sign_p2pkh, "p2wpkh": tx.sign_p2wpkh, "p2tr": tx.sign_p2tr_keypath}[kind], i, key)
        how = "sign_input" if via_input else "sign_" + kind.replace("-", "_")
        if redeem is not None:
            got = call(tx.sign_input, 0, right)
            if got is True or verdict(tx, 0):
                return "sign_input on a p2sh output without the redeem script returned %r" % (got,)
        got = sign(0, wrong)
        if got is True:
            return "%s with a key that does not own the %s output returned True" % (how, kind)
        got = sign(0, right)
        if got is not True:
            return "%s with the right key returned %r (after a call with a wrong key on the same object)" % (how, got)
        ti = tx.tx_ins[0]
        placed = (ti.script_sig.commands if kind == "p2pkh" else ti.witness.items)
        if kind != "p2tr" and (len(placed) != 2 or placed[1] != sec or placed[0][-1:] != b"\x01"):
            return "%s left %s, expected [signature ending 01, %s]" % (how, [x.hex() for x in placed], sec.hex())
        if kind == "p2tr" and (len(placed) != 1 or len(placed[0]) != (65 if via_input else 64)):
            return "%s left the witness %s" % (how, [x.hex() for x in placed])
        if kind == "p2sh-p2wpkh" and ti.script_sig.commands != [b"\x00\x14" + _h160(sec)]:
            return "%s left the scriptSig %r" % (how, ti.script_sig.commands)
        if kind == "p2tr":
            return "the unsigned second input verifies" if verdict(tx, 1) else None
        got = sign(1, right)
        if got is not True:
            return "%s on the second input (same scriptPubKey object) returned %r" % (how, got)
        got = sign(1, wrong)
        if got is True:
            return "%s with a wrong key returned True on an input that was validly signed before" % how
        if not verdict(tx, 0):
            return "input 0 no longer verifies after input 1 was signed (right key, then wrong key)"
        return None
    if name.startswith("p2tr-hash-type"):
        T = A.tweaked()
        tx = mk([0x51, T.xonly()], 1)
        key = PrivateKey(T.d)
        if name.endswith("sign_input"):
            ht = (0, 2, 3)[variant % 3]
            got = call(tx.sign_input, 0, key, None, ht)
        else:
            ht = (0x81, 0x82, 0x83)[variant % 3]
            got = call(tx.sign_p2tr_keypath, 0, key, ht, b"\xff" * 32)
        if got is not True:
            return "%s with hash type %#x returned %r" % (name, ht, got)
        w = tx.tx_ins[0].witness.items
        if len(w) != 1 or (w[0][64:] != (bytes([ht]) if ht else b"")):
            return "%s with hash type %#x left the witness %s" % (name, ht, [x.hex() for x in w])
        return None
    # ---- get_sig_* with and without the script argument, finalised on ONE TxIn object
    cmds = [0x51, A.sec(), 0x51, 0xae]
    key = PrivateKey(A.d)
    if name.startswith("get_sig_legacy"):
        spk, _place = wrap_script("p2sh", cmds)
        tx, script = mk(spk, 1), RedeemScript(list(cmds))
        get = [lambda: tx.get_sig_legacy(0, key), lambda: tx.get_sig_legacy(0, key, redeem_script=script)]
        fin = tx.tx_ins[0].finalize_p2sh_multisig
    elif name.startswith("get_sig_segwit"):
        wrapped = bool(variant & 1)
        spk, _place = wrap_script("p2sh-p2wsh" if wrapped else "p2wsh", cmds)
        tx, script = mk(spk, 1), WitnessScript(list(cmds))
        get = [lambda: tx.get_sig_segwit(0, key), lambda: tx.get_sig_segwit(0, key, witness_script=script)]
        fin = tx.tx_ins[0].finalize_p2sh_p2wsh_multisig if wrapped else tx.tx_ins[0].finalize_p2wsh_multisig
    else:
        leaf = [A.xonly(), 0xac]
        spk, place, _cb = wrap_tap(leaf, W)
        tx, script = mk(spk, 1), None
        tx.tx_ins[0].witness = Witness(place([b""])[1])

        def fin(sigs, _script):
            tx.tx_ins[0].witness = Witness(place(sigs)[1])
        get = [lambda: tx.get_sig_taproot(0, key), lambda: tx.get_sig_taproot(0, key, ext_flag=1)]
    first = call(get[0])
    if isinstance(first, bytes):
        fin([first], script)
        if verdict(tx, 0):
            return "%s: the spend finalised with that signature verifies" % name
    good = call(get[1])
    if not isinstance(good, bytes):
        return "%s: the call WITH the argument returned %r" % (name, good)
    fin([good], script)
    if not verdict(tx, 0):
        return "%s: the spend finalised with the signature made WITH the argument does not verify" % name
    return p_valid_spend(pack(tx, 0))


PROPS.update({"all_inputs": p_all_inputs, "sign_api": p_sign_api})


def gen_entry(ctx):
    """p_all_inputs / p_sign_api plans; byte classes of witness version, leaf version, annex and key-path items"""
    r = ctx.rng
    quick = ctx.tier == "quick"
    salt = ctx.seed
    # ---- every input another kind: construction paths x all valid / each input invalid / fee boundary
    valid = [(0, 2, 1), (0, 3, 0), (1, 1, 0), (1, 3, 0), (2, 4, 0), (2, 5, 0)]
    if not quick:
        valid += [(0, 1, 1)] + [(p, s, 0) for p in (0, 1) for s in (0, 1, 2, 3)] + [(2, s, 0) for s in (0, 1, 2, 3)]
    for plan, style, fee in valid:
        ctx.label("all_inputs/valid/" + M_STYLES[style])
        ctx.label("all_inputs/fee/" + M_FEES[fee])
        yield ("prop", "all_inputs", [salt, plan, style, -1, fee])
    for plan in (0, 1, 2):
        for bad in range(len(M_PLANS[plan])):
            styles = [1, 2, 3, 0] if plan < 2 else [4, 5, 3, 2]
            for style in ([styles[(bad + salt) % 4]] if quick else styles):
                ctx.label("all_inputs/one-invalid/" + M_STYLES[style])
                yield ("prop", "all_inputs", [salt, plan, style, bad, 0])
    for plan, style, fee in [(0, 1, 2), (0, 3, 3), (2, 4, 3), (1, 2, 3), (0, 0, 2)]:
        ctx.label("all_inputs/fee/" + M_FEES[fee])
        yield ("prop", "all_inputs", [salt, plan, style, -1, fee])
    # ---- signing helpers: wrong key / retry / defaults
    for s, name in enumerate(SIGN_SCENARIOS):
        variants = [(salt + s) % 3 if name.startswith("p2tr-hash") else (salt + s) % 2] if quick else \
            ([0, 1, 2] if name.startswith("p2tr-hash") else [0, 1])
        for v in variants:
            ctx.label("sign_api/" + name)
            yield ("prop", "sign_api", [s, salt, v])
    # ---- byte classes
    keys = key_pool(salt)
    emit = _Emit(ctx)
    rb = lambda n: bytes(r.getrandbits(8) for _ in range(n))       # noqa: E731
    wit_only = lambda items: ([], list(items))                     # noqa: E731
    # witness versions and program lengths other than the three the library knows: the model decides
    progs = [(0x52, 32), (0x60, 32), (0x51, 20), (0x51, 33), (0x51, 31), (0, 21), (0, 33), (0, 19), (0x4f, 32), (0x50, 32)]
    for c, (op, ln) in enumerate(progs):
        if quick and c % 2 != salt % 2 and c > 3:
            continue
        sp = HSpend(r, [op, rb(ln)], wit_only, SHAPES[c % 6])
        yield from emit(sp, [], None, "scriptPubKey <op %#x> <%d bytes> with an empty witness" % (op, ln))
        yield from emit(sp, [b"\x01"], None, "scriptPubKey <op %#x> <%d bytes> with a witness item" % (op, ln))
    # output keys of a particular byte class: nobody holds a key for them
    K = keys[0]
    s_forged = K.k if K.ry % 2 == 0 else N_ORD - K.k                 # R = sG: a "signature" for the point at infinity
    forged = _b32(K.rx) + _b32(s_forged)
    for name, x in (("32 zero bytes", bytes(32)), ("32 bytes ff", b"\xff" * 32), ("x = p", _b32(P_FLD))):
        sp = HSpend(r, [0x51, x], wit_only, SHAPES[1])
        yield from emit(sp, [forged], False, "key path, output key of %s, signature with R = sG" % name, corr=True)
        yield from emit(sp, [bytes(64)], False, "key path, output key of %s, signature of 64 zero bytes" % name)
    spk, place, _cb = wrap_tap([bytes(32), 0xac], keys[3])
    yield from emit(HSpend(r, spk, place, SHAPES[2]), [forged], False, "tapscript <32 zero bytes> OP_CHECKSIG, signature with R = sG", corr=True)
    # a key-path signature whose FIRST byte is 0x50 (alone it is no annex; below a real annex it is the signature)
    T = keys[1].tweaked()
    sp = HSpend(r, [0x51, T.xonly()], wit_only, SHAPES[3])
    T50 = T.renonce(lambda c: c.rx >> 248 == 0x50, limit=3000)
    if T50 is not None:
        s50 = T50.schnorr(sp.digest(0, [b""]), 0)
        yield from emit(sp, [s50], True, "key path, signature starting with the byte 50", corr=True)
        yield from emit(sp, [s50, b""], False, "key path signature starting with 50 above an empty item")
        yield from emit(sp, [b"", s50], False, "an empty item and a valid key-path signature starting with 50 as the last item")
    else:
        ctx.label("classes/no-nonce-found")
    # hash-type byte classes of a taproot signature: an explicit 00, undefined values (the message is the
    # BIP341 message with that byte, which is what an implementation without the check would hash)
    d0 = _c05.ref_sig_hash(sp.value([b""]), sp.spent, sp.idx, 0)
    yield from emit(sp, [T.schnorr(d0[2], 0) + b"\x00"], False, "key path, default signature with an explicit 00 hash type byte", corr=True)
    for ht in (0x04, 0x40) if quick else (0x04, 0x40, 0x7c, 0x08):
        msg = d0[1][0][:1] + bytes([ht]) + d0[1][0][2:]
        yield from emit(sp, [T.schnorr(_tag("TapSighash", msg), ht)], False, "key path, undefined hash type %#x signed over the message carrying it" % ht)
    # ECDSA hash types outside the six standard ones are masked, not rejected (the model decides)
    for c, (kind, ht) in enumerate((("p2pkh", 0x00), ("p2wpkh", 0x41), ("p2pkh", 0xff), ("p2wpkh", 0x04))):
        if quick and c % 2 != salt % 2:
            continue
        sec = keys[c].sec()
        if kind == "p2pkh":
            spn = HSpend(r, [0x76, 0xa9, _h160(sec), 0x88, 0xac], (lambda items: (_push(items), [])), (2, 2, 1))
        else:
            spn = HSpend(r, [0, _h160(sec)], wit_only, (2, 2, 1))
        yield from emit(spn, [keys[c].ecdsa(spn.digest(ht, [b"\x30" * 71, sec]), ht), sec], None, "%s, ECDSA hash type %#x" % (kind, ht))
    # a v1 program behind p2sh is no taproot output
    spk, place = wrap_script("p2sh", [0x51, T.xonly()])
    spn = HSpend(r, spk, place, SHAPES[4])
    yield from emit(spn, [], None, "p2sh redeem script OP_1 <32 bytes>, no witness")
    # leaf versions: the commitment is made with that version (the digest commits to it through the leaf hash)
    Kl = keys[2]
    for c, ver in enumerate((0xc2, 0xfe, 0x00, 0x50)):
        if quick and ver in (0xfe, 0x00) and (c + salt) % 2:
            continue
        spk, place, cb = wrap_tap([Kl.xonly(), 0xac], keys[4], [], None, ver)
        sp = HSpend(r, spk, place, SHAPES[c % 6])
        try:
            sg = Kl.schnorr(sp.digest(0, [b""]), 0)
        except ValueError:
            sg = Kl.schnorr(_sha(b"no digest"), 0)
        yield from emit(sp, [sg], None, "leaf version %#x committed to, signed" % ver)
        yield from emit(sp, [b""], False if ver != 0x50 else None, "leaf version %#x committed to, empty signature" % ver, corr=True)
        yield from emit(sp, [], None, "leaf version %#x committed to, no stack item" % ver)
    # annex classes: the shortest annex, an annex that looks like a control block / like a signature
    spk, place, cb = wrap_tap([Kl.xonly(), 0xac], keys[4])
    for c, annex in enumerate((b"\x50", b"\x50" + cb[1:], b"\x50" + bytes(63), b"\x50" * 65)):
        a = HSpend(r, spk, (lambda items, annex=annex: ([], list(items) + [_c05.ref_raw_script(S([Kl.xonly(), 0xac])), cb, annex])),
                   SHAPES[(c + 1) % 6])
        if quick and c % 2 != salt % 2:
            yield from emit(a, [b""], False, "script path with an annex of %d bytes, empty signature" % len(annex))
            continue
        yield from emit(a, [Kl.schnorr(a.digest(1, [b""]), 1)], True, "script path with an annex of %d bytes (%s...)" % (
            len(annex), annex[:2].hex()), corr=c == 0)
        b = HSpend.__new__(HSpend)
        b.__dict__.update(a.__dict__)
        b.place = (lambda items, annex=annex: ([], list(items) + [_c05.ref_raw_script(S([Kl.xonly(), 0xac])), cb, annex + b"\x01"]))
        yield from emit(a, [Kl.schnorr(b.digest(1, [b""]), 1)], False, "script path with an annex, signed for a longer annex")


def gen_new(ctx):
    for g in (gen_subsets, gen_stack_bounds, gen_bad_keys, gen_taptrees, gen_der, gen_shapes, gen_api, gen_entry):
        yield from g(ctx)


KINDS_SINGLE = ["p2pkh", "p2wpkh", "p2sh-p2wpkh", "p2tr-key"]
KINDS_MULTI = ["p2sh", "p2wsh", "p2sh-p2wsh", "p2tr-script"]


def generate(ctx):
    r = ctx.rng
    # abstract matching loop: exhaustive over small verdict matrices
    for n in range(0, 4):
        for m in range(0, 4):
            total = n * m
            pats = range(2 ** total) if total <= 9 else [r.getrandbits(total) for _ in range(ctx.n(40, 400))]
            for pat in pats:
                rows = [[(pat >> (k * m + j)) & 1 for j in range(m)] for k in range(n)]
                rows += [[0] * m]
                keys = [bytes([k]) for k in range(n)]
                sigs = [bytes([j]) for j in range(m)]
                args = [keys, sigs, [rw if rw else [0] for rw in rows]]
                yield ("corr", "match_sigs", args)
                yield ("prop", "multisig_matching", args)
    # hand-assembled spends with mixed hash types (signing side = independent reference digests)
    from props import c05 as _c05
    combos = [[1, 0x82], [0x83, 1], [3, 2], [0, 0x81], [2, 0x83], [0x81, 3]]
    for kind_i, kname in enumerate(_c05.VD_KINDS):
        for j in range(ctx.n(1, 6)):
            n_in, n_out, idx = [(2, 1, 1), (3, 2, 2), (1, 1, 0), (2, 3, 0)][(j + kind_i) % 4]
            ctx.label("handmade_spend/" + kname)
            yield ("prop", "handmade_spend", [kind_i, n_in, n_out, idx, combos[(j + kind_i) % len(combos)],
                                              1000 + 17 * kind_i + j, 1 if ctx.tier == "quick" else 0])
    # hand-assembled spends (independent builder): enumerated signer subsets, stack depths at the signature op codes,
    # malformed keys, trees of leaves, DER classes, script sizes; then the library's own tapscript / signing helpers
    yield from gen_new(ctx)
    # spends
    plan = []
    for kind in KINDS_SINGLE:
        for n_in in (1, 2, 3)[: ctx.n(1, 3)]:
            plan.append((kind, 1, 1, n_in))
    quorums = [(1, 1), (1, 2), (2, 2), (2, 3)] if ctx.tier == "quick" else \
        [(m, n) for n in range(1, 6) for m in range(1, n + 1)]
    for kind in KINDS_MULTI:
        for (m, n) in quorums:
            plan.append((kind, m, n, r.randrange(1, 4)))
    # one transaction object with every input signed: the inputs verified in several orders on ONE object, then
    # an output edited in place and restored
    for mode in (0, 1):
        kinds3 = ["p2wpkh", "p2tr-key", "p2pkh"] if mode == 0 else ["p2sh-p2wpkh", "p2pkh", "p2wpkh"]
        salt = r.getrandbits(40)
        try:
            tx = build_all(_rnd(salt), kinds3)
            cs = [pack(tx, i) for i in range(3)]
        except Exception:
            ctx.label("library-signing-raised")
            yield ("prop", "built_all", [kinds3, salt, 0])
            continue
        t2 = copy.deepcopy(tx)
        t2.tx_outs[1].amount -= 1
        ctx.label("reuse/all-inputs-one-object")
        yield ("prop", "reuse", [[cs[0], cs[1], cs[2], cs[1], pack(t2, 0), cs[0], pack(t2, 2), cs[2]], mode])
        if ctx.tier == "quick":
            break
    # quick tier: the reuse sequences for every single-key type and one quorum per script type
    reuse_sel = {("p2sh", 1, 2), ("p2wsh", 2, 2), ("p2sh-p2wsh", 1, 2), ("p2tr-script", 2, 2)}
    n_reuse = 0
    valids = []
    for (kind, m, n, n_in) in plan:
        salt = r.getrandbits(40)
        try:
            sp = build(kind, _rnd(salt), m, n, n_in)
            catalogue = list(mutations(_rnd(salt + 1), sp))
            c0 = pack(sp.tx, sp.idx)
            ma0 = model_args(c0)
        except Exception:       # a defect of the signing helpers must not stop case generation: replayable case
            ctx.label("library-signing-raised")
            yield ("prop", "built_spend", [kind, m, n, n_in, salt, []])
            continue
        ctx.label("spend/" + kind)
        yield ("prop", "valid_spend", [c0])
        yield ("corr", "verify_input", ma0)
        by_label = {}
        for label, tx, unauth in catalogue:
            try:
                cm = pack(tx, sp.idx)
                ma = model_args(cm)
            except Exception:
                ctx.label("mutation-not-serialisable")
                continue
            ctx.label("mutation/" + label.split(" (")[0][:40])
            yield ("corr", "verify_input", ma)
            if unauth:
                yield ("prop", "unauthorised", [cm, label])
                by_label[label] = cm
        # ---- the same states on ONE object: mutated -> valid -> mutated -> valid, edited in place
        single = kind in KINDS_SINGLE
        if ctx.tier != "quick" or single or (kind, m, n) in reuse_sel:
            second = ("bit flipped inside a signature" if single else
                      "leaf script swapped for the attacker's" if kind == "p2tr-script" else
                      "script swapped for the attacker's 1-of-1")
            seq = [by_label.get("changed output amount"), c0, by_label.get(second), c0]
            if ctx.tier != "quick":
                seq += [by_label.get("changed sequence"), by_label.get("flipped sighash byte"), c0]
            seq = [c for c in seq if c is not None]
            for mode in ((n_reuse % 2,) if ctx.tier == "quick" else (0, 1)):
                ctx.label("reuse/%s/%s" % (kind, "lists-edited-in-place" if mode else "fields-assigned"))
                yield ("prop", "reuse", [seq, mode | (2 if single else 0)])
            n_reuse += 1
        valids.append(((kind, m, n), c0))
    # ---- thorough tier: the library's own builders with every signer subset (n <= 4)
    if ctx.tier != "quick":
        for kind in KINDS_MULTI:
            for n in (2, 3, 4):
                for m in range(1, n + 1):
                    for sub in combinations(range(n), m):
                        salt = r.getrandbits(40)
                        ctx.label("spend-enumerated/" + kind)
                        yield ("prop", "built_spend", [kind, m, n, 1 + salt % 3, salt, list(sub)])
    # ---- ONE object turned into different valid spends one after the other (other keys, scripts, witnesses,
    # numbers of inputs), and back to the first
    if ctx.tier == "quick":
        want = [("p2wpkh", 1, 1), ("p2tr-script", 1, 1), ("p2tr-key", 1, 1), ("p2tr-script", 1, 2), ("p2wsh", 1, 1)]
        chains = [([c for k, c in valids if k in want], 1)]
    else:
        chains = [([c for _, c in valids[i:i + 6]], mode) for i in range(0, len(valids), 5) for mode in (0, 1)]
    for chain, mode in chains:
        if len(chain) >= 2:
            ctx.label("reuse/chain-of-different-spends")
            yield ("prop", "reuse", [chain + [chain[0]], mode])
