"""C06 — input verification accepts properly signed spends and nothing unauthorised."""
import contextlib
import copy
import io
from io import BytesIO
from itertools import combinations

from buidl.ecc import PrivateKey, Signature
from buidl.script import (P2PKHScriptPubKey, P2SHScriptPubKey, P2TRScriptPubKey, P2WPKHScriptPubKey,
                          P2WSHScriptPubKey, RedeemScript, Script, WitnessScript)
from buidl.taproot import MultiSigTapScript, TapRootMultiSig
from buidl.tx import Tx, TxIn, TxOut
from buidl.witness import Witness
from vp.sexp import ERR

PID = "C06"
BUDGET_S = {"quick": 900, "thorough": 3000}
RULE = ("Every standard output type the library signs (P2PKH, P2SH m-of-n, P2WPKH, P2SH-P2WPKH, P2WSH and "
        "P2SH-P2WSH m-of-n, P2TR key path, P2TR script path k-of-n) × key sets × 1..3 inputs; for each valid spend "
        "the whole mutation catalogue of the property (drop/replace/duplicate/reorder signatures, foreign keys, "
        "flipped sighash byte, changed amount/output/sequence/locktime/outpoint, swapped scripts, truncated and "
        "annex-only witnesses, signature-free scriptSigs with opcodes or pushes around the redeem script, non-empty "
        "scriptSigs on witness outputs, witness programs pushed inside a scriptSig). Each case is verified by the "
        "implementation and by the extracted model (model-level ECDSA/BIP340 on secp256k1).")
TRUSTED = ["the digests tx.sig_hash(i, hash_type) are taken from the implementation and handed to the model as a "
           "table (their correctness is property C05)",
           "hashlib for hash160/sha256/tagged hashes"]
ASSUMPTIONS = ["secp256k1 group laws are not used by C06's theorems (they are about the interpreter structure and the "
               "multisig matching loop, for every signature oracle)"]

HTS = (0, 1, 2, 3, 0x81, 0x82, 0x83)


def quiet(f, *a):
    with contextlib.redirect_stdout(io.StringIO()):
        return f(*a)


# ----------------------------------------------------------------- context <-> objects

def pack(tx, idx):
    """canonical context: [segwit serialisation, index, [[amount, raw scriptPubKey] per input]]"""
    t = copy.copy(tx)
    t.segwit = True
    pre = [[ti._value, ti._script_pubkey.raw_serialize()] for ti in tx.tx_ins]
    return [t.serialize_segwit(), idx, pre]


def unpack(ctx):
    raw, idx, pre = ctx
    tx = Tx.parse(BytesIO(raw))
    from buidl.script import ScriptPubKey
    from buidl.helper import encode_varstr
    for ti, (amount, spk) in zip(tx.tx_ins, pre):
        ti._value = amount
        ti._script_pubkey = ScriptPubKey.parse(BytesIO(encode_varstr(spk)))
    return tx, idx


def model_args(ctx):
    """arguments of the model's verify_input derived from the (re-parsed) transaction"""
    tx, idx = unpack(ctx)
    ti = tx.tx_ins[idx]
    ss = list(ti.script_sig.commands)
    pk = list(ti._script_pubkey.commands)
    wit = list(ti.witness.items)
    hts = set(HTS)
    for el in [c for c in ss if isinstance(c, bytes)] + wit:
        if el:
            hts.add(el[-1])
    table = []
    for ht in sorted(hts):
        try:
            z = quiet(tx.sig_hash, idx, ht)
        except Exception:
            continue
        table.append([ht, z])
    return [ss, pk, wit, [int(tx.locktime), int(ti.sequence), tx.version], table, ctx]


def i_verify_input(ss, pk, wit, c, table, ctx):
    tx, idx = unpack(ctx)
    try:
        return 1 if quiet(tx.verify_input, idx) else 0
    except Exception:
        return 0            # an exception is "not accepted"


def i_match_sigs(keys, sigs, rows):
    """reference greedy matching as in op_checkmultisig, on an abstract verdict matrix"""
    pts = list(keys)
    for sg in sigs:
        if len(pts) == 0:
            return 0
        while pts:
            k = pts.pop(0)
            if rows[k[0]][sg[0]]:
                break
        else:
            return 0
    return 1


# too slow inside Coq (256-bit curve arithmetic): not part of the extraction self-check
VM_SKIP = {"verify_input"}

IMPL = {"verify_input": i_verify_input, "match_sigs": i_match_sigs}


# ----------------------------------------------------------------- property predicates

def p_valid_spend(ctx):
    tx, idx = unpack(ctx)
    try:
        ok = quiet(tx.verify_input, idx)
    except Exception as e:
        return f"properly signed spend raised {type(e).__name__}"
    return None if ok else "properly signed spend reported invalid"


def p_unauthorised(ctx, label):
    tx, idx = unpack(ctx)
    try:
        ok = quiet(tx.verify_input, idx)
    except Exception:
        return None
    if ok:
        return f"unauthorised spend accepted: {label.decode()}"
    return None


def p_multisig_matching(keys, sigs, rows):
    """the greedy loop accepts iff an order-preserving injection sigs -> keys with all pairs verifying exists"""
    n, m = len(keys), len(sigs)
    exists = any(all(rows[keys[ci][0]][sigs[j][0]] for j, ci in enumerate(comb))
                 for comb in combinations(range(n), m)) if m <= n else False
    got = bool(i_match_sigs(keys, sigs, rows))
    if got != exists:
        return f"matching loop says {got}, an ordered assignment {'exists' if exists else 'does not exist'}"
    return None


# ----------------------------------------------------------------- one object, many calls
# The statement is "for every spend the verdict is X": a Tx / TxIn / Script / Witness object that is verified,
# edited in place and verified again must answer like a freshly parsed object in the same state.  The fields
# below are the declared (constructor) fields; anything else an object carries (memoised digests, parsed
# scripts, verdicts …) is left alone by the in-place editor, so a memo that is not invalidated goes stale here.

_FIELDS = {
    "Tx": ("version", "tx_ins", "tx_outs", "locktime", "network", "segwit"),
    "TxIn": ("prev_tx", "prev_index", "script_sig", "sequence", "witness", "_value", "_script_pubkey"),
    "TxOut": ("amount", "script_pubkey"),
    "Script": ("commands", "raw"),
    "Witness": ("items",),
}


def _fields(o):
    for cls in type(o).__mro__:
        if cls.__name__ in _FIELDS:
            return _FIELDS[cls.__name__]
    return None


def graft(dst, src, depth):
    """Give every declared field of dst the value it has in src, editing dst IN PLACE down to `depth` levels of
    objects (below that, src's sub-objects are assigned); lists are always edited by slice assignment.
    Returns the object to store in the parent (dst when it could be kept)."""
    if isinstance(dst, list) and isinstance(src, list):
        dst[:] = [graft(dst[i], y, depth) if i < len(dst) else y for i, y in enumerate(src)]
        return dst
    f = _fields(dst)
    if f is None or type(dst) is not type(src) or depth <= 0:
        return src
    for name in f:
        setattr(dst, name, graft(getattr(dst, name, None), getattr(src, name, None), depth - 1))
    return dst


def verdict(tx, idx):
    try:
        return 1 if quiet(tx.verify_input, idx) else 0
    except Exception:
        return 0            # an exception is "not accepted"


def p_reuse(ctxs, mode):
    """ONE Tx object taken through the states ctxs[0], ctxs[1], … by in-place edits (mode bit 0 clear: the fields
    of the Tx / TxIn / TxOut objects are assigned; set: the command and item lists inside the existing Script and
    Witness objects are rewritten), verify_input(idx) after every step: each verdict must be the verdict of a
    freshly parsed transaction in that state.  Mode bit 1: at the last state, if accepted, ONE combined Script
    object is evaluated twice."""
    from vp import sexp
    fresh = {}

    def want(c):
        k = sexp.enc(c)
        if k not in fresh:
            fresh[k] = verdict(*unpack(c))
        return fresh[k]

    T, _ = unpack(ctxs[0])
    depth = 9 if mode & 1 else 2
    for step, c in enumerate(ctxs):
        F, idx = unpack(c)
        if step:
            graft(T, F, depth)
        try:
            same = sexp.canon(pack(T, idx)) == sexp.canon(c)
        except Exception as e:  # noqa
            return f"step {step}: the edited transaction object does not serialise ({type(e).__name__})"
        if not same:
            return f"step {step}: the edited transaction object serialises differently from a fresh one in the same state"
        got, exp = verdict(T, idx), want(c)
        if got != exp:
            return (f"step {step}: verify_input({idx}) on the reused object says {bool(got)}, on a fresh object in "
                    f"the same state {bool(exp)}")
        if exp and (mode & 2) and step == len(ctxs) - 1:
            ti = T.tx_ins[idx]
            comb = ti.script_sig + ti.script_pubkey()
            before = list(comb.commands)
            res = []
            for _ in range(2):
                try:
                    res.append(1 if quiet(comb.evaluate, T, idx) else 0)
                except Exception:
                    res.append(0)
            if res != [1, 1] or comb.commands != before:
                return (f"step {step}: one combined Script object evaluated twice gives {res} "
                        f"(commands {'changed' if comb.commands != before else 'unchanged'})")
    return None


def p_handmade_spend(kind_i, n_in, n_out, idx, hts, salt, nalt=0):
    """spends assembled by hand (not through the signing API) whose signatures carry DIFFERENT hash types and are made
    over an independent reference digest: the properly signed spend verifies, a signature whose hash-type label
    was changed does not (shared with C05: harness/props/c05.py p_verifier_digest)"""
    from props import c05 as _c05
    return _c05.p_verifier_digest(kind_i, n_in, n_out, idx, hts, salt, nalt)


PROPS = {"valid_spend": p_valid_spend, "unauthorised": p_unauthorised, "multisig_matching": p_multisig_matching,
         "reuse": p_reuse, "handmade_spend": p_handmade_spend}


# ----------------------------------------------------------------- building spends

def new_tx(r, spks, amounts, n_out=1, locktime=0, version=2):
    tx_ins = []
    for k, (spk, am) in enumerate(zip(spks, amounts)):
        ti = TxIn(bytes(r.getrandbits(8) for _ in range(32)), r.randrange(0, 4))
        ti._value = am
        ti._script_pubkey = spk
        tx_ins.append(ti)
    outs = [TxOut(r.randrange(1000, 50000), P2PKHScriptPubKey(bytes(r.getrandbits(8) for _ in range(20))))
            for _ in range(n_out)]
    return Tx(version, tx_ins, outs, locktime, network="mainnet", segwit=True)


def rpriv(r):
    return PrivateKey(r.randrange(1, 2 ** 256 - 2 ** 33))


class Spend:
    def __init__(self, kind, tx, idx, **meta):
        self.kind, self.tx, self.idx, self.meta = kind, tx, idx, meta


def multisig_cmds(m, privs):
    secs = [p.point.sec() for p in privs]
    return [0x50 + m] + secs + [0x50 + len(secs), 174]


def build(kind, r, m=1, n=1, n_in=1):
    """returns a Spend whose input idx is validly signed through the library API"""
    idx = r.randrange(n_in)
    privs = [rpriv(r) for _ in range(n)]
    other = [P2PKHScriptPubKey(bytes(r.getrandbits(8) for _ in range(20))) for _ in range(n_in)]
    amounts = [r.randrange(60000, 10 ** 8) for _ in range(n_in)]
    signers = sorted(r.sample(range(n), m))
    if kind == "p2pkh":
        spk = privs[0].point.p2pkh_script()
    elif kind == "p2wpkh":
        spk = privs[0].point.p2wpkh_script()
    elif kind == "p2sh-p2wpkh":
        redeem = privs[0].point.p2sh_p2wpkh_redeem_script()
        spk = redeem.script_pubkey()
    elif kind == "p2sh":
        redeem = RedeemScript(multisig_cmds(m, privs))
        spk = redeem.script_pubkey()
    elif kind == "p2wsh":
        ws = WitnessScript(multisig_cmds(m, privs))
        spk = ws.script_pubkey()
    elif kind == "p2sh-p2wsh":
        ws = WitnessScript(multisig_cmds(m, privs))
        spk = ws.script_pubkey().redeem_script().script_pubkey()
    elif kind == "p2tr-key":
        spk = privs[0].point.p2tr_script()
    elif kind == "p2tr-script":
        if n > 1:
            trm = TapRootMultiSig([p.point for p in privs], m)
            leaf = trm.single_leaf()
            internal = trm.default_internal_pubkey
        else:
            leaf = MultiSigTapScript([privs[0].point], 1).tap_leaf()
            internal = rpriv(r).point
        spk = internal.p2tr_script(leaf.hash())
    else:
        raise ValueError(kind)
    spks = list(other)
    spks[idx] = spk
    tx = new_tx(r, spks, amounts, n_out=r.randrange(1, 3))
    ti = tx.tx_ins[idx]
    meta = dict(privs=privs, signers=signers, m=m, n=n)
    if kind == "p2pkh":
        quiet(tx.sign_p2pkh, idx, privs[0])
    elif kind == "p2wpkh":
        quiet(tx.sign_p2wpkh, idx, privs[0])
    elif kind == "p2sh-p2wpkh":
        quiet(tx.sign_p2sh_p2wpkh, idx, privs[0])
    elif kind == "p2sh":
        sigs = [tx.get_sig_legacy(idx, privs[k], redeem_script=redeem) for k in signers]
        ti.finalize_p2sh_multisig(sigs, redeem)
        meta.update(script=redeem)
    elif kind == "p2wsh":
        sigs = [tx.get_sig_segwit(idx, privs[k], witness_script=ws) for k in signers]
        ti.finalize_p2wsh_multisig(sigs, ws)
        meta.update(script=ws)
    elif kind == "p2sh-p2wsh":
        sigs = [tx.get_sig_segwit(idx, privs[k], witness_script=ws) for k in signers]
        ti.finalize_p2sh_p2wsh_multisig(sigs, ws)
        meta.update(script=ws)
    elif kind == "p2tr-key":
        # the key path is signed with the TWEAKED private key (BIP341)
        quiet(tx.sign_p2tr_keypath, idx, privs[0].tweaked_key())
    elif kind == "p2tr-script":
        ti.witness.items = []
        tx.initialize_p2tr_multisig(idx, leaf.control_block(internal, leaf), leaf.tap_script)
        sigs = []
        for k, p in enumerate(privs):
            sigs.append(tx.get_sig_taproot(idx, p, ext_flag=1) if k in signers else b"")
        quiet(tx.finalize_p2tr_multisig, idx, sigs)
        meta.update(leaf=leaf, internal=internal)
    return Spend(kind, tx, idx, **meta)


def build_all(r, kinds):
    """a transaction whose inputs (one per entry of kinds, single-key types) are ALL validly signed"""
    privs = [rpriv(r) for _ in kinds]
    spks = []
    for kind, p in zip(kinds, privs):
        spks.append({"p2pkh": p.point.p2pkh_script, "p2wpkh": p.point.p2wpkh_script,
                     "p2sh-p2wpkh": lambda p=p: p.point.p2sh_p2wpkh_redeem_script().script_pubkey(),
                     "p2tr-key": p.point.p2tr_script}[kind]())
    tx = new_tx(r, spks, [r.randrange(60000, 10 ** 8) for _ in kinds], n_out=2)
    for i, (kind, p) in enumerate(zip(kinds, privs)):
        if kind == "p2pkh":
            quiet(tx.sign_p2pkh, i, p)
        elif kind == "p2wpkh":
            quiet(tx.sign_p2wpkh, i, p)
        elif kind == "p2sh-p2wpkh":
            quiet(tx.sign_p2sh_p2wpkh, i, p)
        else:
            quiet(tx.sign_p2tr_keypath, i, p.tweaked_key())
    return tx


def clone(sp):
    tx = copy.deepcopy(sp.tx)
    return tx, tx.tx_ins[sp.idx]


def foreign_sig(r, tx, idx, kind, sp):
    """a well-formed signature by a key that is not in the script"""
    p = rpriv(r)
    if kind in ("p2pkh", "p2sh"):
        rs = sp.meta.get("script")
        return tx.get_sig_legacy(idx, p, redeem_script=rs)
    if kind in ("p2wsh", "p2sh-p2wsh"):
        return tx.get_sig_segwit(idx, p, witness_script=sp.meta["script"])
    if kind == "p2wpkh":
        return tx.get_sig_segwit(idx, p)
    if kind == "p2sh-p2wpkh":
        return tx.get_sig_segwit(idx, p, redeem_script=sp.meta["privs"][0].point.p2sh_p2wpkh_redeem_script())
    if kind == "p2tr-key":
        return tx.get_sig_taproot(idx, p)
    return tx.get_sig_taproot(idx, p, ext_flag=1)


def mutations(r, sp):
    """yields (label, tx, unauthorised?) — unauthorised=True means the property forbids acceptance"""
    kind, idx = sp.kind, sp.idx
    segwit_like = kind not in ("p2pkh", "p2sh")
    # --- changes to the signed transaction (all committed under SIGHASH_ALL / DEFAULT)
    tx, ti = clone(sp)
    tx.tx_outs[0].amount += 1
    yield "changed output amount", tx, True
    tx, ti = clone(sp)
    tx.locktime = type(tx.locktime)((int(tx.locktime) + 1) % 2 ** 32)
    yield "changed locktime", tx, True
    tx, ti = clone(sp)
    ti.sequence = type(ti.sequence)((int(ti.sequence) - 1) % 2 ** 32)
    yield "changed sequence", tx, True
    tx, ti = clone(sp)
    ti.prev_index += 1
    yield "changed outpoint", tx, True
    tx, ti = clone(sp)
    tx.version += 1
    yield "changed version", tx, True
    if segwit_like:
        tx, ti = clone(sp)
        ti._value += 1
        yield "changed spent amount", tx, True
    # --- signature level
    tx, ti = clone(sp)
    if kind in ("p2pkh", "p2sh"):
        cmds = ti.script_sig.commands
        sig_pos = [k for k, c in enumerate(cmds) if isinstance(c, bytes) and len(c) > 60 and c[0] == 0x30]
        holder, setter = cmds, None
    else:
        cmds = ti.witness.items
        if kind.startswith("p2tr"):
            sig_pos = [k for k, c in enumerate(cmds) if len(c) in (64, 65)][: sp.meta["n"] if kind == "p2tr-script" else 1]
        else:
            sig_pos = [k for k, c in enumerate(cmds) if len(c) > 60 and c[:1] == b"\x30"]
    if sig_pos:
        k0 = sig_pos[0]
        # flipped sighash byte / appended sighash byte
        t2, i2 = clone(sp)
        c2 = i2.script_sig.commands if kind in ("p2pkh", "p2sh") else i2.witness.items
        if kind.startswith("p2tr"):
            c2[k0] = c2[k0][:64] + b"\x03"
        else:
            c2[k0] = c2[k0][:-1] + b"\x03"
        yield "flipped sighash byte", t2, True
        # foreign-key signature in place of the first one
        t2, i2 = clone(sp)
        c2 = i2.script_sig.commands if kind in ("p2pkh", "p2sh") else i2.witness.items
        c2[k0] = foreign_sig(r, t2, idx, kind, sp)
        yield "first signature replaced by a foreign-key signature", t2, True
        # corrupted signature bytes
        t2, i2 = clone(sp)
        c2 = i2.script_sig.commands if kind in ("p2pkh", "p2sh") else i2.witness.items
        b = bytearray(c2[k0])
        b[len(b) // 2] ^= 1 << r.randrange(8)
        c2[k0] = bytes(b)
        yield "bit flipped inside a signature", t2, True
        # empty signature
        t2, i2 = clone(sp)
        c2 = i2.script_sig.commands if kind in ("p2pkh", "p2sh") else i2.witness.items
        c2[k0] = b""
        yield "first signature emptied", t2, True
        if kind in ("p2sh", "p2wsh", "p2sh-p2wsh"):
            # drop one signature (m-1 of m)
            t2, i2 = clone(sp)
            c2 = i2.script_sig.commands if kind == "p2sh" else i2.witness.items
            del c2[k0]
            yield "one signature dropped", t2, True
            if len(sig_pos) >= 2:
                # duplicate a signature in place of another: fewer distinct keys than m
                t2, i2 = clone(sp)
                c2 = i2.script_sig.commands if kind == "p2sh" else i2.witness.items
                c2[sig_pos[1]] = c2[sig_pos[0]]
                yield "signature duplicated (fewer distinct keys than m)", t2, True
                # reordered signatures: still m valid signatures by distinct keys -> correspondence only
                t2, i2 = clone(sp)
                c2 = i2.script_sig.commands if kind == "p2sh" else i2.witness.items
                c2[sig_pos[0]], c2[sig_pos[1]] = c2[sig_pos[1]], c2[sig_pos[0]]
                yield "signatures reordered", t2, False
    # --- script level
    if kind in ("p2sh", "p2wsh", "p2sh-p2wsh"):
        other = multisig_cmds(1, [rpriv(r)])
        t2, i2 = clone(sp)
        if kind == "p2sh":
            i2.script_sig.commands[-1] = RedeemScript(other).raw_serialize()
        else:
            i2.witness.items[-1] = WitnessScript(other).raw_serialize()
        yield "script swapped for the attacker's 1-of-1", t2, True
        # no signatures at all, only the script
        t2, i2 = clone(sp)
        if kind == "p2sh":
            i2.script_sig = Script([i2.script_sig.commands[-1]])
        else:
            i2.witness = Witness([i2.witness.items[-1]])
        yield "signature-free spend (script only)", t2, True
    if kind == "p2sh":
        raw = ti.script_sig.commands[-1]
        for label, cmds in (("<redeem> OP_NOP", [raw, 0x61]), ("OP_1 <redeem> OP_NOP", [0x51, raw, 0x61]),
                            ("<redeem> OP_1", [raw, 0x51]), ("OP_1 <redeem> OP_DROP OP_1", [0x51, raw, 0x75, 0x51]),
                            ("<01> <redeem> OP_NOP OP_NOP", [b"\x01", raw, 0x61, 0x61])):
            t2, i2 = clone(sp)
            i2.script_sig = Script(list(cmds))
            yield "signature-free scriptSig " + label, t2, True
        # witness program pushed inside the scriptSig, attacker's own key and signature in the witness
        att = rpriv(r)
        t2, i2 = clone(sp)
        i2.script_sig = Script([0, att.point.hash160(), raw])
        try:
            z = quiet(t2.sig_hash, idx, 1)
            i2.witness = Witness([att.sign(z).der() + b"\x01", att.point.sec()])
            yield "witness program pushed inside a p2sh scriptSig (attacker key in witness)", t2, True
        except Exception:
            pass
    if kind == "p2pkh":
        att = rpriv(r)
        fake = Signature(1, 1).der() + b"\x01"
        t2, i2 = clone(sp)
        i2.script_sig = Script([0, att.point.hash160(), fake, sp.meta["privs"][0].point.sec()])
        z = quiet(t2.sig_hash, idx, 1)
        i2.witness = Witness([att.sign(z).der() + b"\x01", att.point.sec()])
        yield "witness program pushed inside a p2pkh scriptSig (attacker key in witness)", t2, True
        t2, i2 = clone(sp)
        i2.script_sig = Script([i2.script_sig.commands[0], att.point.sec()])
        yield "wrong public key", t2, True
        t2, i2 = clone(sp)
        i2.script_sig = Script([0x51])
        yield "scriptSig OP_1", t2, True
        t2, i2 = clone(sp)
        i2.script_sig = Script([fake, sp.meta["privs"][0].point.sec()])
        yield "well-formed signature (1,1) by nobody", t2, True
    if kind in ("p2wpkh", "p2wsh", "p2tr-key", "p2tr-script"):
        for label, cmds in (("OP_1", [0x51]), ("OP_0", [0]), ("<01>", [b"\x01"]), ("OP_1 OP_1", [0x51, 0x51])):
            t2, i2 = clone(sp)
            i2.script_sig = Script(list(cmds))
            i2.witness = Witness([])
            yield f"witness output spent with scriptSig {label} and no witness", t2, True
        t2, i2 = clone(sp)
        i2.script_sig = Script([0x51])
        yield "non-empty scriptSig on a witness output (valid witness kept)", t2, True
        t2, i2 = clone(sp)
        i2.witness = Witness([])
        yield "empty witness", t2, True
    if kind in ("p2sh-p2wpkh", "p2sh-p2wsh"):
        raw = ti.script_sig.commands[-1]
        t2, i2 = clone(sp)
        i2.script_sig = Script([b"\x01", raw])
        i2.witness = Witness([])
        yield "p2sh-wrapped witness program with an extra push and no witness", t2, True
        t2, i2 = clone(sp)
        i2.script_sig = Script([0x51, raw])
        yield "p2sh-wrapped witness program with an extra OP_1 (valid witness kept)", t2, True
        t2, i2 = clone(sp)
        i2.witness = Witness([])
        yield "p2sh-wrapped witness program, empty witness", t2, True
    if kind == "p2wpkh" or kind == "p2sh-p2wpkh":
        att = rpriv(r)
        t2, i2 = clone(sp)
        i2.witness = Witness([i2.witness.items[0], att.point.sec()])
        yield "wrong public key in witness", t2, True
    if kind.startswith("p2tr"):
        t2, i2 = clone(sp)
        i2.witness = Witness([b"\x50" + bytes(r.getrandbits(8) for _ in range(5))])
        yield "annex-only witness", t2, True
        t2, i2 = clone(sp)
        i2.witness = Witness([b"\x50\x01", b"\x50\x02"])
        yield "two annex-like items", t2, True
        t2, i2 = clone(sp)
        i2.witness = Witness(list(i2.witness.items) + [b"\x50\xaa\xbb"])
        yield "annex appended after signing", t2, True      # BIP341 commits to the annex
    if kind == "p2tr-script":
        t2, i2 = clone(sp)
        it = i2.witness.items
        b = bytearray(it[-1])
        b[r.randrange(len(b))] ^= 1 << r.randrange(8)
        it[-1] = bytes(b)
        yield "bit flipped in the control block", t2, True
        t2, i2 = clone(sp)
        it = i2.witness.items
        it[-2] = MultiSigTapScript([rpriv(r).point], 1).raw_serialize()
        yield "leaf script swapped for the attacker's", t2, True
        t2, i2 = clone(sp)
        i2.witness = Witness(i2.witness.items[-2:])
        yield "script path without any signature item", t2, True
        t2, i2 = clone(sp)
        i2.witness = Witness(i2.witness.items[1:])
        yield "truncated witness", t2, None       # depends on which item was dropped: correspondence only


KINDS_SINGLE = ["p2pkh", "p2wpkh", "p2sh-p2wpkh", "p2tr-key"]
KINDS_MULTI = ["p2sh", "p2wsh", "p2sh-p2wsh", "p2tr-script"]


def generate(ctx):
    r = ctx.rng
    # abstract matching loop: exhaustive over small verdict matrices
    for n in range(0, 4):
        for m in range(0, 4):
            total = n * m
            pats = range(2 ** total) if total <= 9 else [r.getrandbits(total) for _ in range(ctx.n(40, 400))]
            for pat in pats:
                rows = [[(pat >> (k * m + j)) & 1 for j in range(m)] for k in range(n)]
                rows += [[0] * m]
                keys = [bytes([k]) for k in range(n)]
                sigs = [bytes([j]) for j in range(m)]
                args = [keys, sigs, [rw if rw else [0] for rw in rows]]
                yield ("corr", "match_sigs", args)
                yield ("prop", "multisig_matching", args)
    # hand-assembled spends with mixed hash types (signing side = independent reference digests)
    from props import c05 as _c05
    combos = [[1, 0x82], [0x83, 1], [3, 2], [0, 0x81], [2, 0x83], [0x81, 3]]
    for kind_i, kname in enumerate(_c05.VD_KINDS):
        for j in range(ctx.n(1, 6)):
            n_in, n_out, idx = [(2, 1, 1), (3, 2, 2), (1, 1, 0), (2, 3, 0)][(j + kind_i) % 4]
            ctx.label("handmade_spend/" + kname)
            yield ("prop", "handmade_spend", [kind_i, n_in, n_out, idx, combos[(j + kind_i) % len(combos)],
                                              1000 + 17 * kind_i + j, 1 if ctx.tier == "quick" else 0])
    # spends
    plan = []
    for kind in KINDS_SINGLE:
        for n_in in (1, 2, 3)[: ctx.n(1, 3)]:
            plan.append((kind, 1, 1, n_in))
    quorums = [(1, 1), (1, 2), (2, 2), (2, 3)] if ctx.tier == "quick" else \
        [(m, n) for n in range(1, 6) for m in range(1, n + 1)]
    for kind in KINDS_MULTI:
        for (m, n) in quorums:
            plan.append((kind, m, n, r.randrange(1, 4)))
    # one transaction object with every input signed: the inputs verified in several orders on ONE object, then
    # an output edited in place and restored
    for mode in (0, 1):
        tx = build_all(r, ["p2wpkh", "p2tr-key", "p2pkh"] if mode == 0 else ["p2sh-p2wpkh", "p2pkh", "p2wpkh"])
        cs = [pack(tx, i) for i in range(3)]
        t2 = copy.deepcopy(tx)
        t2.tx_outs[1].amount -= 1
        ctx.label("reuse/all-inputs-one-object")
        yield ("prop", "reuse", [[cs[0], cs[1], cs[2], cs[1], pack(t2, 0), cs[0], pack(t2, 2), cs[2]], mode])
        if ctx.tier == "quick":
            break
    # quick tier: the reuse sequences for every single-key type and one quorum per script type
    reuse_sel = {("p2sh", 1, 2), ("p2wsh", 2, 2), ("p2sh-p2wsh", 1, 2), ("p2tr-script", 2, 2)}
    n_reuse = 0
    valids = []
    for (kind, m, n, n_in) in plan:
        sp = build(kind, r, m, n, n_in)
        ctx.label("spend/" + kind)
        c0 = pack(sp.tx, sp.idx)
        yield ("prop", "valid_spend", [c0])
        yield ("corr", "verify_input", model_args(c0))
        by_label = {}
        for label, tx, unauth in mutations(r, sp):
            try:
                cm = pack(tx, sp.idx)
                ma = model_args(cm)
            except Exception:
                ctx.label("mutation-not-serialisable")
                continue
            ctx.label("mutation/" + label.split(" (")[0][:40])
            yield ("corr", "verify_input", ma)
            if unauth:
                yield ("prop", "unauthorised", [cm, label])
                by_label[label] = cm
        # ---- the same states on ONE object: mutated -> valid -> mutated -> valid, edited in place
        single = kind in KINDS_SINGLE
        if ctx.tier != "quick" or single or (kind, m, n) in reuse_sel:
            second = ("bit flipped inside a signature" if single else
                      "leaf script swapped for the attacker's" if kind == "p2tr-script" else
                      "script swapped for the attacker's 1-of-1")
            seq = [by_label.get("changed output amount"), c0, by_label.get(second), c0]
            if ctx.tier != "quick":
                seq += [by_label.get("changed sequence"), by_label.get("flipped sighash byte"), c0]
            seq = [c for c in seq if c is not None]
            for mode in ((n_reuse % 2,) if ctx.tier == "quick" else (0, 1)):
                ctx.label("reuse/%s/%s" % (kind, "lists-edited-in-place" if mode else "fields-assigned"))
                yield ("prop", "reuse", [seq, mode | (2 if single else 0)])
            n_reuse += 1
        valids.append(((kind, m, n), c0))
    # ---- ONE object turned into different valid spends one after the other (other keys, scripts, witnesses,
    # numbers of inputs), and back to the first
    if ctx.tier == "quick":
        want = [("p2wpkh", 1, 1), ("p2tr-script", 1, 1), ("p2tr-key", 1, 1), ("p2tr-script", 1, 2), ("p2wsh", 1, 1)]
        chains = [([c for k, c in valids if k in want], 1)]
    else:
        chains = [([c for _, c in valids[i:i + 6]], mode) for i in range(0, len(valids), 5) for mode in (0, 1)]
    for chain, mode in chains:
        if len(chain) >= 2:
            ctx.label("reuse/chain-of-different-spends")
            yield ("prop", "reuse", [chain + [chain[0]], mode])
