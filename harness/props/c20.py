"""C20 — BCUR / bc32 / CBOR air-gap transport."""
import hashlib
import itertools
import re
from binascii import a2b_base64, b2a_base64

from buidl import bech32, bcur
from vp.sexp import ERR

PID = "C20"
B32 = "qpzry9x8gf2tvdw0s3jn54khce6mua7l"
RULE = ("CBOR: every length 0..300 plus 65534..65537 and 70000, truncations and lying length prefixes; convertbits: "
        "8->5 / 5->8 and other widths, out-of-range values; bc32: payload lengths 0..70, every single substitution at "
        "every position of sampled strings; BCUR multi: payload sizes 0..70000 bytes (all CBOR prefix classes), chunk "
        "sizes 1..2000, all permutations and all omissions of the parts for up to 5 parts, wrong y, mixed checksums, "
        "parts of another payload, every single-character substitution of sampled part strings. String layer: int()/str() on "
        "hand-made and random ASCII texts incl. the 4300-digit limit, hand-made and mutated header strings (case, all ASCII "
        "white space incl. 0x1c-0x1f, extra/missing '/', 'of' variants, signs, underscores), every position of small "
        "messages substituted (ASCII: model vs code; non-ASCII: code only). Added by the mutation triage: bech32_polymod called "
        "directly on 5-bit symbols and on wider / negative integers; a complete, correctly check-summed message under every "
        "x-of-y header with x, y in -2..3 (plus 1of10, 10of10, 0of1, 1of99, -7of1, 2of1) through BCURSingle.parse and "
        "BCURMulti.parse; encode() WITHOUT a chunk size on payload sizes solved so that the text length lies in (299k, 300k] or "
        "(300k, 301k]; the exception class of _parse_bcur_helper (BCURStringFormatError) on non-integer x / y on either side and "
        "on non-str input incl. a str subclass; non-canonical CBOR wrappers (wider prefix, trailing bytes, short read) with a "
        "right digest and bc32 checksum; constructors handed encoded= / checksum= of the same and of other data; __repr__. "
        "Character classes of the bech32 alphabet (9 digits, 23 letters), CONSTRUCTED by grinding the checksum with an own "
        "polymod because random payloads never give them: bc32 texts that are digits only (no cased character), letters only, "
        "one letter among digits (data part / checksum part), one digit among letters, two letters among digits — each in lower "
        "case, upper case and, from two letters on, mixed case (single odd letter first / middle / last, data and checksum part "
        "in different case: must be refused), for every symbol count mod 8 with zero and non-zero padding; BCUR messages whose "
        "whole payload text is digits only (payloads of 17, 19, 20, 22 bytes: CBOR header 0x50..0x57 is the digit '2'), digits "
        "after the header, one letter, letters only, in five case patterns (lower, UR:BYTES/… upper, scheme upper only, rest "
        "upper only, alternating) through BCURSingle.parse, BCURMulti.parse, _parse_bcur_helper, bcur_decode; header fields "
        "(58-character checksum, payload) of every class through the charset check. Expectations: the module's own bc32 decoder. "
        "Generators build every string with the reference codecs of the module, not with the library. Entry-point audit: "
        "LENIENT decoders - a character outside the alphabet (1 b i o - _ space . NUL 0xff) at a data / checksum position read as "
        "an integer u (-1 as str.find gives, 0, 31, 32.., 255, ord(c), -2, 2^30) with the six neighbouring symbols SOLVED over "
        "GF(2) so that the polymod is right under that reading (bc32decode direct; BCUR strings whose lenient reading is the CBOR "
        "wrapping of other data with the matching digest field, through bcur_decode, BCURSingle.parse, BCURMulti.parse), "
        "look-alike substitutions (0->o, l->1/i, 6->b, q->anything) in payload text and digest field; wrong digest fields that "
        "are damaged, prefix-equal, shorter / longer, of the bare payload; uses_only_bech32_chars called directly incl. newline "
        "and its siblings at either end (fixed 82bf818); parts cut at ARBITRARY places (unequal, one character, empty) with a "
        "case pattern and white space PER PART; the tampered part being the first / second / last; every callable with its "
        "default arguments, positionally and by keyword (bcur_decode(text), constructors, encode()), returned lists edited and "
        "the object asked again, argument lists compared after the call, refused call then the good one; CBOR wrappers as a "
        "matrix prefix width x declared length x bytes present (declared 0 with bytes present) against an own decoder.")
TRUSTED = ["hashlib (sha256) — a universally quantified function in the theorems",
           "binascii base64 wrapping of BCURSingle/BCURMulti (payloads are byte strings in the model)",
           "type checks (`type(x) is not str`, list/tuple) are evaluated on the implementation only (predicates str_types, str_types_strict)",
           "math.ceil(len / chunk) is a float division in the code and an integer ceiling in the model "
           "(equal for lengths below 2^53)"]
ASSUMPTIONS = ["text given to the model is ASCII (str.lower/upper/strip/int() are modelled for code points below 128; non-ASCII "
               "substitutions are evaluated on the implementation only, predicate part_sub_unicode)",
               "int() refuses more than 4300 digits (CPython >= 3.11 default sys.get_int_max_str_digits())",
               "payload length < 2^32 (cbor_encode raises OverflowError above; theorem C20_cbor_encode_range)"]


def T(b):
    return b.decode("latin-1")


def b64(data):
    return b2a_base64(data).strip().decode()


def fmt(p):
    form, x, y, chk, payload = p
    chk, payload = T(chk), T(payload)
    if form == 2:
        return f"ur:bytes/{payload}"
    if form == 3:
        return f"ur:bytes/{chk}/{payload}"
    if form == 4:
        return f"ur:bytes/{x}of{y}/{chk}/{payload}"
    raise ValueError("no such form")


RE4 = re.compile(r"^ur:bytes/(\d+)of(\d+)/([^/]*)/([^/]*)$")
RE3 = re.compile(r"^ur:bytes/([^/]*)/([^/]*)$")
RE2 = re.compile(r"^ur:bytes/([^/]*)$")


def unfmt(s):
    m = RE4.match(s)
    if m:
        return [4, int(m.group(1)), int(m.group(2)), m.group(3), m.group(4)]
    m = RE3.match(s)
    if m:
        return [3, 1, 1, m.group(1), m.group(2)]
    m = RE2.match(s)
    return [2, 1, 1, "", m.group(1)]


def opt(v):
    return [] if v is None else v


def i_convertbits(l, fb, tb, pad):
    r = bech32.convertbits(l, fb, tb, bool(pad))
    return [] if r is None else [r]


def i_bcur_decode(d, c):
    return opt(bcur.bcur_decode(T(d), T(c[0]) if c else None))


def i_multi_encode(data, m, animate):
    return [unfmt(s) for s in bcur.BCURMulti(text_b64=b64(data)).encode(max_size_per_chunk=m, animate=bool(animate))]


def i_multi_parse(parts):
    return a2b_base64(bcur.BCURMulti.parse([fmt(p) for p in parts]).text_b64)


def i_parse_helper(text):
    payload, checksum, x, y = bcur._parse_bcur_helper(text)
    return [payload, [] if checksum is None else [checksum], x, y]


IMPL = {
    "cbor_encode": lambda b: bech32.cbor_encode(b),
    "cbor_decode": lambda b: opt(bech32.cbor_decode(b)),
    "convertbits": i_convertbits,
    "polymod": lambda v: bech32.bech32_polymod(v),
    "bc32encode": lambda b: bech32.bc32encode(b),
    "bc32decode": lambda s: opt(bech32.bc32decode(T(s))),
    "bcur_encode": lambda b: list(bcur.bcur_encode(b)),
    "bcur_decode": i_bcur_decode,
    "single_encode": lambda b, uc: unfmt(bcur.BCURSingle(text_b64=b64(b)).encode(use_checksum=bool(uc))),
    "single_parse": lambda p: a2b_base64(bcur.BCURSingle.parse(fmt(p)).text_b64),
    "multi_encode": i_multi_encode,
    "multi_parse": i_multi_parse,
    # ---- the string layer (Model/BcurStr.v): real strings in, real strings out
    "py_int": lambda t: int(T(t)),
    "str_int": lambda n: str(n),
    "parse_helper_str": lambda t: i_parse_helper(T(t)),
    "single_encode_str": lambda b, uc: bcur.BCURSingle(text_b64=b64(b)).encode(use_checksum=bool(uc)),
    "multi_encode_str": lambda b, m, an: bcur.BCURMulti(text_b64=b64(b)).encode(max_size_per_chunk=m, animate=bool(an)),
    "single_parse_str": lambda t: a2b_base64(bcur.BCURSingle.parse(T(t)).text_b64),
    "multi_parse_str": lambda ts: a2b_base64(bcur.BCURMulti.parse([T(t) for t in ts]).text_b64),
}

# ---------------------------------------------------------------- references


def ref_cbor(d):
    n = len(d)
    if n <= 23:
        return bytes([0x40 + n]) + d
    if n <= 255:
        return bytes([0x58, n]) + d
    if n <= 65535:
        return b"\x59" + n.to_bytes(2, "big") + d
    return b"\x60" + n.to_bytes(4, "big") + d


def ref_conv(data, frm, to, pad):
    acc = bits = 0
    out = []
    for v in data:
        acc = (acc << frm) | v
        bits += frm
        while bits >= to:
            bits -= to
            out.append((acc >> bits) & ((1 << to) - 1))
    if pad and bits:
        out.append((acc << (to - bits)) & ((1 << to) - 1))
    return out


def ref_polymod(values):
    gen = [0x3b6a57b2, 0x26508e6d, 0x1ea119fa, 0x3d4233dd, 0x2a1462b3]
    chk = 1
    for v in values:
        top = chk >> 25
        chk = ((chk & 0x1ffffff) << 5) ^ v
        for i in range(5):
            if (top >> i) & 1:
                chk ^= gen[i]
    return chk


def ref_bc32(d):
    dd = ref_conv(d, 8, 5, True)
    pm = ref_polymod([0] + dd + [0] * 6) ^ 0x3fffffff
    return "".join(B32[x] for x in dd + [(pm >> 5 * (5 - i)) & 31 for i in range(6)])


# ---------------------------------------------------------------- property predicates


def _try(f, *a):
    try:
        return f(*a), True
    except Exception:
        return None, False


def p_cbor_rt(d):
    e = bech32.cbor_encode(d)
    if e != ref_cbor(d):
        return "cbor_encode prefix differs from the length-prefix table"
    if bech32.cbor_decode(e) != d:
        return f"cbor_decode does not invert cbor_encode at length {len(d)}"
    return None


def p_convertbits_rt(d):
    five = bech32.convertbits(d, 8, 5)
    if five != ref_conv(d, 8, 5, True) or any(not 0 <= v < 32 for v in five):
        return "convertbits 8->5 differs from the reference regrouping"
    back = bech32.convertbits(five, 5, 8, False)
    if back is None or bytes(back) != d:
        return "convertbits 5->8 (no pad) does not invert 8->5 (pad)"
    return None


def p_bc32_rt(d):
    s = bech32.bc32encode(d)
    if s != ref_bc32(d):
        return "bc32encode differs from the reference"
    if bech32.bc32decode(s) != d or bech32.bc32decode(s.upper()) != d:
        return "bc32decode does not invert bc32encode"
    return None


SUBST = B32 + "QPZRY" + "1bio" + " /-\xff"


def p_bc32_sub(d, pos):
    """every single-character substitution at one position is rejected (None or exception)"""
    s = bech32.bc32encode(d)
    p = pos % len(s)
    for c in SUBST:
        if c == s[p]:
            continue
        bad = s[:p] + c + s[p + 1:]
        r, ok = _try(bech32.bc32decode, bad)
        if ok and r is not None and not (bad.lower() == s and r == d):
            return f"bc32 string with character {p} replaced by {c!r} decodes to {r!r}"
    return None


def _parts(payload, chunk):
    return bcur.BCURMulti(text_b64=b64(payload)).encode(max_size_per_chunk=chunk)


def _parse(strings):
    return a2b_base64(bcur.BCURMulti.parse(strings).text_b64)


def p_multi_rt(payload, chunk):
    parts = _parts(payload, chunk)
    enc = ref_bc32(ref_cbor(payload))
    chk = ref_bc32(hashlib.sha256(ref_cbor(payload)).digest())
    y = len(parts)
    if y != -(-len(enc) // chunk):
        return f"{y} parts for {len(enc)} characters and chunk size {chunk}"
    pieces = []
    for i, s in enumerate(parts):
        f = unfmt(s)
        if f[0] != 4 or f[1] != i + 1 or f[2] != y or f[3] != chk:
            return f"part {i + 1} has header {f[:4]!r}"
        if not f[4]:
            return f"part {i + 1} of {y} is empty (chunk size {chunk}, {len(enc)} characters)"
        if len(f[4]) > chunk:
            return f"part {i + 1} is longer than the chunk size"
        pieces.append(f[4])
    if "".join(pieces) != enc:
        return "the pieces do not concatenate to the bc32 encoding of the CBOR wrapping"
    if _parse(parts) != payload:
        return "BCURMulti.parse does not invert encode"
    if _parse([s.upper() for s in parts]) != payload:
        return "upper-case parts do not parse to the payload"
    one = bcur.BCURMulti(text_b64=b64(payload)).encode(animate=False)
    if len(one) != 1 or _parse(one) != payload:
        return "animate=False does not round-trip"
    single = bcur.BCURSingle(text_b64=b64(payload))
    for uc in (True, False):
        if a2b_base64(bcur.BCURSingle.parse(single.encode(use_checksum=uc)).text_b64) != payload:
            return "BCURSingle does not round-trip"
    return None


def p_multi_select(payload, chunk, sel):
    """reassembly from parts[i] for i in sel: accepted only for the identity selection, and then exact"""
    parts = _parts(payload, chunk)
    y = len(parts)
    sel = [i % y for i in sel]
    r, ok = _try(_parse, [parts[i] for i in sel])
    if sel == list(range(y)):
        return None if ok and r == payload else "complete ordered set of parts rejected"
    if ok:
        return f"parts {[i + 1 for i in sel]} of {y} accepted" + (" and give DIFFERENT data" if r != payload else "")
    return None


def p_multi_tamper(payload, other, chunk, idx, kind, val):
    """kind 0: part idx taken from another payload (same chunking); 1: same but with the checksum field rewritten
    to the original one; 2: y of part idx replaced by val; 3: x of part idx replaced by val;
    4: checksum field of part idx replaced by the checksum of the other payload"""
    parts = _parts(payload, chunk)
    oparts = _parts(other, chunk)
    y = len(parts)
    i = idx % y
    f = unfmt(parts[i])
    g = unfmt(oparts[i % len(oparts)])
    if kind == 0:
        if y == 1:
            return None        # replacing the only part is simply the other message
        f = [4, f[1], f[2], g[3], g[4]]
    elif kind == 1:
        f = [4, f[1], f[2], f[3], g[4]]
    elif kind == 2:
        f[2] = val
    elif kind == 3:
        f[1] = val
    else:
        f[3] = g[3]
    new = f"ur:bytes/{f[1]}of{f[2]}/{f[3]}/{f[4]}"
    if new == parts[i]:
        return None
    bad = parts[:i] + [new] + parts[i + 1:]
    r, ok = _try(_parse, bad)
    if ok and r != payload:
        return f"tampered part {i + 1} (kind {kind}) accepted and gives different data"
    if ok and not (kind == 2 and y == 1):
        return f"tampered part {i + 1} (kind {kind}) accepted"
    return None


PART_SUBST = B32 + "QU" + "0123459" + "/ :-"


def p_part_sub(payload, chunk, idx, pos):
    """every single-character substitution at one position of one part string: rejected, or the same payload"""
    parts = _parts(payload, chunk)
    i = idx % len(parts)
    s = parts[i]
    p = pos % len(s)
    for c in PART_SUBST:
        if c == s[p]:
            continue
        bad = parts[:i] + [s[:p] + c + s[p + 1:]] + parts[i + 1:]
        r, ok = _try(_parse, bad)
        if ok and r != payload:
            return f"part {i + 1} with character {p} replaced by {c!r} is accepted and gives different data"
    return None


UNI_SUBST = "\u212a\u0130\u017f\xa0\x85\u2003\u0661\u0662\uff11\u00df\u01c5\ufeff\u200b"


def p_part_sub_unicode(payload, chunk, idx, pos):
    """non-ASCII substitutions (KELVIN SIGN lower()s to 'k', Unicode spaces are strip()ped, int() reads Unicode
    digits): rejected, or the same payload"""
    parts = _parts(payload, chunk)
    i = idx % len(parts)
    s = parts[i]
    p = pos % len(s)
    for c in UNI_SUBST:
        bad = parts[:i] + [s[:p] + c + s[p + 1:]] + parts[i + 1:]
        r, ok = _try(_parse, bad)
        if ok and r != payload:
            return f"part {i + 1} with character {p} replaced by {c!r} is accepted and gives different data"
    return None


def p_str_types(payload, chunk):
    """anything that is not a str (not a list/tuple of str) is refused"""
    parts = _parts(payload, chunk)
    for bad in (parts[0].encode(), None, 5, [parts[0]], bytearray(parts[0].encode())):
        for f in (bcur._parse_bcur_helper, bcur.BCURSingle.parse):
            if _try(f, bad)[1]:
                return f"{f.__name__} accepts a {type(bad).__name__}"
    for bad in (parts[0], None, {0: parts[0]}, iter(parts), [p.encode() for p in parts], [parts]):
        if _try(bcur.BCURMulti.parse, bad)[1]:
            return f"BCURMulti.parse accepts {type(bad).__name__}"
    if _try(_parse, tuple(parts)) != (payload, True):
        return "a tuple of the parts is not parsed to the payload"
    return None


# ---------------------------------------------------------------- histories: the same objects / functions used repeatedly
# One BCURMulti and one BCURSingle object per payload stay alive for a whole session and are asked to encode with
# different chunk sizes / flags in arbitrary order; BCURMulti.parse / BCURSingle.parse and the module-level codecs
# are called on the parts of several nearly equal payloads one after the other. Every answer is compared with the
# part strings built here from the reference bc32/CBOR codecs, so anything remembered from an earlier call
# (chunks of the first encode, the checksum or y of the previous parse, a cache keyed by length or prefix) shows.


def ref_chk(payload):
    return ref_bc32(hashlib.sha256(ref_cbor(payload)).digest())


def ref_parts_y(payload, y):
    enc = ref_bc32(ref_cbor(payload))
    cl = -(-len(enc) // y)
    chk = ref_chk(payload)
    return [f"ur:bytes/{i + 1}of{y}/{chk}/{enc[i * cl:(i + 1) * cl]}" for i in range(y)]


def ref_parts(payload, chunk, animate=True):
    enc = ref_bc32(ref_cbor(payload))
    return ref_parts_y(payload, -(-len(enc) // chunk) if animate else 1)


def ref_fields(payload, chunk):
    """the parts of the reference chunking as field lists [4, x, y, checksum, text] (generators use this, not the library)"""
    return [unfmt(t) for t in ref_parts(payload, chunk)]


def _tryE(f, *a, **kw):
    try:
        return f(*a, **kw)
    except Exception:
        return ERR


def _flip(s, pos, k):
    """one bc32 character of the last field replaced by another one"""
    start = s.rindex("/") + 1
    if start >= len(s):
        return s + "q"
    p = start + pos % (len(s) - start)
    others = [c for c in B32 if c != s[p].lower()]
    return s[:p] + others[k % len(others)] + s[p + 1:]


def _bcur_step(op, pool, st):
    k = op[0]
    if k == b"menc":                          # the long-lived BCURMulti object of payload i
        _, i, chunk, animate = op
        obj = st.setdefault(("m", i), bcur.BCURMulti(text_b64=b64(pool[i])))
        return _tryE(obj.encode, max_size_per_chunk=chunk, animate=bool(animate)), ref_parts(pool[i], chunk, animate)
    if k == b"mdef":                          # default arguments
        obj = st.setdefault(("m", op[1]), bcur.BCURMulti(text_b64=b64(pool[op[1]])))
        return _tryE(obj.encode), ref_parts(pool[op[1]], 300)
    if k == b"senc":
        _, i, uc = op
        obj = st.setdefault(("s", i), bcur.BCURSingle(text_b64=b64(pool[i])))
        enc = ref_bc32(ref_cbor(pool[i]))
        want = f"ur:bytes/{ref_chk(pool[i])}/{enc}" if uc else f"ur:bytes/{enc}"
        return _tryE(obj.encode, use_checksum=bool(uc)), want
    if k in (b"mparse", b"mreparse"):
        # sel: [payload, y, index] per string; accepted exactly for the complete ordered set of one (payload, y).
        # The generator only uses part counts y that encode() can produce (no empty trailing part): parse() does
        # not compare the number of strings with y, so dropping an EMPTY hand-made last part would go unnoticed.
        _, sel, upper, pos, sub = op
        strings = [ref_parts_y(pool[i], y)[j] for (i, y, j) in sel]
        if upper:
            strings = [x.upper() for x in strings]
        i0, y0 = sel[0][0], sel[0][1]
        ok = [list(x) for x in sel] == [[i0, y0, j] for j in range(y0)]
        if sub:                               # one substituted payload character in one of the strings
            n = pos % len(strings)
            strings[n] = _flip(strings[n], pos, sub)
            ok = False
        r = _tryE(bcur.BCURMulti.parse, strings if not (upper and pos % 2) else tuple(strings))
        if r is ERR or not ok:
            return (r if r is ERR else [b"accepted", a2b_base64(r.text_b64)]), (pool[i0] if ok else ERR)
        if k == b"mparse":
            return [a2b_base64(r.text_b64), r.checksum, r.encoded], \
                [pool[i0], ref_chk(pool[i0]), ref_bc32(ref_cbor(pool[i0]))]
        chunk2 = 1 + pos % 400                # the parsed object is used again
        return [r.encode(max_size_per_chunk=chunk2), r.encode(animate=False), r.encode(max_size_per_chunk=chunk2)], \
            [ref_parts(pool[i0], chunk2), ref_parts(pool[i0], 1, False), ref_parts(pool[i0], chunk2)]
    if k == b"sparse":
        _, i, form, upper, pos, sub = op
        enc = ref_bc32(ref_cbor(pool[i]))
        s = {2: f"ur:bytes/{enc}", 3: f"ur:bytes/{ref_chk(pool[i])}/{enc}", 4: f"ur:bytes/1of1/{ref_chk(pool[i])}/{enc}"}[form]
        if upper:
            s = s.upper()
        if sub:
            s = _flip(s, pos, sub)
        r = _tryE(bcur.BCURSingle.parse, s)
        if r is ERR or sub:
            return (r if r is ERR else [b"accepted", a2b_base64(r.text_b64)]), (ERR if sub else pool[i])
        return [a2b_base64(r.text_b64), r.encode(), r.encode(use_checksum=False), r.encode(use_checksum=True)], \
            [pool[i], f"ur:bytes/{ref_chk(pool[i])}/{enc}", f"ur:bytes/{enc}", f"ur:bytes/{ref_chk(pool[i])}/{enc}"]
    # ---- module-level codecs
    d = pool[op[1]]
    if k == b"benc":
        return _tryE(lambda: list(bcur.bcur_encode(d))), [ref_bc32(ref_cbor(d)), ref_chk(d)]
    if k == b"bdec":                          # checksum argument: 0 none, 1 right, 2 of another payload
        which, other = op[2], pool[op[3]]
        c = None if which == 0 else ref_chk(d) if which == 1 else ref_chk(other)
        want = d if which < 2 or ref_chk(other) == ref_chk(d) else ERR
        return _tryE(bcur.bcur_decode, ref_bc32(ref_cbor(d)), c), want
    if k == b"b32e":
        return _tryE(bech32.bc32encode, d), ref_bc32(d)
    if k == b"b32d":
        s = ref_bc32(d)
        if op[2]:
            s = _flip("/" + s, op[3], op[2])[1:]
        r = _tryE(bech32.bc32decode, s.upper() if op[3] % 3 == 0 else s)
        return ([] if r is None else r), ([] if op[2] else d)
    if k == b"cbe":
        return _tryE(bech32.cbor_encode, d), ref_cbor(d)
    if k == b"cbd":
        return _tryE(bech32.cbor_decode, ref_cbor(d)), d
    if k == b"cvt":
        five = ref_conv(d, 8, 5, True)
        return _tryE(lambda: [bech32.convertbits(d, 8, 5), bech32.convertbits(five, 5, 8, False)]), [five, list(d)]
    raise ValueError(k)


def p_bcur_session(pool, ops):
    from vp.sexp import canon
    st = {}
    for n, op in enumerate(ops):
        got, want = _bcur_step(op, pool, st)
        if got is ERR and want is ERR:
            continue
        if got is ERR or want is ERR or canon(got) != canon(want):
            def sh(v):
                return "an exception" if v is ERR else repr(v)[:160]
            return (f"step {n} {op!r:.120}: got {sh(got)}, expected {sh(want)} — after {n} earlier call(s) on the same "
                    f"objects / module in this session")
    return None


# ---------------------------------------------------------------- hardening (mutation triage)
# Everything below builds its strings with the reference codecs of this module (ref_cbor / ref_bc32 / sha256), never
# with the functions under test.


def ref_single(payload, use_checksum=True):
    enc = ref_bc32(ref_cbor(payload))
    return f"ur:bytes/{ref_chk(payload)}/{enc}" if use_checksum else f"ur:bytes/{enc}"


def enc_len_of(n):
    """length of the bc32 text of the CBOR wrapping of an n-byte payload"""
    c = n + (1 if n <= 23 else 2 if n <= 255 else 3 if n <= 65535 else 5)
    return -(-8 * c // 5) + 6


def _exc(f, *a, **kw):
    """(value, None) or (None, exception)"""
    try:
        return f(*a, **kw), None
    except Exception as e:  # noqa
        return None, e


def p_polymod_ref(vals):
    """bech32_polymod equals the reference LFSR on 5-bit symbols and, called directly, on any integers"""
    got, e = _exc(bech32.bech32_polymod, list(vals))
    if e is not None:
        return f"bech32_polymod raises {type(e).__name__} on {list(vals)[:8]!r}"
    if got != ref_polymod(vals):
        return f"bech32_polymod differs from the reference on {list(vals)[:8]!r}"
    return None


def p_single_header(payload, x, y, upper):
    """BCURSingle.parse of a COMPLETE, correctly check-summed message whose header says x-of-y: accepted exactly for
    1of1 (and then the payload), refused for every other pair — also when only one of the two numbers is 1"""
    s = f"ur:bytes/{x}of{y}/{ref_chk(payload)}/{ref_bc32(ref_cbor(payload))}"
    if upper:
        s = s.upper()
    r, e = _exc(bcur.BCURSingle.parse, s)
    if x == 1 and y == 1:
        if e is not None or a2b_base64(r.text_b64) != payload:
            return "BCURSingle.parse refuses (or garbles) a complete 1of1 message"
        return None
    if e is None:
        return f"BCURSingle.parse accepts a part that says {x}of{y}"
    return None


def p_default_chunk(payload):
    """encode() without a chunk size cuts at 300 characters per part (ceil(len / 300) parts of equalised length)"""
    want = ref_parts(payload, 300)
    for obj in (bcur.BCURMulti(text_b64=b64(payload)),):
        for got in (obj.encode(), obj.encode(animate=True)):
            if got != want:
                return (f"encode() with the default chunk size gives {len(got)} part(s) for {len(ref_bc32(ref_cbor(payload)))} "
                        f"characters, expected {len(want)} (300 per part)")
        if obj.encode(300) != want:
            return "encode(300) differs from the reference chunking"
    if _parse(want) != payload:
        return "the default-size parts do not parse to the payload"
    return None


def p_helper_error_class(t):
    """_parse_bcur_helper either returns or raises the module's own BCURStringFormatError — never a bare
    ValueError / TypeError / AttributeError from int() or a str method deep inside"""
    t = T(t)
    r, e = _exc(bcur._parse_bcur_helper, t)
    if e is not None and not isinstance(e, bcur.BCURStringFormatError):
        return f"_parse_bcur_helper({t[:60]!r}) raises {type(e).__name__} instead of BCURStringFormatError"
    if e is None:
        payload, checksum, x, y = r
        if type(x) is not int or type(y) is not int or x > y:
            return f"_parse_bcur_helper({t[:60]!r}) returns x={x!r}, y={y!r}"
    return None


class _Str(str):
    pass


def p_str_types_strict(payload):
    """non-str (non list/tuple) input is refused with BCURStringFormatError (the explicit type checks), not by an
    accident further down; a str SUBCLASS is not a `str` for the check either"""
    s = ref_single(payload)
    FE = bcur.BCURStringFormatError
    for bad in (s.encode(), None, 5, [s], bytearray(s.encode()), _Str(s), 1.5, (s,)):
        for f in (bcur._parse_bcur_helper, bcur.BCURSingle.parse):
            r, e = _exc(f, bad)
            if e is None:
                return f"{f.__name__} accepts a {type(bad).__name__}"
            if not isinstance(e, FE):
                return f"{f.__name__} of a {type(bad).__name__} raises {type(e).__name__} instead of BCURStringFormatError"
    for bad in (s, None, {0: s}, iter([s]), [s.encode()], [[s]], [None], [_Str(s)], s.encode(), {s}):
        r, e = _exc(bcur.BCURMulti.parse, bad)
        if e is None:
            return f"BCURMulti.parse accepts {type(bad).__name__}"
        if not isinstance(e, FE):
            return f"BCURMulti.parse of {type(bad).__name__} raises {type(e).__name__} instead of BCURStringFormatError"
    for good in ([s], (s,)):
        r, e = _exc(_parse, good)
        if e is not None or r != payload:
            return f"a {type(good).__name__} holding the single complete part is not parsed to the payload"
    return None


def noncanon(payload, kind, extra):
    """a CBOR byte-string wrapper that cbor_decode reads but cbor_encode would not write.
    kind 0: next wider length prefix; 1: canonical + trailing bytes; 2: length field says `len(extra)` more bytes than
    present (silent short read); 3: widest (0x60) prefix"""
    n = len(payload)
    if kind == 0:
        if n <= 23:
            return bytes([0x58, n]) + payload
        if n <= 255:
            return b"\x59" + n.to_bytes(2, "big") + payload
        return b"\x60" + n.to_bytes(4, "big") + payload
    if kind == 1:
        return ref_cbor(payload) + (extra or b"\x00")
    if kind == 2:
        return ref_cbor(payload + (extra or b"\x00"))[:-len(extra or b"\x00")]
    if kind == 4 and n <= 65535:                                # two-byte length whatever the size
        return b"\x59" + n.to_bytes(2, "big") + payload
    if kind == 5:                                               # wider prefix AND trailing bytes (n = 0: count 0, bytes present)
        return noncanon(payload, 0, extra) + (extra or b"\x00")
    return b"\x60" + n.to_bytes(4, "big") + payload


def noncanon_strings(cbor, y):
    enc = ref_bc32(cbor)
    chk = ref_bc32(hashlib.sha256(cbor).digest())
    y = max(1, min(y, len(enc)))
    cl = -(-len(enc) // y)
    y = -(-len(enc) // cl)
    return enc, chk, [f"ur:bytes/{i + 1}of{y}/{chk}/{enc[i * cl:(i + 1) * cl]}" for i in range(y)]


def p_noncanon(payload, kind, extra, y):
    """a non-canonical wrapper (right digest, right bc32 checksum): BCURSingle.parse compares the re-encoding with the
    text it was given and refuses; BCURMulti.parse, when it accepts, returns the bytes that are in the wrapper"""
    cbor = noncanon(payload, kind, extra)
    if cbor == ref_cbor(payload):
        return None
    enc, chk, strings = noncanon_strings(cbor, y)
    for s in (f"ur:bytes/{enc}", f"ur:bytes/{chk}/{enc}", f"ur:bytes/1of1/{chk}/{enc}"):
        r, e = _exc(bcur.BCURSingle.parse, s)
        if e is None:
            return f"BCURSingle.parse accepts a non-canonical CBOR wrapper (kind {kind}) whose re-encoding differs from the text"
    r, e = _exc(_parse, strings)
    if e is None and r != payload:
        return f"BCURMulti.parse of a non-canonical wrapper (kind {kind}) gives bytes that are not in it"
    return None


def p_ctor(payload, other):
    """the constructors re-encode and compare with the `encoded` / `checksum` they are handed; __repr__"""
    enc, chk = ref_bc32(ref_cbor(payload)), ref_chk(payload)
    oenc, ochk = ref_bc32(ref_cbor(other)), ref_chk(other)
    t = b64(payload)
    for cls in (bcur.BCURSingle, bcur.BCURMulti):
        for kw in ({}, {"encoded": enc}, {"checksum": chk}, {"encoded": enc, "checksum": chk},
                   {"encoded": None, "checksum": None}, {"encoded": "", "checksum": ""}):
            o, e = _exc(cls, text_b64=t, **kw)
            if e is not None:
                return f"{cls.__name__}(text, {sorted(kw)}) with the right values raises {type(e).__name__}"
            if o.encoded != enc or o.enc_hash != chk or o.text_b64 != t:
                return f"{cls.__name__} object holds a wrong encoding / digest"
        if other != payload:
            for kw in ({"encoded": oenc}, {"checksum": ochk}, {"encoded": enc, "checksum": ochk},
                       {"encoded": oenc, "checksum": chk}, {"encoded": enc[:-1]}, {"checksum": chk[:-1]},
                       {"encoded": enc.upper()}):
                if kw.get("encoded") == enc and "checksum" not in kw:
                    continue                                  # a digit-only text is its own upper()
                o, e = _exc(cls, text_b64=t, **kw)
                if e is None:
                    return f"{cls.__name__}(text, {sorted(kw)}) accepts an encoding / checksum of other data"
    if repr(bcur.BCURSingle(text_b64=t)) != f"ur:bytes/{chk}/{enc}":
        return "repr(BCURSingle) is not the single part with checksum"
    for c in (None, chk):
        if repr(bcur.BCURMulti(text_b64=t, checksum=c)) != f"bcur: {c}\n{t}\n":
            return "repr(BCURMulti) differs"
    return None


# ---------------------------------------------------------------- character classes of the bech32 alphabet
# The alphabet has 9 digits (0 2 3 4 5 6 7 8 9) and 23 letters.  A text without any letter equals both its lower()
# and its upper() and has NO cased character (str.islower() and str.isupper() are both False); a text with a single
# letter cannot be mixed-case; a text without any digit is isalpha().  Random payloads practically never give a
# digit-only text ((9/32)^len), so such texts are CONSTRUCTED: the data symbols are drawn from the wanted class per
# position and the last few are ground until the six checksum symbols (own polymod, own table) fall into their
# classes as well.  Expectations come from ref_bc32_dec below, never from the library.

_DIG = [i for i, c in enumerate(B32) if c in "0123456789"]
_LET = [i for i in range(32) if i not in _DIG]
_ALL = list(range(32))
_GENTAB = []
for _top in range(32):
    _g = 0
    for _i, _c in enumerate([0x3b6a57b2, 0x26508e6d, 0x1ea119fa, 0x3d4233dd, 0x2a1462b3]):
        if (_top >> _i) & 1:
            _g ^= _c
    _GENTAB.append(_g)


def _pm_state(vals, chk=1):
    for v in vals:
        chk = ((chk & 0x1ffffff) << 5) ^ v ^ _GENTAB[chk >> 25]
    return chk


def grind(r, data_cls, chk_cls, prefixes=400):
    """5-bit symbols dd + 6 bc32 checksum symbols with dd[i] in data_cls[i] and checksum[j] in chk_cls[j];
    None when there is no such text (or none was found)"""
    m = len(data_cls)
    if any(not c for c in data_cls):
        return None
    k, space = 0, 1
    while k < m and space < 30000:
        k += 1
        space *= len(data_cls[m - k])
    for _ in range(prefixes if m > k else 1):
        prefix = [r.choice(c) for c in data_cls[:m - k]]
        st = _pm_state([0] + prefix)
        pools = [r.sample(c, len(c)) for c in data_cls[m - k:]]
        for tail in itertools.product(*pools):
            pm = _pm_state(tail + (0, 0, 0, 0, 0, 0), st) ^ 0x3fffffff
            if all(((pm >> 5 * (5 - j)) & 31) in chk_cls[j] for j in range(6)):
                return prefix + list(tail) + [(pm >> 5 * (5 - j)) & 31 for j in range(6)]
    return None


def ref_bc32_dec(t):
    """independent bc32 decoder on ASCII text: bytes, or None = must be refused (None or an exception)"""
    if any("A" <= c <= "Z" for c in t) and any("a" <= c <= "z" for c in t):
        return None                                             # mixed case
    t = "".join(chr(ord(c) + 32) if "A" <= c <= "Z" else c for c in t)
    if len(t) < 6 or any(c not in B32 for c in t):
        return None
    syms = [B32.index(c) for c in t]
    if ref_polymod([0] + syms) != 0x3fffffff:
        return None
    bits = "".join(format(s, "05b") for s in syms[:-6])
    whole = len(bits) // 8 * 8
    if len(bits) - whole >= 5 or "1" in bits[whole:]:
        return None                                             # not a whole number of bytes / non-zero padding
    return bytes(int(bits[i:i + 8], 2) for i in range(0, whole, 8))


def text_class(t):
    has_d = any(c in "0123456789" for c in t)
    nl = sum(c.isalpha() for c in t)
    up, lo = any(c.isupper() for c in t), any(c.islower() for c in t)
    kind = "empty" if not t else "digits-only" if nl == 0 else "letters-only" if not has_d else \
        "one-letter-among-digits" if nl == 1 else "letters-and-digits"
    return kind + ("" if nl == 0 else "/mixed-case" if up and lo else "/upper" if up else "/lower")


def p_bc32_text(t):
    """bc32decode of a text agrees with the independent decoder: exactly its bytes, or refused (None / exception) where
    the text is mixed-case, mis-check-summed or not a whole number of bytes; a decodable text is what bc32encode
    writes for its bytes"""
    t = T(t)
    want = ref_bc32_dec(t)
    got, e = _exc(bech32.bc32decode, t)
    if want is None:
        if e is None and got is not None:
            return f"bc32decode accepts {t[:70]!r} ({text_class(t)}) and gives {bytes(got)[:20]!r}"
        return None
    if e is not None or got != want:
        return (f"bc32decode refuses / garbles the valid bc32 text {t[:70]!r} ({text_class(t)}, {len(want)} bytes): "
                f"{'raises ' + type(e).__name__ if e is not None else repr(got)[:40]}")
    enc, e = _exc(bech32.bc32encode, want)
    if e is not None or enc != t.lower():
        return f"bc32encode of {want.hex()[:40]} is not the text {t.lower()[:70]!r} that decodes to it"
    return None


def _case(s, case, r=None):
    """0 as is (lower), 1 upper, 2 'UR:BYTES' upper only, 3 everything after the scheme upper, 4 alternating"""
    if case == 0:
        return s
    if case == 1:
        return s.upper()
    if case == 2:
        return s[:8].upper() + s[8:]
    if case == 3:
        return s[:8] + s[8:].upper()
    return "".join(c.upper() if i % 2 else c for i, c in enumerate(s))


def p_bcur_text(payload, case, y):
    """the BCUR strings of a payload (built here from the reference codecs) in a given case pattern — the parser
    lower()s the whole string, so every pattern is the same message: every form parses to exactly the payload"""
    enc, chk = ref_bc32(ref_cbor(payload)), ref_chk(payload)
    cls = text_class(enc)
    forms = [f"ur:bytes/{enc}", f"ur:bytes/{chk}/{enc}", f"ur:bytes/1of1/{chk}/{enc}"]
    for s in forms:
        s = _case(s, case)
        o, e = _exc(bcur.BCURSingle.parse, s)
        if e is not None or a2b_base64(o.text_b64) != payload:
            return f"BCURSingle.parse refuses / garbles {s[:90]!r} (payload text {cls})"
        h, e = _exc(bcur._parse_bcur_helper, s)
        if e is not None or h[0] != enc or (h[1] or chk) != chk or (h[2], h[3]) != (1, 1):
            return f"_parse_bcur_helper refuses / garbles {s[:90]!r} (payload text {cls})"
    y = max(1, min(y, len(enc)))
    y = -(-len(enc) // -(-len(enc) // y))                        # a part count encode() can produce (no empty part)
    for strings in ([forms[0]], [forms[1]], ref_parts_y(payload, y)):
        strings = [_case(s, case) for s in strings]
        r, e = _exc(_parse, strings)
        if e is not None or r != payload:
            return f"BCURMulti.parse refuses / garbles the {len(strings)} part(s) {strings[0][:90]!r}… (payload text {cls})"
    for c in (None, chk):
        r, e = _exc(bcur.bcur_decode, enc, c)
        if e is not None or r != payload:
            return f"bcur_decode refuses / garbles {enc[:70]!r} ({cls})"
    got, e = _exc(bcur.bcur_encode, payload)
    if e is not None or tuple(got) != (enc, chk):
        return "bcur_encode differs from the reference"
    return None


def p_helper_fields(chk, payload, x, y, case):
    """_parse_bcur_helper on bech32-alphabet fields of any character class (digits only, letters only, ...):
    returns the lower-cased fields and the numbers"""
    chk, payload = T(chk), T(payload)
    s = _case(f"ur:bytes/{x}of{y}/{chk}/{payload}", case)
    h, e = _exc(bcur._parse_bcur_helper, s)
    if e is not None:
        return f"_parse_bcur_helper refuses {s[:100]!r} (checksum {text_class(chk)}, payload {text_class(payload)})"
    if tuple(h) != (payload, chk, x, y):
        return f"_parse_bcur_helper({s[:100]!r}) returns {h!r:.120}"
    return None


# ---------------------------------------------------------------- entry-point audit (kinds a, b, c, e, f, g)
# (e) LENIENT decoders: a character outside the alphabet read as some integer u (str.find -> -1, dict.get(c, 0) -> 0,
#     a longer table -> 32.., a look-alike table o->0, 1/i->l, b->6) instead of refusing the text.  For u outside
#     0..31 a single substitution never passes the checksum - the neighbouring symbols have to compensate (the polymod
#     is affine over GF(2) in the symbols, also for negative / wide integers), so such texts are SOLVED for here.
# (f) per-part attributes (case, white space, length, x, y, checksum) that DIFFER between the parts of one message.
# (g) results and sources used again: returned lists edited and the object asked again, argument lists after the call,
#     a refused call followed by the good one on the same list.
# (a, b) every callable with its defaults, positionally and by keyword.
# (c) CBOR wrappers as a full matrix prefix width x declared length x bytes present (count 0 with bytes present, ...).

FOREIGN = "1bio-_ .\x00\xff"                   # never in the alphabet, in either case
LOOKALIKE = {"0": "oO", "l": "1iI", "6": "b", "q": "1-_.\x00"}    # legal character -> foreign ones a lenient table reads as it


def _legal(c):
    return c in B32 or ("A" <= c <= "Z" and chr(ord(c) + 32) in B32)


def _gf2_solve(f, nbits, target):
    """x (nbits bits) with f(x) == target for a map f that is affine over GF(2); None when there is none"""
    base = f(0)
    want = target ^ base
    if want < 0:
        return None
    basis = {}
    for b in range(nbits):
        v, comb = f(1 << b) ^ base, 1 << b
        while v > 0:
            p = v.bit_length() - 1
            if p not in basis:
                basis[p] = (v, comb)
                break
            v, comb = v ^ basis[p][0], comb ^ basis[p][1]
    x = 0
    while want:
        p = want.bit_length() - 1
        if p not in basis:
            return None
        want, x = want ^ basis[p][0], x ^ basis[p][1]
    return x


def compensate(r, data, pos, u, keep=0):
    """symbols (len(data) data symbols + 6) of a text that a decoder reading the character at `pos` as the integer u
    finds correctly check-summed: the six symbols after the data (pos in the data part) or the six symbols before
    `pos` (pos in the checksum part; the first `keep` data symbols are never touched) are solved for.  None if there
    is no such text / the padding bits of the last data symbol cannot be kept zero."""
    m = len(data)
    pad = (1 << (5 * m % 8)) - 1 if 5 * m % 8 < 5 else 0
    for _ in range(80):
        vals = list(data) + [r.randrange(32) for _ in range(6)]
        lo = m if pos < m else pos - 6
        if lo < keep or lo < 0:
            return None
        for k in range(keep, min(lo, m)):
            if r.random() < 0.3 and k != m - 1:
                vals[k] = r.randrange(32)               # fresh neighbours for another try
        vals[pos] = u

        def f(x):
            v = list(vals)
            for k in range(6):
                v[lo + k] = (x >> 5 * (5 - k)) & 31
            return ref_polymod([0] + v)
        x = _gf2_solve(f, 30, 0x3fffffff)
        if x is None:
            return None
        for k in range(6):
            vals[lo + k] = (x >> 5 * (5 - k)) & 31
        assert ref_polymod([0] + vals) == 0x3fffffff
        if pos < m or not (vals[m - 1] & pad):
            return vals
    return None


def _sym_text(vals, pos, ch):
    return "".join(ch if k == pos else B32[v] for k, v in enumerate(vals))


def _sym_bytes(syms):
    """whole bytes of 5-bit symbols (what a decoder makes of them), padding ignored"""
    bits = "".join(format(s & 31, "05b") for s in syms)
    return bytes(int(bits[i:i + 8], 2) for i in range(0, len(bits) // 8 * 8, 8))


def _refused(f, *a, **kw):
    r, e = _exc(f, *a, **kw)
    return e is not None or r is None


def p_foreign_fields(chk, pay, y):
    """BCUR strings whose payload text and / or 58-character checksum field contain a character outside the bech32
    alphabet: refused by every parser and decoder - also when the rest of the text is arranged so that a decoder
    which READS the foreign character (as -1, 0, 31, 32, a look-alike ...) finds checksum and digest right"""
    chk, pay = T(chk), T(pay)
    bad_p = any(not _legal(c) for c in pay)
    bad_c = any(not _legal(c) for c in chk)
    if not (bad_p or bad_c) or "/" in chk + pay:
        return "generator: no foreign character in either field"
    where = "payload text" if bad_p else "checksum field"
    if bad_p:
        for f, a in ((bech32.bc32decode, (pay,)), (bcur.bcur_decode, (pay,)), (bcur.bcur_decode, (pay, None))):
            if not _refused(f, *a):
                return f"{f.__name__} accepts the text {pay[:70]!r} with a character outside the alphabet"
    if bad_c and len(chk) and not _refused(bech32.bc32decode, chk):
        return f"bc32decode accepts the digest text {chk[:70]!r} with a character outside the alphabet"
    if not _refused(bcur.bcur_decode, pay, chk):
        return f"bcur_decode accepts {pay[:50]!r} / {chk[:50]!r} (foreign character in the {where})"
    if pay.strip() != pay or chk.strip() != chk:
        return None                                             # str.strip() would legitimately remove it at the ends
    forms = [f"ur:bytes/{chk}/{pay}", f"ur:bytes/1of1/{chk}/{pay}"] + ([f"ur:bytes/{pay}"] if bad_p else [])
    for s in forms:
        for v in (s, s.upper() if s.upper().lower() == s.lower() else s):
            r_, e = _exc(bcur.BCURSingle.parse, v)
            if e is None:
                return f"BCURSingle.parse accepts {v[:90]!r} (foreign character in the {where})"
            r_, e = _exc(bcur.BCURMulti.parse, [v])
            if e is None:
                return (f"BCURMulti.parse accepts {v[:90]!r} (foreign character in the {where}) and gives "
                        f"{a2b_base64(r_.text_b64)[:16]!r}…")
    y = max(1, min(y, len(pay)))
    cl = -(-len(pay) // y)
    strings = [f"ur:bytes/{i + 1}of{y}/{chk}/{pay[i * cl:(i + 1) * cl]}" for i in range(y)]
    if all(s.strip() == s for s in strings):
        r_, e = _exc(bcur.BCURMulti.parse, strings)
        if e is None:
            return (f"BCURMulti.parse accepts {y} parts with a foreign character in the {where} and gives "
                    f"{a2b_base64(r_.text_b64)[:16]!r}…")
    return None


def digest_variant(payload, variant, pos):
    """a digest field that is NOT the bc32 text of sha256(CBOR wrapping): 0 one character replaced (bc32 checksum wrong);
    1 / 2 valid bc32 text of the digest with its last / first byte changed; 3 / 4 valid bc32 text of the digest cut to 31
    bytes / extended to 33; 5 of no bytes at all; 6 of the digest of the bare payload (no CBOR header); 7 the payload
    text itself"""
    dg = hashlib.sha256(ref_cbor(payload)).digest()
    if variant == 0:
        return _flip("/" + ref_bc32(dg), pos, 1 + pos % 30)[1:]
    return [None, ref_bc32(dg[:-1] + bytes([dg[-1] ^ (1 + pos % 255)])), ref_bc32(bytes([dg[0] ^ (1 + pos % 255)]) + dg[1:]),
            ref_bc32(dg[:31]), ref_bc32(dg + b"\x00"), ref_bc32(b""), ref_bc32(hashlib.sha256(payload).digest()),
            ref_bc32(ref_cbor(payload))][variant]


def p_digest_field(payload, variant, pos, y):
    """a right payload text under a wrong digest field is refused by every parser and by bcur_decode"""
    enc, chk = ref_bc32(ref_cbor(payload)), ref_chk(payload)
    bad = digest_variant(payload, variant, pos)
    if bad == chk:
        return None
    for c in (bad, bad.upper()):
        if not _refused(bcur.bcur_decode, enc, c):
            return f"bcur_decode accepts the digest text {c[:64]!r} (variant {variant}) for data with digest text {chk[:64]!r}"
    y = max(1, min(y, len(enc)))
    cl = -(-len(enc) // y)
    y = -(-len(enc) // cl)
    sets = [[f"ur:bytes/{bad}/{enc}"], [f"ur:bytes/1of1/{bad}/{enc}"],
            [f"ur:bytes/{i + 1}of{y}/{bad}/{enc[i * cl:(i + 1) * cl]}" for i in range(y)]]
    for strings in sets:
        if len(strings) == 1 and _exc(bcur.BCURSingle.parse, strings[0])[1] is None:
            return f"BCURSingle.parse accepts a wrong digest field (variant {variant}): {strings[0][:80]!r}"
        if _exc(bcur.BCURMulti.parse, strings)[1] is None:
            return f"BCURMulti.parse accepts {len(strings)} part(s) with a wrong digest field (variant {variant})"
    return None


def p_charset(t):
    """uses_only_bech32_chars called directly equals a per-character test; _parse_bcur_helper never hands on a field
    that contains a character outside the alphabet"""
    t = T(t)
    want = all(_legal(c) for c in t)
    got, e = _exc(bech32.uses_only_bech32_chars, t)
    if e is not None:
        return f"uses_only_bech32_chars({t[:60]!r}) raises {type(e).__name__}"
    if type(got) is not bool or got != want:
        return f"uses_only_bech32_chars({t[:60]!r}) is {got!r}, expected {want}"
    strings = [f"ur:bytes/{t}", f"ur:bytes/1of2/{'q' * 58}/{t}", f"ur:bytes/{'q' * 58}/{t}"]
    if len(t) == 58:
        strings += [f"ur:bytes/1of2/{t}/q", f"ur:bytes/{t}/q"]
    for s in strings:
        h, e = _exc(bcur._parse_bcur_helper, s)
        if e is None and any(c not in B32 for c in h[0] + (h[1] or "")):
            return f"_parse_bcur_helper({s[:80]!r}) returns a field with a character outside the alphabet"
    return None


def free_strings(payload, cuts, cases, ws):
    enc, chk = ref_bc32(ref_cbor(payload)), ref_chk(payload)
    cuts = sorted(c % (len(enc) + 1) for c in cuts)
    edges = [0] + cuts + [len(enc)]
    pieces = [enc[a:b] for a, b in zip(edges, edges[1:])]
    y = len(pieces)
    strings = []
    for i, pc in enumerate(pieces):
        s = _case(f"ur:bytes/{i + 1}of{y}/{chk}/{pc}", cases[i % len(cases)] if cases else 0)
        if ws:
            s = WS[(ws + i) % len(WS)] * (i % 3) + s + WS[(ws * 7 + i) % len(WS)] * ((i + ws) % 2)
        strings.append(s)
    return strings, pieces, enc, chk


def p_multi_free(payload, cuts, cases, ws):
    """the bc32 text cut at ARBITRARY places (unequal, one-character and empty pieces), every part in its own case
    pattern and with its own surrounding white space: parses to exactly the payload; the object holds the reference
    text, digest and base64; the list handed in is unchanged"""
    strings, pieces, enc, chk = free_strings(payload, cuts, cases, ws)
    for arg in (list(strings), tuple(strings)):
        before = list(arg)
        o, e = _exc(bcur.BCURMulti.parse, arg)
        if e is not None:
            return (f"BCURMulti.parse refuses a complete ordered message cut into pieces of lengths "
                    f"{[len(p) for p in pieces][:12]} with per-part case patterns {list(cases)[:8]}: {type(e).__name__}")
        if list(arg) != before:
            return "BCURMulti.parse changes the list it is given"
        if a2b_base64(o.text_b64) != payload:
            return "BCURMulti.parse of unequal / differently cased parts gives different data"
        if o.text_b64 != b64(payload) or o.encoded != enc or o.enc_hash != chk or o.checksum != chk:
            return "the parsed object holds a wrong base64 text / encoding / digest"
    return None


def ref_cbor_dec(data):
    """what cbor_decode does today: ('ok', bytes) / ('none',) / ('raise',); short reads are silent"""
    if not data:
        return ("raise",)
    b = data[0]
    if 0x40 <= b < 0x58:
        return ("ok", data[1:1 + b - 0x40])
    w = {0x58: 1, 0x59: 2, 0x60: 4}.get(b)
    if w is None:
        return ("none",)
    if w == 1 and len(data) < 2:
        return ("raise",)
    n = int.from_bytes(data[1:1 + w], "big")
    return ("ok", data[1 + w:1 + w + n])


def p_cbor_dec(data):
    want = ref_cbor_dec(data)
    got, e = _exc(bech32.cbor_decode, data)
    have = ("raise",) if e is not None else ("none",) if got is None else ("ok", got)
    if have != want:
        return f"cbor_decode({data[:12].hex()}…, {len(data)} bytes) gives {have!r:.60}, expected {want!r:.60}"
    return None


def p_entry(payload, other, chunk):
    """every public callable with its DEFAULT arguments, positionally and by keyword; results edited by the caller
    and the same object / function asked again; argument lists after the call; refused call, then the good one"""
    enc, chk = ref_bc32(ref_cbor(payload)), ref_chk(payload)
    ochk = ref_chk(other)
    t = b64(payload)
    # ---- bcur_decode(data, checksum=None)
    for a, kw in (((enc,), {}), ((), {"data": enc}), ((enc, None), {}), ((enc, chk), {}), ((), {"data": enc, "checksum": chk}),
                  ((enc,), {"checksum": chk}), ((enc.upper(),), {}), ((enc.upper(), chk.upper()), {})):
        r_, e = _exc(bcur.bcur_decode, *a, **kw)
        if e is not None or r_ != payload:
            how = ", ".join([["text", "digest"][i] if v is not None else "None" for i, v in enumerate(a)] + [f"{k}=…" for k in kw])
            return (f"bcur_decode({how}) - one of the positional / keyword / default-argument forms - does not give the payload"
                    f"{'' if e is None else ': raises ' + type(e).__name__}")
    if ochk != chk:
        for a, kw in (((enc, ochk), {}), ((enc,), {"checksum": ochk}), ((), {"data": enc, "checksum": ochk}), ((enc, ""), {}),
                      ((enc, chk[:-1]), {})):
            if not _refused(bcur.bcur_decode, *a, **kw):
                return "bcur_decode accepts a digest of other data / a damaged digest"
    got, e = _exc(bcur.bcur_encode, data=payload)
    if e is not None or type(got) is not tuple or got != (enc, chk):
        return "bcur_encode(data=…) differs from the reference pair"
    # ---- constructors: positional order is (text_b64, encoded, checksum)
    for cls in (bcur.BCURSingle, bcur.BCURMulti):
        o, e = _exc(cls, t, enc, chk)
        if e is not None or (o.encoded, o.enc_hash, o.text_b64) != (enc, chk, t):
            return f"{cls.__name__}(text, encoded, checksum) given positionally is refused / garbled"
        if not _refused(cls, t, chk, enc):
            return f"{cls.__name__}(text, checksum, encoded) - arguments swapped - is accepted"
        o, e = _exc(cls, t)
        if e is not None or (o.encoded, o.enc_hash, o.text_b64) != (enc, chk, t):
            return f"{cls.__name__}(text) is refused / garbled"
        o2, e = _exc(cls, t.encode())                            # base64 as bytes: a2b_base64 takes both
        if e is None and (o2.encoded, o2.enc_hash) != (enc, chk):
            return f"{cls.__name__}(bytes) holds a wrong encoding"
    # ---- BCURSingle.encode(use_checksum=True)
    s = bcur.BCURSingle(t)
    want1, want0 = f"ur:bytes/{chk}/{enc}", f"ur:bytes/{enc}"
    outs = [s.encode(), s.encode(True), s.encode(use_checksum=True), repr(s), s.encode(False), s.encode(use_checksum=False),
            s.encode(), str(s)]
    if outs != [want1, want1, want1, want1, want0, want0, want1, want1]:
        return "BCURSingle.encode: default / positional / keyword use_checksum disagree with the reference strings"
    # ---- BCURMulti.encode(max_size_per_chunk=300, animate=True): results edited, object asked again
    m = bcur.BCURMulti(t)
    for call, want in ((lambda: m.encode(chunk), ref_parts(payload, chunk)),
                       (lambda: m.encode(chunk, True), ref_parts(payload, chunk)),
                       (lambda: m.encode(chunk, False), ref_parts(payload, 1, False)),
                       (lambda: m.encode(animate=False), ref_parts(payload, 1, False)),
                       (lambda: m.encode(), ref_parts(payload, 300)),
                       (lambda: m.encode(max_size_per_chunk=chunk), ref_parts(payload, chunk))):
        a = call()
        if type(a) is not list or a != want:
            return "BCURMulti.encode (positional / keyword / default arguments) differs from the reference chunking"
        a.reverse()
        a.append("ur:bytes/junk")
        a[0] = a[0].upper()
        b = call()
        if b is a or b != want:
            return "BCURMulti.encode hands out the same list again: edits of the first result show in the second"
    if (m.encoded, m.enc_hash, m.text_b64, m.checksum) != (enc, chk, t, None):
        return "encode() changes the object"
    # ---- BCURMulti.parse: the argument list afterwards; a refused call, then the good one with the same list
    parts = ref_parts(payload, chunk)
    keep = list(parts)
    if len(parts) > 1:
        rev = parts[::-1]
        if not _refused(bcur.BCURMulti.parse, rev) or rev != keep[::-1]:
            return "reversed parts accepted / list changed by the refused call"
        short = parts[:-1]
        if not _refused(bcur.BCURMulti.parse, short) or short != keep[:-1]:
            return "parts without the last one accepted / list changed by the refused call"
    for n in range(2):
        o, e = _exc(bcur.BCURMulti.parse, parts)
        if e is not None or a2b_base64(o.text_b64) != payload or parts != keep:
            return f"BCURMulti.parse (call {n + 1} on the same list) fails / changes its argument"
    o.text_b64, o.encoded = "", ""                               # edit the result, parse again
    o3, e = _exc(bcur.BCURMulti.parse, parts)
    if e is not None or (o3.text_b64, o3.encoded, o3.checksum) != (t, enc, chk):
        return "a second parse shows the edits made to the first result"
    # ---- the list-valued codecs: arguments unchanged, results fresh
    five = ref_conv(payload, 8, 5, True)
    arg = list(payload)
    a = bech32.convertbits(arg, 8, 5)
    if arg != list(payload) or a != five:
        return "convertbits changes its argument / differs from the reference"
    a.append(99)
    if bech32.convertbits(arg, 8, 5) != five or bech32.convertbits(arg, 8, 5, True) != five \
            or bech32.convertbits(arg, 8, 5, pad=True) != five:
        return "convertbits: second call / explicit pad=True differs"
    arg5 = list(five)
    back = bech32.convertbits(arg5, 5, 8, False)
    if arg5 != five or back != list(payload):
        return "convertbits 5->8 changes its argument / differs"
    vals = [0] + five + [0] * 6
    arg = list(vals)
    if bech32.bech32_polymod(arg) != ref_polymod(vals) or arg != vals:
        return "bech32_polymod changes its argument / differs from the reference"
    return None


PROPS = {"digest_field": p_digest_field, "foreign_fields": p_foreign_fields, "charset": p_charset, "multi_free": p_multi_free, "cbor_dec": p_cbor_dec,
         "entry": p_entry,
         "cbor_rt": p_cbor_rt, "convertbits_rt": p_convertbits_rt, "bc32_rt": p_bc32_rt, "bc32_sub": p_bc32_sub,
         "multi_rt": p_multi_rt, "multi_select": p_multi_select, "multi_tamper": p_multi_tamper,
         "part_sub": p_part_sub, "bcur_session": p_bcur_session, "part_sub_unicode": p_part_sub_unicode,
         "str_types": p_str_types, "single_header": p_single_header, "default_chunk": p_default_chunk,
         "helper_error_class": p_helper_error_class, "str_types_strict": p_str_types_strict, "noncanon": p_noncanon,
         "ctor": p_ctor, "polymod_ref": p_polymod_ref, "bc32_text": p_bc32_text, "bcur_text": p_bcur_text,
         "helper_fields": p_helper_fields}

# ---------------------------------------------------------------- generators


def bcur_session(ctx):
    r = ctx.rng
    n = r.choice([0, 1, 22, 23, 24, 25, 100, 254, 255, 256, 300, r.randrange(0, 600), r.randrange(0, 600)])
    p0 = ctx.rbytes(n)
    pool = []
    for p in (p0, p0 + b"\x00", p0[:-1], p0[:-1] + bytes([p0[-1] ^ 1]) if p0 else b"\x01", ctx.rbytes(n), p0 + p0[:3]):
        if p not in pool:
            pool.append(p)
    L = [len(ref_cbor(p)) * 8 // 5 + (1 if len(ref_cbor(p)) * 8 % 5 else 0) + 6 for p in pool]
    ops = []

    def rchunk(i):
        return max(1, r.choice([1, 2, 3, 7, 50, 299, 300, 301, L[i] - 1, L[i], L[i] + 1, L[i] // 2, L[i] // 2 + 1,
                                L[i] // 3 + 1, r.randrange(1, 2001), r.randrange(1, L[i] + 2)]))
    for _ in range(r.randrange(25, 50)):
        i = r.randrange(len(pool))
        x = r.random()
        if x < 0.3:
            c = rchunk(i)
            if L[i] // c > 400:
                c = max(c, L[i] // 40)
            ops.append([b"menc", i, c, int(r.random() < 0.85)])
            if r.random() < 0.4:
                ops.append([b"menc", i, r.choice([c, c + 1, max(1, c - 1), rchunk(i)]), 1])
        elif x < 0.35:
            ops.append([b"mdef", i])
        elif x < 0.45:
            ops.append([b"senc", i, r.randrange(2)])
            ops.append([b"senc", i, r.randrange(2)])
        elif x < 0.75:
            # only part counts that encode() can produce: y = ceil(L / chunk) for some chunk size
            ry = lambda n, want: -(-n // -(-n // max(1, min(n, want))))  # noqa: E731
            y = ry(L[i], r.choice([1, 1, 2, 2, 3, 4, 5, r.randrange(1, 9)]))
            sel = [[i, y, j] for j in range(y)]
            v = r.random()
            others = [k for k in range(len(pool)) if k != i and ry(L[k], y) == y]
            if v < 0.45:
                pass
            elif v < 0.55 and y > 1:
                sel.pop(r.randrange(y))
            elif v < 0.65 and y > 1:
                a, b = r.sample(range(y), 2)
                sel[a], sel[b] = sel[b], sel[a]
            elif v < 0.72:
                sel.insert(r.randrange(y + 1), list(r.choice(sel)))
            elif v < 0.9 and others:
                sel[r.randrange(y)][0] = r.choice(others)             # a part of another (nearly equal) payload
            elif ry(L[i], y + 1) == y + 1:
                j = r.randrange(y)
                sel[j] = [i, y + 1, j]                                # a part of another chunking of the same payload
            sub = r.randrange(1, 31) if r.random() < 0.15 else 0
            ops.append([r.choice([b"mparse", b"mparse", b"mreparse"]), sel, int(r.random() < 0.2), r.randrange(1000), sub])
        elif x < 0.85:
            ops.append([b"sparse", i, r.choice([2, 3, 4]), int(r.random() < 0.2), r.randrange(1000),
                        r.randrange(1, 31) if r.random() < 0.3 else 0])
        else:
            k = r.choice([b"benc", b"bdec", b"b32e", b"b32d", b"cbe", b"cbd", b"cvt"])
            if k == b"bdec":
                ops.append([k, i, r.randrange(3), r.randrange(len(pool))])
            elif k == b"b32d":
                ops.append([k, i, r.choice([0, 0, r.randrange(1, 31)]), r.randrange(1000)])
            else:
                ops.append([k, i])
    # close: every long-lived object once more with fresh arguments
    for i in range(len(pool)):
        ops.append([b"menc", i, max(1, L[i] // 2 + 1), 1])
        ops.append([b"senc", i, 1])
    return [pool, ops]


def histories(ctx):
    for _ in range(ctx.n(60, 600)):
        ctx.label("history/bcur-objects-and-codecs")
        yield ("prop", "bcur_session", bcur_session(ctx))



WS = "\t\n\x0b\x0c\r\x1c\x1d\x1e\x1f "
INTS = ["", " ", "0", "00", "-0", "+0", "7", "12", " 12", "12 ", "\t12\n", "\x1c12", "12\x1f", "\x0b12\x0c", "\r12\r", "+12",
        "-12", "+ 12", " +12 ", "++12", "--1", "+-1", "1_2", "1__2", "_12", "12_", "1_2_3", "+_1", "-_1", "+1_0", "1 2", "1+2",
        "0x10", "1.0", "1e3", "a", "1a", "\x0012", "12\x00", "12\x7f", "0_0", "007", "-007", "+", "-", "_", "1" * 4300,
        "1" * 4301, "0" * 4301, "0" * 4300, "+" + "1" * 4300, "-" + "1" * 4301, "1" + "_1" * 4299, "1" + "_1" * 4300,
        " " * 50 + "1" * 4300 + " " * 50, "9" * 30, "1of2", "o", "/"]


def _mutations(r, s, n):
    """n malformed variants of a part string (ASCII only)"""
    out = []
    alphabet = B32 + "QU0123456789" + "/ :-_+bio" + WS + "\x00\x7f"
    for _ in range(n):
        k = r.randrange(9)
        p = r.randrange(len(s)) if s else 0
        if k == 0:
            t = s[:p] + r.choice(alphabet) + s[p + 1:]
        elif k == 1:
            t = s[:p] + s[p + 1:]
        elif k == 2:
            t = s[:p] + r.choice(alphabet) + s[p:]
        elif k == 3:
            t = "".join(r.choice(WS) for _ in range(r.randrange(1, 4))) + s + "".join(r.choice(WS) for _ in range(r.randrange(0, 3)))
        elif k == 4:
            t = "".join(c.upper() if r.random() < 0.5 else c for c in s)
        elif k == 5:
            t = s[:p]
        elif k == 6:
            t = s.replace("/", r.choice(["//", "/ ", " /", "", "/q/"]), r.choice([1, 2, 3]))
        elif k == 7:
            t = s.replace("of", r.choice(["ofof", "oof", "off", " of ", "o f", "OF", "of+", "of-", "_of", "of0", "fo", "", "of1of"]), 1)
        else:
            t = r.choice(WS) + s if r.random() < 0.5 else s + r.choice(WS)
        out.append(t)
    return out


def string_layer(ctx):
    """the string layer: real strings through _parse_bcur_helper / BCURSingle.parse / BCURMulti.parse / encode"""
    r = ctx.rng
    # ---- int() and str()
    for t in INTS:
        ctx.label("str/int-handmade")
        yield ("corr", "py_int", [t.encode()])
    for _ in range(ctx.n(300, 6000)):
        t = "".join(r.choice("0123456789" * 3 + "_+- " + WS + "a/") for _ in range(r.randrange(0, 7)))
        ctx.label("str/int-random")
        yield ("corr", "py_int", [t.encode()])
    for n in list(range(0, 130)) + [10 ** k + d for k in range(2, 25) for d in (-1, 0, 1)] + [-1, -9, -10, -11, -12345, 2 ** 64, -(2 ** 70)]:
        yield ("corr", "str_int", [n])
        yield ("corr", "py_int", [str(n).encode()])
    # ---- header strings
    hand = ["", "ur:bytes", "ur:bytes/", "ur:bytes//", "ur:bytes///", "ur:bytes////", "ur:byte/q", "ur:bytes/q", "UR:BYTES/Q",
            " ur:bytes/q ", "\x1cur:bytes/q\x1f", "ur:bytes/q\n", "ur:bytes/ q", "ur:bytes/q q", "ur:bytes//q", "ur:bytes/b",
            "ur:bytes/1of1//q", "ur:bytes/ 1 of 1 //q", "ur:bytes/1_0of1_1//q", "ur:bytes/+1of+2//", "ur:bytes/2of1//q",
            "ur:bytes/-1of1//q", "ur:bytes/-2of-1//q", "ur:bytes/0of0//q", "ur:bytes/01of02//q", "ur:bytes/1of//q", "ur:bytes/of1//q",
            "ur:bytes/of//q", "ur:bytes/1ofof2//q", "ur:bytes/1of2of3//q", "ur:bytes/1oof2//q", "ur:bytes/1o2//q", "ur:bytes/1OF2//q",
            "ur:bytes/\x1c1of2//q", "ur:bytes/1of2\x1c//q", "ur:bytes/1\tof\n2//q", "ur:bytes/1of2/q/q", "ur:bytes/1of2/" + "q" * 58 + "/q",
            "ur:bytes/1of2/" + "q" * 57 + "/q", "ur:bytes/1of2/" + "q" * 59 + "/q", "ur:bytes/1of2/" + "q" * 57 + "b/q",
            "ur:bytes/1of2/" + "Q" * 58 + "/Q", "ur:bytes/" + "q" * 58 + "/q", "ur:bytes/" + "q" * 57 + "/q", "ur:bytes/" + "q" * 58 + "/1",
            "ur:bytes/" + "1" * 4301 + "of2//q", "ur:bytes/" + "0" * 4300 + "1of2//q", "ur:bytes/" + "0" * 4299 + "1of2//q",
            "xur:bytes/q", "ur:bytes/q/", "/ur:bytes/q", "ur:bytes/1of1/q", "ur:bytes/1of1"]
    for t in hand:
        ctx.label("str/helper-handmade")
        yield ("corr", "parse_helper_str", [t.encode()])
        yield ("corr", "single_parse_str", [t.encode()])
        yield ("corr", "multi_parse_str", [[t.encode()]])
    sizes = [0, 1, 5, 23, 24, 60, 100, 255, 256] + [r.randrange(0, 400) for _ in range(ctx.n(12, 200))]
    for n in sizes:
        payload = ctx.rbytes(n)
        enc_len = len(ref_bc32(ref_cbor(payload)))
        chunk = max(1, r.choice([1, 3, 7, 10, 25, 60, 300, enc_len - 1, enc_len, enc_len + 1, r.randrange(1, 400)]))
        if enc_len // chunk > 150:
            chunk = max(chunk, enc_len // 20)
        ctx.label("str/encode")
        yield ("corr", "multi_encode_str", [payload, chunk, 1])
        yield ("corr", "multi_encode_str", [payload, chunk, 0])
        yield ("corr", "multi_encode_str", [payload, r.choice([0, -1, -7, -enc_len, -100000]), r.randrange(2)])
        for uc in (0, 1):
            yield ("corr", "single_encode_str", [payload, uc])
        parts = ref_parts(payload, chunk)
        yield ("corr", "multi_parse_str", [[p.encode() for p in parts]])
        yield ("corr", "multi_parse_str", [[p.upper().encode() for p in parts]])
        yield ("corr", "multi_parse_str", [[r.choice(WS) + p + r.choice(WS) for p in parts]])
        s_enc, s_chk = ref_bc32(ref_cbor(payload)), ref_chk(payload)
        forms = [ref_single(payload, False), ref_single(payload, True), f"ur:bytes/1of1/{s_chk}/{s_enc}"]
        for t in forms:
            yield ("corr", "single_parse_str", [t.encode()])
            yield ("corr", "parse_helper_str", [t.encode()])
            yield ("corr", "multi_parse_str", [[t.encode()]])
            for m in _mutations(r, t, ctx.n(6, 40)):
                ctx.label("str/single-mutated")
                yield ("corr", "single_parse_str", [m.encode()])
                yield ("corr", "parse_helper_str", [m.encode()])
        # the merged forms a replaced '/' produces
        yield ("corr", "single_parse_str", [f"ur:bytes/{s_chk}{r.choice(B32)}{s_enc}".encode()])
        # one mutated string among the parts
        for _ in range(ctx.n(10, 60)):
            i = r.randrange(len(parts))
            for m in _mutations(r, parts[i], 1):
                ctx.label("str/multi-mutated")
                yield ("corr", "parse_helper_str", [m.encode()])
                yield ("corr", "multi_parse_str", [[(m if k == i else p).encode() for k, p in enumerate(parts)]])
        if len(parts) > 1:
            a, b = r.sample(range(len(parts)), 2)
            sw = list(parts)
            sw[a], sw[b] = sw[b], sw[a]
            yield ("corr", "multi_parse_str", [[p.encode() for p in sw]])
            yield ("corr", "multi_parse_str", [[p.encode() for p in parts[:-1]]])
            yield ("corr", "multi_parse_str", [[p.encode() for p in parts[1:]]])
            yield ("corr", "multi_parse_str", [[p.encode() for p in parts + parts[-1:]]])
        yield ("prop", "str_types", [payload, chunk])
    # every single ASCII substitution at every position of the first / a later part of small messages (model vs code)
    for _ in range(ctx.n(2, 12)):
        payload = ctx.rbytes(r.randrange(1, 40))
        enc_len = len(ref_bc32(ref_cbor(payload)))
        chunk = max(1, -(-enc_len // r.choice([1, 2, 3])))
        parts = ref_parts(payload, chunk)
        for i in sorted({0, len(parts) - 1}):
            s = parts[i]
            for pos in range(len(s)):
                for c in r.sample(B32 + "QU019/ :-_+o\t\x1c\x00", 3) + ["/", " "]:
                    if c == s[pos]:
                        continue
                    ctx.label("str/every-position-substitution")
                    bad = [(s[:pos] + c + s[pos + 1:] if k == i else p).encode() for k, p in enumerate(parts)]
                    yield ("corr", "multi_parse_str", [bad])
                yield ("prop", "part_sub_unicode", [payload, chunk, i, pos])
        single = ref_single(payload, True)
        for pos in range(len(single)):
            for c in r.sample(B32 + "QU019/ :-_+o\t\x1c\x00", 2) + ["/", " "]:
                if c != single[pos]:
                    yield ("corr", "single_parse_str", [(single[:pos] + c + single[pos + 1:]).encode()])


def hardening(ctx):
    """input classes added after the mutation triage (see mutation/C20.triage.md)"""
    r = ctx.rng
    # ---- polymod called directly: 5-bit symbols (its domain) and wider / negative integers (sixth bit of the top)
    for _ in range(ctx.n(60, 1500)):
        ctx.label("polymod/5-bit")
        vals = [r.randrange(32) for _ in range(r.randrange(0, 90))]
        yield ("corr", "polymod", [vals])
        yield ("prop", "polymod_ref", [vals])
    for vals in ([], [0], [31], [31] * 8, [0] * 40, [1 << 25], [1 << 29], [1 << 30], [1 << 30, 0], [(1 << 30) - 1, 0, 0],
                 [1 << 31, 1], [1 << 35, 0, 0], [1 << 60, 5, 6], [32], [255, 255], [-1], [-1, 0], [-32, 3, 3], [5, -(1 << 30), 1]):
        ctx.label("polymod/out-of-domain")
        yield ("corr", "polymod", [vals])
        yield ("prop", "polymod_ref", [vals])
    for _ in range(ctx.n(40, 800)):
        vals = [r.randrange(32) for _ in range(r.randrange(1, 12))]
        vals[r.randrange(len(vals))] = r.choice([1, -1]) * r.randrange(1 << r.randrange(5, 45))
        ctx.label("polymod/out-of-domain")
        vals = vals + [r.randrange(32) for _ in range(r.randrange(0, 4))]
        yield ("corr", "polymod", [vals])
        yield ("prop", "polymod_ref", [vals])
    # ---- BCURSingle.parse / BCURMulti.parse of a complete message under every small x-of-y header
    grid = [(x, y) for x in range(-2, 4) for y in range(-2, 4)] + [(1, 10), (10, 10), (0, 1), (1, 99), (-7, 1), (2, 1)]
    for n in [0, 1, 23, 24, 40] + [r.randrange(0, 300) for _ in range(ctx.n(2, 30))]:
        payload = ctx.rbytes(n)
        enc, chk = ref_bc32(ref_cbor(payload)), ref_chk(payload)
        for (x, y) in grid:
            ctx.label("single-header/1of1" if (x, y) == (1, 1) else "single-header/one-of-them-is-1" if 1 in (x, y)
                      else "single-header/neither-is-1")
            up = int(r.random() < 0.2)
            yield ("prop", "single_header", [payload, x, y, up])
            yield ("corr", "single_parse", [[4, x, y, chk, enc]])
            yield ("corr", "multi_parse", [[[4, x, y, chk, enc]]])
            yield ("corr", "single_parse_str", [f"ur:bytes/{x}of{y}/{chk}/{enc}".encode()])
        # two complete copies / a complete message followed by a foreign second header
        for (x1, y1, x2, y2) in [(1, 2, 2, 2), (1, 1, 2, 1), (1, 0, 2, 0), (1, 1, 1, 1), (1, 2, 2, 3), (1, 3, 2, 2), (0, 2, 1, 2)]:
            half = len(enc) // 2
            yield ("corr", "multi_parse", [[[4, x1, y1, chk, enc[:half]], [4, x2, y2, chk, enc[half:]]]])
        # a first string without x-of-y (forms 2 / 3: x = y = 1, checksum None / given) followed by a numbered one
        for form in (2, 3):
            for (x2, y2) in [(2, 2), (2, 1), (1, 1), (2, 3)]:
                half = len(enc) // 2
                yield ("corr", "multi_parse", [[[form, 1, 1, chk, enc[:half]], [4, x2, y2, chk, enc[half:]]]])
            yield ("corr", "multi_parse", [[[form, 1, 1, chk, enc], [form, 1, 1, chk, enc]]])
    # ---- payloads of one repeated byte (leading zero bytes / first 5-bit group zero / all ones)
    for n in (1, 2, 5, 23, 24, 64):
        for b in (b"\x00", b"\xff", b"\x80", b"\x01"):
            ctx.label("payload/constant-bytes")
            yield ("prop", "bc32_rt", [b * n])
            yield ("prop", "cbor_rt", [b * n])
            yield ("prop", "multi_rt", [b * n, r.choice([1, 5, 300])])
            yield ("corr", "bc32encode", [b * n])
            yield ("corr", "bcur_encode", [b * n])
    # ---- default chunk size: payload sizes whose text length separates 300 from 299 and from 301
    cd = lambda a, b: -(-a // b)  # noqa: E731
    edge = [n for n in range(0, 1600) if cd(enc_len_of(n), 300) != cd(enc_len_of(n), 299)
            or cd(enc_len_of(n), 300) != cd(enc_len_of(n), 301)]
    near = sorted({m for n in edge[:6] for m in (n - 1, n + 1)} - set(edge))
    for n in (edge if ctx.tier != "quick" else edge[:14]) + near + [0, 100, 180, 181, 182, 183, 184]:
        L = enc_len_of(n)
        ctx.label("default-chunk/separates-299" if cd(L, 300) != cd(L, 299) else
                  "default-chunk/separates-301" if cd(L, 300) != cd(L, 301) else "default-chunk/other")
        payload = ctx.rbytes(n)
        yield ("prop", "default_chunk", [payload])
        yield ("corr", "multi_encode", [payload, 300, 1])
        yield ("corr", "multi_encode", [payload, 299, 1])
        yield ("corr", "multi_encode", [payload, 301, 1])
    # ---- the error class of the header parser, the type checks
    texts = ["ur:bytes/xof1//q", "ur:bytes/1ofx//q", "ur:bytes/xofy//q", "ur:bytes/xofx//q", "ur:bytes/of1//q", "ur:bytes/1of//q",
             "ur:bytes/of//q", "ur:bytes/1.0of2//q", "ur:bytes/1of2.0//q", "ur:bytes/0x1of2//q", "ur:bytes/1of0x2//q",
             "ur:bytes/ of1//q", "ur:bytes/1of //q", "ur:bytes/1_of2//q", "ur:bytes/1of_2//q", "ur:bytes/--1of2//q",
             "ur:bytes/1of--2//q", "ur:bytes/qof2//q", "ur:bytes/2ofq//q", "ur:bytes/1e1of20//q", "ur:bytes/1of1e1//q",
             "ur:bytes/" + "1" * 4301 + "of2//q", "ur:bytes/1of" + "1" * 4301 + "//q", "ur:bytes/xof1/" + "q" * 58 + "/q",
             "ur:bytes/1ofx/" + "q" * 58 + "/q", "ur:bytes/1of2//q", "ur:bytes/2of1//q", "ur:bytes/3of3/" + "q" * 58 + "/qq",
             "", "ur:bytes/", "ur:bytes/q", "ur:bytes/q/q/q/q", "ur:bytes/1of2of3//q", "ur:bytes/b", "ur:bytes/" + "q" * 57 + "/q"]
    payload = ctx.rbytes(30)
    whole = f"ur:bytes/1of1/{ref_chk(payload)}/{ref_bc32(ref_cbor(payload))}"
    for bad in ("x", "", " ", "q", "1.0", "0x1", "1_", "+", "-", "1e0", "one"):
        texts += [whole.replace("1of1", f"{bad}of1"), whole.replace("1of1", f"1of{bad}"), whole.replace("1of1", f"{bad}of{bad}")]
    for _ in range(ctx.n(40, 600)):
        tok = lambda: "".join(r.choice("0123456789" * 2 + "xq_+- .e") for _ in range(r.randrange(0, 4)))  # noqa: E731
        texts.append(whole.replace("1of1", tok() + "of" + tok()))
    for t in texts:
        ctx.label("header/error-class")
        yield ("prop", "helper_error_class", [t.encode()])
        yield ("corr", "parse_helper_str", [t.encode()])
        yield ("corr", "single_parse_str", [t.encode()])
        yield ("corr", "multi_parse_str", [[t.encode()]])
    for n in (0, 1, 30):
        ctx.label("types/strict")
        yield ("prop", "str_types_strict", [ctx.rbytes(n)])
    # ---- non-canonical CBOR wrappers with a right digest and a right bc32 checksum
    for n in [0, 1, 22, 23, 24, 25, 100, 255, 256, 300] + [r.randrange(0, 400) for _ in range(ctx.n(6, 100))]:
        payload = ctx.rbytes(n)
        for kind in range(4):
            extra = ctx.rbytes(r.choice([1, 1, 2, 5, 300]))
            y = r.choice([1, 1, 2, 3, 5])
            ctx.label("noncanonical-cbor/kind%d" % kind)
            yield ("prop", "noncanon", [payload, kind, extra, y])
            cbor = noncanon(payload, kind, extra)
            enc, chk, strings = noncanon_strings(cbor, y)
            yield ("corr", "cbor_decode", [cbor])
            yield ("corr", "bcur_decode", [enc.encode(), [chk.encode()]])
            yield ("corr", "single_parse", [[r.choice([2, 3, 4]), 1, 1, chk, enc]])
            yield ("corr", "multi_parse", [[unfmt(t) for t in strings]])
            yield ("corr", "multi_parse_str", [[t.encode() for t in strings]])
    # ---- constructors handed an encoding / a checksum, __repr__
    for n in [0, 1, 23, 24, 100] + [r.randrange(0, 300) for _ in range(ctx.n(5, 60))]:
        payload = ctx.rbytes(n)
        other = r.choice([payload + b"\x00", payload[:-1], ctx.rbytes(n), payload[:-1] + bytes([payload[-1] ^ 1]) if payload else b"\x01"])
        ctx.label("constructor/encoded-and-checksum-arguments")
        yield ("prop", "ctor", [payload, other])


def _txt(syms):
    return "".join(B32[s] for s in syms)


def _case_variants(t):
    """a lower-case text in every case class it can take: lower, upper and - from two letters on - mixed (one letter
    differing from the rest at the first / a middle / the last letter, data part and checksum part in different case)"""
    out = [t, t.upper()]
    L = [i for i, c in enumerate(t) if c.isalpha()]
    if len(L) >= 2:
        for j in (L[0], L[len(L) // 2], L[-1]):
            out.append(t[:j] + t[j].upper() + t[j + 1:])
            out.append(t[:j].upper() + t[j] + t[j + 1:].upper())
        out += [t[:-6] + t[-6:].upper(), t[:-6].upper() + t[-6:]]
    seen = []
    for v in out:
        if v not in seen:
            seen.append(v)
    return seen


def _with(base, positions, cls, n):
    return [cls if i in positions else base for i in range(n)]


def cbor_classes(n):
    """per-position symbol classes of the bc32 text of the CBOR wrapping of an n-byte payload: the header bits are
    fixed, the padding bits of the last symbol are zero; returns (classes, header length, positions touched by the header)"""
    h = ref_cbor(bytes(n))
    h = h[:len(h) - n]
    N = len(h) + n
    m = -(-8 * N // 5)
    p = 5 * m - 8 * N
    fixed = "".join(format(b, "08b") for b in h)
    cls = []
    for i in range(m):
        fb = fixed[5 * i:5 * i + 5]
        cls.append([s for s in range(32) if format(s, "05b").startswith(fb) and (i < m - 1 or s & ((1 << p) - 1) == 0)])
    return cls, len(h), -(-len(fixed) // 5), p


def charclass(ctx):
    """bc32 / BCUR texts by CHARACTER CLASS (digits only, letters only, one letter among digits, one digit among
    letters, two letters among digits) x case class (lower, upper, mixed) x length class (every symbol count mod 8,
    zero / non-zero padding), all constructed with a valid checksum; see the comment above grind()"""
    r = ctx.rng
    quick = ctx.tier == "quick"
    D, A = _DIG, _LET
    # ---- raw bc32 texts
    ms = (list(range(0, 17)) + [18, 20, 21, 23, 24, 26, 29, 32, 40, 45, 64, 93]) if quick else list(range(0, 131)) + [160, 400, 1600]
    for m in ms:
        p = 5 * m % 8                      # padding bits when the symbols are whole bytes (p < 5), else not whole bytes
        j = r.randrange(m) if m else 0
        j2 = r.randrange(m) if m else 0
        jc = r.randrange(6)
        specs = [("digits", [D] * m, [D] * 6), ("letters", [A] * m, [A] * 6),
                 ("one-letter-chk", [D] * m, _with(D, {jc}, A, 6)), ("two-letters-chk", [D] * m, _with(D, {jc, (jc + 1 + m % 5) % 6}, A, 6))]
        if m:
            specs += [("one-letter-data", _with(D, {jj}, A, m), [D] * 6) for jj in sorted({0, j, m - 1} if not quick else {(0, j, m - 1)[m % 3]})]
            specs += [("one-digit-data", _with(A, {j}, D, m), [A] * 6), ("one-digit-chk", [A] * m, _with(A, {jc}, D, 6)),
                      ("letter-in-data-and-chk", _with(D, {j}, A, m), _with(D, {jc}, A, 6))]
            if m > 1 and j != j2:
                specs.append(("two-letters-data", _with(D, {j, j2}, A, m), [D] * 6))
        if quick:                          # the digit-only / single-letter classes always, two of the others per length
            keep = ("digits", "letters", "one-letter-chk", "one-letter-data")
            rest = [sp for sp in specs if sp[0] not in keep]
            specs = [sp for sp in specs if sp[0] in keep] + r.sample(rest, min(2, len(rest)))
        for name, dcls, ccls in specs:
            variants = [("any", dcls)]
            if m and p < 5 and p:
                mask = (1 << p) - 1
                variants = [("zero-pad", dcls[:-1] + [[s for s in dcls[-1] if s & mask == 0]]),
                            ("nonzero-pad", dcls[:-1] + [[s for s in dcls[-1] if s & mask]])]
                if quick and name not in ("digits", "one-letter-chk", "one-letter-data"):
                    variants = [r.choice(variants)]
            for vname, cl in variants:
                g = grind(r, cl, ccls)
                if g is None:
                    ctx.label(f"charclass/bc32/no-such-text/{name}")
                    continue
                t = _txt(g)
                d = ref_bc32_dec(t)
                vs = _case_variants(t)
                for v in (vs if not quick or len(vs) < 5 else vs[:2] + r.sample(vs[2:], 2)):
                    ctx.label(f"charclass/bc32/{text_class(v)}/" + ("decodable" if ref_bc32_dec(v) is not None else
                                                                    "refused-mixed-case" if d is not None else "refused-not-whole-bytes"))
                    yield ("corr", "bc32decode", [v.encode()])
                    yield ("prop", "bc32_text", [v.encode()])
                if d is not None:
                    yield ("corr", "bc32encode", [d])
                    yield ("prop", "bc32_rt", [d])
                    yield ("prop", "convertbits_rt", [d])
                    if name in ("digits", "letters", "one-letter-chk") or not quick:
                        yield ("prop", "bc32_sub", [d, r.randrange(len(t))])
    # texts that only LOOK like a class member: digits that are not in the alphabet, a lone wrong symbol
    for t in ["1" * 6, "0" * 6, "2" * 6, "000000", "9" * 13, "98776268709", "03625989304", "98776268701", "98776268708",
              "9877626870", "987762687099", "27968439044904", "27968439044904 ", " 27968439044904", "2796843904490\xb2",
              "Q" * 6, "q2", "2q", "2Q", "2Qq", "q2Q", "Q2Q", "q2q", "2" * 5 + "q", "2" * 5 + "Q", "l" * 6, "L" * 6, "lL" * 3]:
        ctx.label("charclass/bc32/handmade")
        if all(ord(c) < 128 for c in t):
            yield ("corr", "bc32decode", [t.encode()])
        yield ("prop", "bc32_text", [t.encode("latin-1")])
    # ---- the BCUR string layer: payloads whose bc32 text (CBOR header included) falls into a class
    ns = (list(range(0, 27)) + [32, 100, 255, 256, 1000]) if quick else list(range(0, 301)) + [1000, 65535, 65536]
    for n in ns:
        cls, hl, hpos, p = cbor_classes(n)
        m = len(cls)
        cut = lambda base, free: [[s for s in c if i in free or s in base] for i, c in enumerate(cls)]  # noqa: E731
        head = set(range(hpos))
        j = r.randrange(hpos, m) if m > hpos else m - 1
        specs = [("digits", cut(D, ())), ("letters", cut(A, ())), ("digits-after-header", cut(D, head)),
                 ("digits-but-header-and-last", cut(D, head | {m - 1})), ("digits-but-last", cut(D, {m - 1})),
                 ("one-letter", cut(D, ())[:j] + [[s for s in cls[j] if s in A]] + cut(D, ())[j + 1:]),
                 ("letters-after-header", cut(A, head))]
        for name, cl in specs:
            ccls = [A] * 6 if name.startswith("letters") else [D] * 6
            g = grind(r, cl, ccls, prefixes=60)
            if g is None:
                ctx.label(f"charclass/bcur/no-such-text/{name}")
                continue
            enc = _txt(g)
            cb = ref_bc32_dec(enc)
            payload = cb[hl:]
            assert ref_cbor(payload) == cb and ref_bc32(cb) == enc, "generator: constructed text is not a CBOR wrapping"
            chk = ref_chk(payload)
            forms = [f"ur:bytes/{enc}", f"ur:bytes/{chk}/{enc}", f"ur:bytes/1of1/{chk}/{enc}"]
            y = r.choice([1, 2, 3, 5])
            parts = ref_parts_y(payload, -(-len(enc) // -(-len(enc) // min(y, len(enc)))))
            digity = not name.startswith("letters")
            for case in (range(5) if not quick else [0, 1, r.choice([2, 3, 4])] if digity else [r.randrange(5)]):
                ctx.label(f"charclass/bcur/payload-{text_class(enc).split('/')[0]}/case{case}")
                yield ("prop", "bcur_text", [payload, case, y])
                for s in (forms if case < 2 and digity else [r.choice(forms)]):
                    yield ("corr", "single_parse_str", [_case(s, case).encode()])
                yield ("corr", "parse_helper_str", [_case(r.choice(forms), case).encode()])
                yield ("corr", "multi_parse_str", [[_case(s, case).encode() for s in r.choice([parts, forms[:1], forms[1:2]])]])
            yield ("corr", "bc32decode", [enc.encode()])
            yield ("corr", "bc32decode", [enc.upper().encode()])
            yield ("prop", "bc32_text", [enc.encode()])
            yield ("prop", "bc32_text", [enc.upper().encode()])
            yield ("corr", "bcur_decode", [enc.encode(), []])
            yield ("corr", "bcur_decode", [r.choice([enc, enc.upper()]).encode(), [r.choice([chk, chk.upper()]).encode()]])
            yield ("corr", "bcur_encode", [payload])
            if r.random() < 0.5:
                yield ("corr", "single_encode_str", [payload, r.randrange(2)])
                yield ("corr", "multi_parse", [[unfmt(t) for t in parts]])
            else:
                yield ("corr", "multi_encode_str", [payload, max(1, -(-len(enc) // y)), 1])
                yield ("corr", "single_parse", [[r.choice([2, 3, 4]), 1, 1, chk, enc]])
            yield ("prop", "multi_rt", [payload, max(1, -(-len(enc) // y))])
            if name in ("digits", "letters", "one-letter"):
                yield ("prop", "single_header", [payload, 1, 1, r.randrange(2)])
                yield ("prop", "ctor", [payload, payload[:-1] + bytes([payload[-1] ^ 1]) if payload else b"\x01"])
                yield ("prop", "noncanon", [payload, 1, b"\x00", 1])
    # ---- header fields of every character class through _parse_bcur_helper (charset check of checksum and payload)
    dig, let = "".join(B32[i] for i in D), "".join(B32[i] for i in A)
    rs = lambda alphabet, k: "".join(r.choice(alphabet) for _ in range(k))  # noqa: E731
    chks = ["", rs(dig, 58), rs(let, 58), "2" * 58, "q" * 58, rs(dig, 57) + r.choice(let), r.choice(let) + rs(dig, 57), rs(B32, 58)]
    pays = ["", "2", "q", rs(dig, 5), rs(dig, 40), rs(let, 5), rs(let, 40), rs(dig, 7) + r.choice(let), r.choice(let) + rs(dig, 7),
            rs(dig, 3) + r.choice(let) + rs(dig, 3), rs(let, 3) + r.choice(dig) + rs(let, 3), rs(B32, 30)]
    # part numbers at the far end of the quantifier (a 70000-byte payload in chunks of 1 has 112014 parts) and beyond:
    # every x-of-y that int() reads is a header the parser has to accept
    for (x, y) in [(99999, 99999), (99999, 100000), (100000, 100000), (100000, 112014), (112014, 112014), (1, 112014),
                   (999999, 1000000), (12345678, 87654321), (1, 2 ** 31), (2 ** 32, 2 ** 32 + 1), (10 ** 18, 10 ** 18)]:
        ctx.label("far-end/part-numbers")
        yield ("prop", "helper_fields", [rs(B32, 58).encode(), rs(B32, 12).encode(), x, y, r.randrange(5)])
    for c in chks:
        for pl in pays:
            x, y = r.choice([(1, 1), (1, 2), (2, 2), (3, 7), (10, 10)])
            case = r.randrange(5)
            ctx.label(f"charclass/helper/checksum-{text_class(c).split('/')[0]}/payload-{text_class(pl).split('/')[0]}")
            yield ("prop", "helper_fields", [c.encode(), pl.encode(), x, y, case])
            s = _case(f"ur:bytes/{x}of{y}/{c}/{pl}", case)
            yield ("corr", "parse_helper_str", [s.encode()])
            yield ("corr", "multi_parse_str", [[s.encode()]])
            if c:
                yield ("corr", "parse_helper_str", [_case(f"ur:bytes/{c}/{pl}", case).encode()])
            yield ("corr", "parse_helper_str", [_case(f"ur:bytes/{pl}", case).encode()])
            yield ("corr", "single_parse_str", [_case(f"ur:bytes/{pl}", case).encode()])


def _l1(t):
    return t.encode("latin-1")


def entrypoints(ctx):
    """entry-point audit: lenient-decoder texts with compensation (e), parts that differ in an attribute (f), results /
    arguments used again (g), defaults and positional / keyword forms of every callable (a, b), CBOR wrapper matrix (c)"""
    r = ctx.rng
    quick = ctx.tier == "quick"
    ascii_ = lambda t: all(ord(c) < 128 for c in t)  # noqa: E731

    def readings(ch):
        base = [-1, 0, 31, 32, 33, 35, 63, 255, -2, 1 << 30, ord(ch), ord(ch) - 48, ord(ch) - 97, ord(ch) & 31]
        return base if not quick else [-1, 0, 32] + r.sample(base[2:], 3)
    # ---- (e) bc32 layer: a foreign character read as u, neighbours compensated
    for nbytes in ((5, 10, 16) if quick else (1, 4, 5, 8, 10, 15, 16, 25, 40)):
        for ch in FOREIGN:
            data = ref_conv(ctx.rbytes(nbytes), 8, 5, True)
            m = len(data)
            for pos in sorted({r.randrange(m), m - 1, m, m + r.randrange(1, 5), m + 5}):
                for u in readings(ch):
                    vals = compensate(r, data, pos, u)
                    part = "data" if pos < m else "checksum"
                    if vals is None:
                        ctx.label(f"foreign/bc32/no-such-text/{part}/read-as-{'-1' if u == -1 else 'sym' if 0 <= u < 32 else 'wide'}")
                        continue
                    ctx.label(f"foreign/bc32/{part}-part/read-as-{'-1' if u == -1 else 'symbol' if 0 <= u < 32 else 'wide-or-negative'}")
                    t = _sym_text(vals, pos, ch)
                    yield ("prop", "bc32_text", [_l1(t)])
                    if ascii_(t):
                        yield ("corr", "bc32decode", [t.encode()])
                        if r.random() < 0.3:
                            yield ("corr", "bc32decode", [t.upper().encode()])
    # ---- (e) BCUR layer: the lenient reading is a CBOR wrapping of other data, the digest field is right for it
    for n in ((8, 30, 100, 300) if quick else (6, 8, 20, 23, 24, 30, 100, 255, 256, 300, 1000)):
        payload = ctx.rbytes(n)
        cb = ref_cbor(payload)
        data = ref_conv(cb, 8, 5, True)
        m, hpos = len(data), -(-8 * (len(cb) - n) // 5)
        for ch in (r.sample(FOREIGN, 4) if quick else FOREIGN):
            spots = [(m + j, u) for j in (0, r.randrange(1, 5), 5) for u in ([-1, 32] if quick else [-1, 32, 33, -2, 255])]
            spots += [(r.randrange(hpos, m), u) for u in (0, 31, 15)]
            for pos, u in spots:
                vals = compensate(r, data, pos, u, keep=hpos)
                if vals is None:
                    ctx.label("foreign/bcur/no-such-text")
                    continue
                seen = list(vals[:m])
                if pos < m:
                    seen[pos] = u & 31
                chk = ref_bc32(hashlib.sha256(_sym_bytes(seen)).digest())
                t = _sym_text(vals, pos, ch)
                y = r.choice([1, 2, 3, 5])
                ctx.label("foreign/bcur/compensated-in-checksum-part" if pos >= m else "foreign/bcur/read-as-symbol-in-data-part")
                yield ("prop", "foreign_fields", [_l1(chk), _l1(t), y])
                if ascii_(t):
                    yield ("corr", "bcur_decode", [t.encode(), [chk.encode()]])
                    yield ("corr", "bcur_decode", [t.encode(), []])
                    yield ("corr", "multi_parse_str", [[f"ur:bytes/1of1/{chk}/{t}".encode()]])
                    yield ("corr", "single_parse_str", [f"ur:bytes/{chk}/{t}".encode()])
    # ---- (e) look-alike tables: a legal character replaced by the foreign one such a table reads as it
    for n in ((0, 10, 40, 200) if quick else (0, 1, 10, 23, 24, 40, 100, 200, 256, 600)):
        payload = ctx.rbytes(n)
        enc, chk = ref_bc32(ref_cbor(payload)), ref_chk(payload)
        for legal, subs in LOOKALIKE.items():
            for field, text in ((1, enc), (0, chk)):
                where = [i for i, c in enumerate(text) if c == legal]
                where = sorted({where[0], where[-1], r.choice(where)}) if where else []
                for i in where:
                    for sub in subs:
                        t = text[:i] + sub + text[i + 1:]
                        for up in ((0, 1) if not quick else (r.randrange(2),)):
                            c2, p2 = (chk, t) if field else (t, enc)
                            if up:
                                c2, p2 = c2.upper(), p2.upper()
                            ctx.label("foreign/look-alike/" + ("payload-text" if field else "checksum-field"))
                            yield ("prop", "foreign_fields", [_l1(c2), _l1(p2), r.choice([1, 2, 3])])
                            if r.random() < 0.25 and ascii_(c2 + p2):
                                yield ("corr", "multi_parse_str", [[f"ur:bytes/1of1/{c2}/{p2}".encode()]])
                                yield ("corr", "bcur_decode", [p2.encode(), [c2.encode()]])
    # ---- a right payload text under a wrong digest field (damaged, prefix-equal, shorter / longer, of other bytes)
    for n in ((0, 1, 24, 100) if quick else (0, 1, 23, 24, 60, 100, 255, 256, 500)):
        payload = ctx.rbytes(n)
        enc = ref_bc32(ref_cbor(payload))
        for variant in range(8):
            for pos in ((r.randrange(58),) if variant else sorted({0, 51, 52, 57, r.randrange(58)})):
                ctx.label("digest-field/variant%d" % variant)
                y = r.choice([1, 2, 3])
                yield ("prop", "digest_field", [payload, variant, pos, y])
                bad = digest_variant(payload, variant, pos)
                yield ("corr", "bcur_decode", [enc.encode(), [bad.encode()]])
                yield ("corr", "multi_parse_str", [[f"ur:bytes/1of1/{bad}/{enc}".encode()]])
                yield ("corr", "single_parse_str", [f"ur:bytes/{bad.upper()}/{enc.upper()}".encode()])
    # ---- the charset test called directly, and what the header parser hands on
    dig, let = "".join(B32[i] for i in _DIG), "".join(B32[i] for i in _LET)
    texts = ["", "q", "Q", "qQ", dig, let, let.upper(), B32, B32.upper(), "q" * 58, "2" * 58]
    for ch in FOREIGN + WS + "\x7f\x85\xa0\xb5\xdf/:ABIO":
        for k in (1, 5, 58):
            base = "".join(r.choice(B32) for _ in range(k))
            for i in sorted({0, k // 2, k - 1}):
                texts.append(base[:i] + ch + base[i + 1:])
            texts.append(base + ch)
        texts += [ch, ch * 3]
    # a regex `$` also matches before ONE trailing newline (fixed: 82bf818): newline and its siblings at either end / inside
    for k in (0, 1, 57, 58):
        base = "".join(r.choice(B32) for _ in range(k))
        for nl in ("\n", "\r", "\x0b", "\x0c", "\r\n", "\n\n", "\x1c", "\x85"):
            texts += [base + nl, nl + base, base[:k // 2] + nl + base[k // 2:], base.upper() + nl]
    for t in texts:
        ctx.label("charset/" + ("legal" if all(_legal(c) for c in t) else "trailing-newline" if t.endswith("\n") and
                                all(_legal(c) for c in t[:-1]) else "foreign"))
        yield ("prop", "charset", [_l1(t)])
        if ascii_(t) and r.random() < (0.3 if quick else 1):
            yield ("corr", "parse_helper_str", [f"ur:bytes/{t}".encode()])
            if len(t) == 58:
                yield ("corr", "parse_helper_str", [f"ur:bytes/1of2/{t}/q".encode()])
    # ---- (f) the part that differs is the first / the second / the last one
    for _ in range(ctx.n(6, 60)):
        n = r.randrange(30, 200)
        payload, other = ctx.rbytes(n), ctx.rbytes(n)
        chunk = r.choice([10, 25, 60])
        y = len(ref_parts(payload, chunk))
        for idx in sorted({0, 1, y - 1}):
            for kind in range(5):
                ctx.label("tamper/position-" + ("first" if idx == 0 else "last" if idx == y - 1 else "second"))
                yield ("prop", "multi_tamper", [payload, other, chunk, idx, kind, r.choice([0, 1, 2, y - 1, y + 1, 99])])
    # ---- (f) parts of unequal length (one character, empty), every part in its own case / white space
    for k in range(ctx.n(40, 500)):
        n = r.choice([0, 1, 5, 23, 24, 60, r.randrange(0, 300)])
        payload = ctx.rbytes(n)
        L = enc_len_of(n)
        ncuts = r.choice([0, 1, 1, 2, 3, 4, 6])
        cuts = [r.choice([0, 1, L - 1, L, r.randrange(L + 1), r.randrange(L + 1)]) for _ in range(ncuts)]
        if k % 5 == 0 and cuts:
            cuts.append(cuts[0])                                  # an empty piece in the middle
        cases = r.choice([[0, 1], [1, 0], [0, 0, 1], [1, 1, 0], [2, 3], [4, 0], [r.randrange(5) for _ in range(7)], [0], [1]])
        ws = r.choice([0, 0, r.randrange(1, 10)])
        ctx.label("free-parts/" + ("empty-piece" if len(set(cuts)) < len(cuts) or 0 in cuts or L in cuts else "unequal-pieces")
                  + ("/per-part-case" if len(set(cases)) > 1 and ncuts else ""))
        yield ("prop", "multi_free", [payload, cuts, cases, ws])
        strings = free_strings(payload, cuts, cases, ws)[0]
        yield ("corr", "multi_parse_str", [[s.encode() for s in strings]])
        if len(strings) > 1 and r.random() < 0.5:                 # and one of them damaged / moved
            j = r.randrange(len(strings))
            bad = list(strings)
            if r.random() < 0.5:
                bad[j] = _flip(bad[j].rstrip(WS), r.randrange(1000), r.randrange(1, 31))
            else:
                bad[j], bad[j - 1] = bad[j - 1], bad[j]
            yield ("corr", "multi_parse_str", [[s.encode() for s in bad]])
    # ---- (c) the number of strings against the y they announce (parse() does not count: the model decides)
    for n in (0, 5, 40, 200):
        payload = ctx.rbytes(n)
        enc, chk = ref_bc32(ref_cbor(payload)), ref_chk(payload)
        for k in (1, 2, 3):
            cl = -(-len(enc) // k)
            pieces = [enc[i * cl:(i + 1) * cl] for i in range(k)]
            for y in (k + 1, k + 5, k):
                ctx.label("count-vs-y/" + ("complete-text-under-larger-y" if y > k else "exact"))
                yield ("corr", "multi_parse_str", [[f"ur:bytes/{i + 1}of{y}/{chk}/{pc}".encode() for i, pc in enumerate(pieces)]])
                yield ("corr", "multi_parse", [[[4, i + 1, y, chk, pc] for i, pc in enumerate(pieces)]])
            ctx.label("count-vs-y/empty-last-part-present-or-dropped")
            yield ("corr", "multi_parse_str", [[f"ur:bytes/{i + 1}of{k + 1}/{chk}/{pc}".encode() for i, pc in enumerate(pieces + [""])]])
            yield ("corr", "multi_parse_str", [[f"ur:bytes/{i + 1}of{k + 1}/{chk}/{pc}".encode() for i, pc in enumerate([""] + pieces)]])
    # ---- (a, b, g) defaults, positional / keyword forms, results and arguments used again
    for n in [0, 1, 22, 23, 24, 100, 255, 256, 400, 1000] + [r.randrange(0, 500) for _ in range(ctx.n(6, 80))]:
        payload = ctx.rbytes(n)
        other = r.choice([payload + b"\x00", payload[:-1], ctx.rbytes(n), payload[:-1] + bytes([payload[-1] ^ 1]) if payload else b"\x01"])
        L = enc_len_of(n)
        chunk = max(1, r.choice([1 if L < 300 else 7, 7, 50, 300, L - 1, L, L + 1, L // 2, r.randrange(1, L + 2)]))
        if L // chunk > 300:
            chunk = L // 40
        ctx.label("entry/defaults-positional-keyword-reuse")
        yield ("prop", "entry", [payload, other, chunk])
    # ---- (c) CBOR wrappers: prefix width x declared length x bytes present
    for declared in (0, 1, 2, 22, 23, 24, 255, 256, 300):
        heads = [bytes([0x58, declared & 0xff]), b"\x59" + declared.to_bytes(2, "big"), b"\x60" + declared.to_bytes(4, "big")]
        if declared <= 23:
            heads.append(bytes([0x40 + declared]))
        for h in heads:
            d = declared & 0xff if h[0] == 0x58 else declared
            for present in sorted({0, max(0, d - 1), d, d + 1, d + 7}):
                ctx.label("cbor-matrix/" + ("declared-0-bytes-present" if d == 0 and present else
                                            "short" if present < d else "exact" if present == d else "trailing"))
                data = h + ctx.rbytes(present)
                yield ("prop", "cbor_dec", [data])
                yield ("corr", "cbor_decode", [data])
    for h in (b"", b"\x58", b"\x59", b"\x59\x01", b"\x60", b"\x60\x00", b"\x60\x00\x00\x01", b"\x5a\x00\x00\x00\x01q", b"\x57", b"\x40",
              b"\x3f", b"\x61\x00", b"\x78\x01q", b"\x5f", b"\xff"):
        ctx.label("cbor-matrix/truncated-or-foreign-head")
        yield ("prop", "cbor_dec", [h])
        yield ("corr", "cbor_decode", [h])
    for n in (0, 1, 5, 23, 24, 100, 255):
        payload = ctx.rbytes(n)
        for kind in (4, 5):
            extra = ctx.rbytes(r.choice([1, 3, 30]))
            y = r.choice([1, 2, 3])
            ctx.label("noncanonical-cbor/kind%d" % kind)
            yield ("prop", "noncanon", [payload, kind, extra, y])
            enc, chk, strings = noncanon_strings(noncanon(payload, kind, extra), y)
            yield ("corr", "bcur_decode", [enc.encode(), [chk.encode()]])
            yield ("corr", "multi_parse_str", [[t.encode() for t in strings]])
            yield ("corr", "single_parse_str", [f"ur:bytes/{chk}/{enc}".encode()])


def generate(ctx):
    r = ctx.rng
    # ---------------- CBOR
    lens = list(range(0, 40)) + [254, 255, 256, 257, 300, 65534, 65535, 65536, 65537, 70000]
    if ctx.tier != "quick":
        lens += list(range(40, 301))
    for n in lens:
        d = ctx.rbytes(n) if n < 1000 else bytes([r.randrange(256)]) * n
        ctx.label("cbor/" + ("<=23" if n <= 23 else "<=255" if n <= 255 else "<=65535" if n <= 65535 else ">65535"))
        yield ("corr", "cbor_encode", [d])
        yield ("prop", "cbor_rt", [d])
        e = ref_cbor(d)
        yield ("corr", "cbor_decode", [e])
        if n < 400:
            yield ("corr", "cbor_decode", [e[: r.randrange(0, len(e) + 1)]])     # silent short read
            yield ("corr", "cbor_decode", [e + ctx.rbytes(r.randrange(1, 4))])    # trailing bytes
    for first in list(range(0x3e, 0x62)) + [0, 0xff, 0x5a, 0x5b, 0x78, 0x98]:
        for tail in (0, 1, 2, 3, 4, 5, 30):
            yield ("corr", "cbor_decode", [bytes([first]) + ctx.rbytes(tail)])
    yield ("corr", "cbor_decode", [b""])
    # ---------------- convertbits
    for _ in range(ctx.n(200, 5000)):
        d = ctx.rbytes(r.randrange(0, 60))
        yield ("corr", "convertbits", [list(d), 8, 5, 1])
        yield ("prop", "convertbits_rt", [d])
        five = [r.randrange(32) for _ in range(r.randrange(0, 60))]
        yield ("corr", "convertbits", [five, 5, 8, 0])
        yield ("corr", "convertbits", [five, 5, 8, 1])
        yield ("corr", "convertbits", [ref_conv(d, 8, 5, True), 5, 8, 0])
        fb, tb = r.randrange(1, 13), r.randrange(1, 13)
        vals = [r.randrange(1 << fb) for _ in range(r.randrange(0, 20))]
        if r.random() < 0.2 and vals:
            vals[r.randrange(len(vals))] = r.choice([-1, 1 << fb, (1 << fb) + 5])
        yield ("corr", "convertbits", [vals, fb, tb, r.randrange(2)])
    for n in range(0, 41):
        yield ("prop", "convertbits_rt", [ctx.rbytes(n)])
        yield ("prop", "convertbits_rt", [b"\xff" * n])
    # ---------------- bc32
    strings = []
    for n in list(range(0, 71)) + [255, 256, 1000]:
        d = ctx.rbytes(n)
        yield ("corr", "bc32encode", [d])
        yield ("prop", "bc32_rt", [d])
        s = ref_bc32(d)
        strings.append((d, s))
        yield ("corr", "bc32decode", [s.encode()])
        yield ("corr", "bc32decode", [s.upper().encode()])
        yield ("corr", "bc32decode", [s.capitalize().encode()])
        yield ("corr", "bc32decode", [s[: r.randrange(0, len(s))].encode()])
        p = r.randrange(len(s))
        yield ("corr", "bc32decode", [(s[:p] + r.choice(B32 + "1b A") + s[p + 1:]).encode()])
    for s in ["", "q", "qqqqqq", "Q", "0", "00", "0Q", "q0", "Q0", "qQ", "12", "1", " ", "qqqqqqq"]:
        yield ("corr", "bc32decode", [s.encode()])
    for _ in range(ctx.n(100, 3000)):
        # valid checksum over arbitrary 5-bit data: exercises the padding rules of the 5->8 step
        dd = [r.randrange(32) for _ in range(r.randrange(0, 20))]
        if r.random() < 0.5 and dd:
            dd[-1] &= r.choice([0, 16, 24, 28, 30])
        pm = ref_polymod([0] + dd + [0] * 6) ^ 0x3fffffff
        s = "".join(B32[x] for x in dd + [(pm >> 5 * (5 - i)) & 31 for i in range(6)])
        ctx.label("bc32/valid-checksum-arbitrary-symbols")
        yield ("corr", "bc32decode", [s.encode()])
    for (d, s) in r.sample(strings, ctx.n(8, 74)):
        for pos in range(len(s)):
            ctx.label("bc32/substitution-positions")
            yield ("prop", "bc32_sub", [d, pos])
    # ---------------- bcur_encode / bcur_decode
    for _ in range(ctx.n(60, 1500)):
        d = ctx.rbytes(r.choice([0, 1, 23, 24, 100, 255, 256, r.randrange(0, 400)]))
        yield ("corr", "bcur_encode", [d])
        enc, chk = ref_bc32(ref_cbor(d)), ref_chk(d)
        other = ref_chk(d + b"x")
        yield ("corr", "bcur_decode", [enc.encode(), []])
        yield ("corr", "bcur_decode", [enc.encode(), [chk.encode()]])
        yield ("corr", "bcur_decode", [enc.encode(), [other.encode()]])
        yield ("corr", "bcur_decode", [enc.encode(), [r.choice([b"", b"q", chk[:-1].encode(), enc.encode()])]])
        yield ("corr", "bcur_decode", [enc[:-1].encode(), [chk.encode()]])
        # a bc32 string whose content is not CBOR
        raw = ref_bc32(ctx.rbytes(r.randrange(0, 30)))
        yield ("corr", "bcur_decode", [raw.encode(), []])
    # ---------------- single / multi
    big = [65500, 65535, 65536, 70000] if ctx.tier == "quick" else [60000, 65512, 65535, 65536, 65537, 69999, 70000]
    sizes = [0, 1, 2, 22, 23, 24, 25, 100, 254, 255, 256, 257, 1000] + [r.randrange(0, 3000) for _ in range(ctx.n(40, 600))]
    cases = []
    for n in sizes + big:
        payload = ctx.rbytes(n) if n < 5000 else ctx.rbytes(64) * (n // 64) + ctx.rbytes(n % 64)
        enc_len = len(ref_bc32(ref_cbor(payload)))
        chunk = r.choice([1, 2, 3, 7, 50, 299, 300, 301, 1999, 2000, enc_len - 1, enc_len, enc_len + 1,
                          r.randrange(1, 2001), r.randrange(1, 2001)])
        if n >= 5000:
            chunk = r.choice([300, 2000, 1999, r.randrange(200, 2001)])
        chunk = max(1, chunk)
        ctx.label("multi/payload" + ("<=23" if n <= 23 else "<=255" if n <= 255 else "<=65535" if n <= 65535 else ">65535"))
        ctx.label("multi/chunk" + ("=1" if chunk == 1 else "<len" if chunk < enc_len else ">=len"))
        yield ("corr", "multi_encode", [payload, chunk, 1])
        yield ("prop", "multi_rt", [payload, chunk])
        parts = ref_fields(payload, chunk)
        if len(parts) <= 3000:
            yield ("corr", "multi_parse", [parts])
        cases.append((payload, chunk, len(parts)))
        if n < 3000:
            yield ("corr", "multi_encode", [payload, chunk, 0])
            for uc in (0, 1):
                yield ("corr", "single_encode", [payload, uc])
                yield ("corr", "single_parse", [unfmt(ref_single(payload, uc))])
    # chunk sizes: all of 1..2000 over the run (thorough), a spread in the quick tier
    payload = ctx.rbytes(700)
    for chunk in (range(1, 2001) if ctx.tier != "quick" else list(range(1, 40)) + [r.randrange(40, 2001) for _ in range(40)]):
        yield ("prop", "multi_rt", [payload if chunk > 20 else payload[:60], chunk])
    for chunk in (0, -1, -5, -300, -100000):
        yield ("corr", "multi_encode", [payload[:40], chunk, 1])
    # all permutations and omissions for <= 5 parts
    for y in (1, 2, 3, 4, 5):
        for rep in range(ctx.n(1, 6)):
            payload = ctx.rbytes(r.randrange(20, 120))
            enc_len = len(ref_bc32(ref_cbor(payload)))
            chunk = -(-enc_len // y)
            if len(ref_parts(payload, chunk)) != y:
                continue
            sels = []
            for k in range(0, y + 1):
                sels += [list(p) for p in itertools.permutations(range(y), k)]
            sels += [[0] * 2, list(range(y)) + [y - 1], list(range(y)) + [0], [0, 0] + list(range(1, y))]
            parts = ref_fields(payload, chunk)
            for sel in sels:
                ctx.label("select/identity" if sel == list(range(y)) else
                          "select/trailing-parts-missing" if sel == list(range(len(sel))) else
                          "select/permuted-or-duplicated")
                yield ("prop", "multi_select", [payload, chunk, sel])
                if r.random() < 0.15:
                    yield ("corr", "multi_parse", [[parts[i] for i in sel]])
    # tampering
    for _ in range(ctx.n(60, 1500)):
        n = r.randrange(10, 300)
        payload, other = ctx.rbytes(n), ctx.rbytes(n)
        chunk = r.choice([10, 25, 60, 300, 2000])
        idx = r.randrange(0, 50)
        for kind in range(5):
            val = r.choice([0, 1, 2, 3, 99, idx % 7])
            ctx.label("tamper/kind%d" % kind)
            yield ("prop", "multi_tamper", [payload, other, chunk, idx, kind, val])
        parts = ref_fields(payload, chunk)
        oparts = ref_fields(other, chunk)
        i = idx % len(parts)
        mixed = [list(p) for p in parts]
        mixed[i] = list(oparts[i])
        yield ("corr", "multi_parse", [mixed])
        mixed[i][3] = parts[i][3]
        yield ("corr", "multi_parse", [mixed])
        wrongy = [list(p) for p in parts]
        wrongy[i][2] += r.choice([1, -1, 5])
        yield ("corr", "multi_parse", [wrongy])
        # malformed header fields
        odd = [list(p) for p in parts]
        odd[i][r.choice([0, 1, 2])] = r.choice([0, 1, 2, 3, 4, 5, -1])
        yield ("corr", "multi_parse", [odd])
        odd = [list(p) for p in parts]
        odd[i][3] = r.choice(["", odd[i][3][:-1], odd[i][3] + "q", odd[i][3].upper(), "b" * 58])
        yield ("corr", "multi_parse", [odd])
        odd = [list(p) for p in parts]
        odd[i][4] = r.choice(["", odd[i][4].upper(), odd[i][4][:-1], odd[i][4] + "b", "1"])
        yield ("corr", "multi_parse", [odd])
        yield ("corr", "single_parse", [odd[i]])
        yield ("corr", "single_parse", [[r.choice([2, 3, 4]), 1, 1, parts[0][3], "".join(p[4] for p in parts)]])
        yield ("corr", "multi_parse", [[[r.choice([2, 3]), 1, 1, parts[0][3], "".join(p[4] for p in parts)]]])
    yield ("corr", "multi_parse", [[]])
    # every single-character substitution of sampled parts
    for (payload, chunk, y) in r.sample([c for c in cases if len(c[0]) < 400 and c[2] <= 12], ctx.n(4, 40)):
        parts = ref_parts(payload, chunk)
        for idx in (range(y) if ctx.tier != "quick" else r.sample(range(y), min(y, 2))):
            for pos in range(len(parts[idx])):
                ctx.label("part-substitution/header" if pos < parts[idx].rfind("/") else "part-substitution/payload")
                yield ("prop", "part_sub", [payload, chunk, idx, pos])
    # ---------------- the string layer (strip / split / int() / f-strings), model vs implementation on real strings
    yield from string_layer(ctx)
    # ---------------- classes added by the mutation triage
    yield from hardening(ctx)
    # ---------------- bc32 / BCUR texts by character class (digits only, letters only, one letter, case classes)
    yield from charclass(ctx)
    # ---------------- entry-point audit: lenient decoders with compensation, differing parts, reuse, defaults, CBOR matrix
    yield from entrypoints(ctx)
    # ---------------- histories: long-lived BCUR objects, parse / codecs called repeatedly on nearly equal payloads
    yield from histories(ctx)
