"""C16 — wsh(sortedmulti) output descriptors: checksum, text round trip, address derivation."""
import hashlib
import hmac
import itertools

import gen_coq_c16

gen_coq_c16.main()   # coq/Generated/DescConsts.v from descriptor.py as it is now (rewritten only on change)

from buidl import descriptor, hd                         # noqa: E402
from buidl.descriptor import P2WSHSortedMulti            # noqa: E402
from buidl.hd import HDPrivateKey, HDPublicKey           # noqa: E402
from buidl.script import WitnessScript                   # noqa: E402

PID = "C16"
BUDGET_S = {"quick": 900, "thorough": 3300}
RULE = ("Wallets 1<=m<=n<=6 (quick: n<=4) over keys derived from random seeds at m/48'/c'/0'/2' on mainnet and "
        "testnet, xpub/tpub and every SLIP-132 public version the library knows; all permutations of the key "
        "records for n<=4 (sampled above); account indexes and offsets from {0,1,2^31-2,2^31-1,random}; both "
        "branches; checksum texts over the whole input charset of every length class mod 3 plus texts with "
        "foreign characters; every single-character substitution (94 replacement characters) at every position "
        "of sampled descriptors, body and checksum; malformed records (bad fingerprint/path/xpub/network mix/"
        "threshold/checksum).")
RULE += (" Reuse: descriptor objects kept alive and asked get_address for (offset, branch, sort_keys) in different orders "
         "and twice in a row, alternately on two wallets, with in-place edits of quorum_m / key_records / network in "
         "between; checksum and parse called in sequences on related texts; one HDPublicKey asked for several children; "
         "constructor/get_address leave their arguments untouched.")
RULE += (" Text layer: int() on sign/underscore/blank/4300-digit edge texts and random texts; split/join; the key-record regex and "
         "parse_partial/full/any_key_record on printed key records and ~40 damaged variants each (star after the fingerprint, "
         "doubled/missing brackets, line feeds, index spellings '+0' ' 0' '0_0' '-1' 2^31, 4300/4301 digits) plus random single-"
         "character damage; the outer full-match regex on texts assembled from its pieces; P2WSHSortedMulti.parse on sampled "
         "descriptors with/without checksum, padded with white space, with escaped slashes, wrapped in the Specter JSON account map "
         "(valid, wrong checksum, missing/non-string field, malformed JSON), with every kind of damaged separator / checksum / "
         "trailing and leading text, non-canonical m and index spellings, and random single-character substitutions; "
         "is_valid_bip32_path on ~60 edge paths (255/256 components, 4300/4301 digits, blanks, underscores, signs) and random paths.")
TRUSTED = ["hashlib / hmac (sha256, hmac-sha512, ripemd160 are not part of the repository)",
           "is_valid_bip32_path, HDPublicKey.parse/child/sec/xpub, Base58 and Bech32 belong to C08/C09; here their "
           "results enter the model as tables computed by the implementation and the predicates compare against an "
           "independent BIP32/secp256k1/Base58/Bech32 written in this harness",
           "json.loads (the Specter-Desktop account-map branch of P2WSHSortedMulti.parse) is an external function of the model: "
           "its result enters as a value computed by Python; Python's `re` is NOT trusted — both regular expressions are "
           "modelled in Gallina (Model/DescriptorText.v) and compared with re.match / re.fullmatch on the literal patterns, which "
           "the harness asserts to be the ones in the source",
           "during the substitution sweep only, HDPublicKey.child is memoised (same function, cached) to keep the "
           "sweep affordable; every other predicate and all correspondence cases run the unmodified library"]
ASSUMPTIONS = ["str.lower() maps no character other than A-F into [a-f] (is_valid_xfp_hex model)",
               "the text layer (int(), str.strip(), str.lower(), the regular expressions) is modelled for ASCII text: int() and "
               "strip() also accept Unicode digits / blanks, which are outside the descriptor charset, so calc_core_checksum rejects "
               "any constructor text containing them; CPython >= 3.11 (4300-digit limit of int() / str(int))",
               "account_index and quorum_m below 10^4300 in absolute value (beyond that f'{n}' itself raises; the constructor now "
               "bounds both anyway)",
               "texts in correspondence cases are ASCII or UTF-8 encodable; a non-ASCII code point is outside the "
               "descriptor charset for model and implementation alike"]

NETNUM = {"mainnet": 0, "testnet": 1}
NETS = ["mainnet", "testnet"]
INPUT_CHARSET = ("0123456789()[],'/*abcdefgh@:$%{}"
                 "IJKLMNOPQRSTUVWXYZ&+-.;<=>?!^_|~"
                 "ijklmnopqrstuvwxyzABCDEFGH`#\"\\ ")
CHECKSUM_CHARSET = "qpzry9x8gf2tvdw0s3jn54khce6mua7l"


def _s(b):
    return b.decode("utf-8", "surrogatepass") if isinstance(b, (bytes, bytearray)) else b


# ------------------------------------------------------------------ independent references

def ref_polymod(c, val):
    """Bitcoin Core PolyMod (uint64_t arithmetic)."""
    c0 = (c >> 35) & 0xFF
    c = (((c & 0x7FFFFFFFF) << 5) & 0xFFFFFFFFFFFFFFFF) ^ val
    for i, g in enumerate((0xF5DEE51989, 0xA9FDCA3312, 0x1BAB10E32D, 0x3706B1677A, 0x644D626FFD)):
        if (c0 >> i) & 1:
            c ^= g
    return c


def ref_checksum(s):
    """Bitcoin Core DescriptorChecksum; "" for a character outside the input charset."""
    c, cls, clscount = 1, 0, 0
    for ch in s:
        pos = INPUT_CHARSET.find(ch)
        if pos < 0 or len(ch) != 1:
            return ""
        c = ref_polymod(c, pos & 31)
        cls = cls * 3 + (pos >> 5)
        clscount += 1
        if clscount == 3:
            c = ref_polymod(c, cls)
            cls = clscount = 0
    if clscount:
        c = ref_polymod(c, cls)
    for _ in range(8):
        c = ref_polymod(c, 0)
    c ^= 1
    return "".join(CHECKSUM_CHARSET[(c >> (5 * (7 - j))) & 31] for j in range(8))


B58 = "123456789ABCDEFGHJKLMNPQRSTUVWXYZabcdefghijkmnopqrstuvwxyz"


def ref_b58check_decode(s):
    n = 0
    for ch in s:
        n = n * 58 + B58.index(ch)
    pad = len(s) - len(s.lstrip("1"))
    raw = b"\x00" * pad + n.to_bytes((n.bit_length() + 7) // 8, "big")
    body, chk = raw[:-4], raw[-4:]
    if hashlib.sha256(hashlib.sha256(body).digest()).digest()[:4] != chk:
        raise ValueError("base58 checksum")
    return body


def ref_b58check_encode(body):
    raw = body + hashlib.sha256(hashlib.sha256(body).digest()).digest()[:4]
    n = int.from_bytes(raw, "big")
    out = ""
    while n:
        n, r = divmod(n, 58)
        out = B58[r] + out
    return "1" * (len(raw) - len(raw.lstrip(b"\x00"))) + out


P = 2 ** 256 - 2 ** 32 - 977
N = 0xFFFFFFFFFFFFFFFFFFFFFFFFFFFFFFFEBAAEDCE6AF48A03BBFD25E8CD0364141
G = (0x79BE667EF9DCBBAC55A06295CE870B07029BFCDB2DCE28D959F2815B16F81798,
     0x483ADA7726A3C4655DA4FBFC0E1108A8FD17B448A68554199C47D08FFB10D4B8)


def ec_add(a, b):
    if a is None:
        return b
    if b is None:
        return a
    if a[0] == b[0]:
        if (a[1] + b[1]) % P == 0:
            return None
        lam = 3 * a[0] * a[0] * pow(2 * a[1], -1, P) % P
    else:
        lam = (b[1] - a[1]) * pow(b[0] - a[0], -1, P) % P
    x = (lam * lam - a[0] - b[0]) % P
    return x, (lam * (a[0] - x) - a[1]) % P


def ec_mul(k, pt):
    acc = None
    while k:
        if k & 1:
            acc = ec_add(acc, pt)
        pt = ec_add(pt, pt)
        k >>= 1
    return acc


def sec_parse(b):
    x = int.from_bytes(b[1:], "big")
    y = pow((x ** 3 + 7) % P, (P + 1) // 4, P)
    if (y & 1) != (b[0] & 1):
        y = P - y
    return x, y


def sec_ser(pt):
    return bytes([2 + (pt[1] & 1)]) + pt[0].to_bytes(32, "big")


def ref_ckd_pub(chain, sec, index):
    i = hmac.new(chain, sec + index.to_bytes(4, "big"), hashlib.sha512).digest()
    il = int.from_bytes(i[:32], "big")
    if il >= N:
        raise ValueError("IL >= n")
    pt = ec_add(ec_mul(il, G), sec_parse(sec))
    if pt is None:
        raise ValueError("infinity")
    return i[32:], sec_ser(pt)


_REF_CACHE = {}


def ref_child_sec(xpub, account, offset):
    """BIP32 public derivation xpub/account/offset -> 33-byte key, independent of buidl."""
    key = (xpub, account)
    if key not in _REF_CACHE:
        body = ref_b58check_decode(xpub)
        assert len(body) == 78
        _REF_CACHE[key] = ref_ckd_pub(body[13:45], body[45:78], account)
    chain, sec = _REF_CACHE[key]
    return ref_ckd_pub(chain, sec, offset)[1]


BECH = "qpzry9x8gf2tvdw0s3jn54khce6mua7l"


def _bech_polymod(values):
    gen = [0x3B6A57B2, 0x26508E6D, 0x1EA119FA, 0x3D4233DD, 0x2A1462B3]
    chk = 1
    for v in values:
        b = chk >> 25
        chk = ((chk & 0x1FFFFFF) << 5) ^ v
        for i in range(5):
            if (b >> i) & 1:
                chk ^= gen[i]
    return chk


def _hrp_expand(hrp):
    return [ord(x) >> 5 for x in hrp] + [0] + [ord(x) & 31 for x in hrp]


def ref_p2wsh_address(h, net):
    hrp = "bc" if net == 0 else "tb"
    acc, bits, data = 0, 0, [0]
    for b in h:
        acc = (acc << 8) | b
        bits += 8
        while bits >= 5:
            bits -= 5
            data.append((acc >> bits) & 31)
    if bits:
        data.append((acc << (5 - bits)) & 31)
    pm = _bech_polymod(_hrp_expand(hrp) + data + [0] * 6) ^ 1
    chk = [(pm >> (5 * (5 - i))) & 31 for i in range(6)]
    return hrp + "1" + "".join(BECH[d] for d in data + chk)


def ref_bech32_decode(addr):
    """-> (net number, witness version, program); checks the bech32 checksum"""
    hrp, _, rest = addr.rpartition("1")
    data = [BECH.index(c) for c in rest]
    if _bech_polymod(_hrp_expand(hrp) + data) != 1:
        raise ValueError("bech32 checksum")
    acc, bits, out = 0, 0, []
    for d in data[1:-6]:
        acc = (acc << 5) | d
        bits += 5
        if bits >= 8:
            bits -= 8
            out.append((acc >> bits) & 255)
    return {"bc": 0, "tb": 1}[hrp], data[0], bytes(out)


def ref_script(m, secs):
    out = bytes([80 + m])
    for s in sorted(secs):
        out += bytes([len(s)]) + s
    return out + bytes([80 + len(secs), 174])


# ------------------------------------------------------------------ implementation-side helpers

def impl_path_ok(path):
    return bool(hd.is_valid_bip32_path(path))


def impl_hdparse(xpub):
    """[re-encoded xpub without SLIP-132 version, network number] or [] (ValueError)."""
    try:
        o = HDPublicKey.parse(xpub)
        return [HDPublicKey(point=o.point, chain_code=o.chain_code, depth=o.depth,
                            parent_fingerprint=o.parent_fingerprint, child_number=o.child_number,
                            network=o.network).xpub(), NETNUM[o.network]]
    except Exception:     # ValueError; a bad Base58 checksum is a RuntimeError in helper.raw_decode_base58
        return []


_CHILD_CACHE = {}


def impl_child(xpub, account):
    key = (xpub, account)
    if key not in _CHILD_CACHE:
        try:
            _CHILD_CACHE[key] = HDPublicKey.parse(xpub).child(account)
        except Exception:
            _CHILD_CACHE[key] = None
    return _CHILD_CACHE[key]


def impl_derive(xpub, account, offset):
    c = impl_child(xpub, account)
    if c is None:
        return []
    try:
        return [c.child(offset).sec()]
    except ValueError:
        return []


def mkrecs(recs):
    return [{"xfp": _s(x), "path": _s(p), "xpub_parent": _s(k), "account_index": i} for x, p, k, i in recs]


def vdesc(o):
    return [o.quorum_m, [[r["xfp"], r["path"], r["xpub_parent"], r["account_index"]] for r in o.key_records],
            o.descriptor_text, o.checksum, NETNUM[o.network], str(o)]


def i_core_checksum(t):
    try:
        return descriptor.calc_core_checksum(_s(t))
    except ValueError:
        return ""


def i_construct(m, recs, cs, srt, paths, xpubs):
    return vdesc(P2WSHSortedMulti(m, mkrecs(recs), checksum=_s(cs), sort_key_records=bool(srt)))


def render_fields(m, fields, cs):
    body = ",".join(f"[{_s(x)}{_s(p)}]{_s(k)}/{i}/*" for x, p, k, i in fields)
    return f"wsh(sortedmulti({m},{body}))" + (("#" + _s(cs)) if cs else "")


def i_parse_struct(m, fields, cs, paths, xpubs, children):
    return vdesc(P2WSHSortedMulti.parse(render_fields(m, fields, cs)))


class _RecWS(WitnessScript):
    last = None

    def raw_serialize(self):
        r = super().raw_serialize()
        _RecWS.last = r
        return r


def i_get_address(m, net, recs, offset, chg, srt, derivs):
    # get_address is compared on arbitrary (m, records): the public fields are set after a valid construction
    o = P2WSHSortedMulti(1, [{"xfp": "00000000", "path": "m", "xpub_parent": _s(k), "account_index": 0}
                             for _, _, k, i in recs], sort_key_records=False)
    assert NETNUM[o.network] == net and [r["xpub_parent"] for r in o.key_records] == [_s(k) for _, _, k, _ in recs]
    o.quorum_m = m
    for rec, (_, _, _, i) in zip(o.key_records, recs):
        rec["account_index"] = i
    _RecWS.last = None
    descriptor.WitnessScript = _RecWS          # records the bytes get_address hashes
    try:
        addr = o.get_address(offset=offset, is_change=bool(chg), sort_keys=bool(srt))
    finally:
        descriptor.WitnessScript = WitnessScript
    n, ver, prog = ref_bech32_decode(addr)
    if ver != 0:
        return [b"witness version", ver]
    return [_RecWS.last, prog, n]


# ------------------------------------------------------------------ text layer (Model/DescriptorText.v)

KEY_RE = r"\[([0-9a-f]{8})\*?(.*?)\]([0-9A-Za-z].*)"


def record(fn, *a):
    """Run fn(*a) with recording wrappers around the functions of hd.py that descriptor.py calls; returns the
    tables (paths, xpubs, children) of every question asked, answered by the implementation's own code."""
    paths, xpubs, children, src, keep = [], [], [], {}, []

    class RecHD(HDPublicKey):
        @classmethod
        def parse(cls, s):
            xpubs.append(s)
            o = super().parse(s)
            src[id(o)] = s
            keep.append(o)
            return o

        def child(self, index):
            if id(self) in src:
                children.append((src[id(self)], index))
            return super().child(index)

    def path_ok(p):
        paths.append(p)
        return hd.is_valid_bip32_path(p)

    old = descriptor.HDPublicKey, descriptor.is_valid_bip32_path
    descriptor.HDPublicKey, descriptor.is_valid_bip32_path = RecHD, path_ok
    try:
        try:
            fn(*a)
        except Exception:
            pass
    finally:
        descriptor.HDPublicKey, descriptor.is_valid_bip32_path = old
    upaths = sorted({p for p in paths if isinstance(p, str)})
    uxpubs = sorted({x for x in xpubs if isinstance(x, str)})
    uch = sorted({(x, i) for x, i in children if isinstance(x, str) and isinstance(i, int)})
    return ([[p, impl_path_ok(p)] for p in upaths], [[x, impl_hdparse(x)] for x in uxpubs],
            [[x, i, impl_child(x, i) is not None] for x, i in uch])


def i_re_key_record(t):
    import inspect
    import re
    assert KEY_RE in inspect.getsource(descriptor.parse_partial_key_record), "key-record regex changed"
    m = re.match(KEY_RE, _s(t))
    return [list(m.groups())] if m else []


def i_parse_partial(t, paths, xpubs):
    r = descriptor.parse_partial_key_record(_s(t))
    return [r["xfp"], r["path"], r["xpub"], NETNUM[r["network"]]]


def i_parse_full(t, paths, xpubs, children):
    r = descriptor.parse_full_key_record(_s(t))
    return [[r["xfp"], r["path"], r["xpub_parent"], r["account_index"]], NETNUM[r["network"]]]


def i_parse_any(t, paths, xpubs, children):
    r = descriptor.parse_any_key_record(_s(t))
    if "account_index" in r:
        return [r["xfp"], r["path"], r["xpub_parent"], NETNUM[r["network"]], [r["account_index"]]]
    return [r["xfp"], r["path"], r["xpub"], NETNUM[r["network"]], []]


OUTER_RE = r"wsh\(sortedmulti\(([0-9]*),(.*)\)\)(\#[qpzry9x8gf2tvdw0s3jn54khce6mua7l]{8})?"


def i_outer_groups(t):
    import inspect
    import re
    assert OUTER_RE in inspect.getsource(P2WSHSortedMulti.parse) and "re.fullmatch" in inspect.getsource(P2WSHSortedMulti.parse), \
        "outer regex of P2WSHSortedMulti.parse changed"
    m = re.fullmatch(OUTER_RE, _s(t))
    if not m:
        return []
    a, b, c = m.groups()
    return [[a, b, c[1:] if c else ""]]


def json_table(t):
    """what json.loads(text)["descriptor"] gives for the stripped text when it starts with "{" (a str), else []"""
    import json
    s0 = _s(t).strip()
    if not s0.startswith("{"):
        return []
    try:
        v = json.loads(s0)["descriptor"]
    except (ValueError, KeyError):
        return []
    return [v] if isinstance(v, str) else []


def i_parse_text(t, js, paths, xpubs, children):
    return vdesc(P2WSHSortedMulti.parse(_s(t)))


def i_m_of_n(m, recs):
    o = object.__new__(P2WSHSortedMulti)
    o.quorum_m = m
    o.key_records = mkrecs(recs)
    return [o.quorum_n, o.m_of_n]


IMPL = {
    "py_int": lambda t: int(_s(t)),
    "split_on": lambda sep, t: _s(t).split(chr(sep)),
    "join_on": lambda sep, l: chr(sep).join(_s(x) for x in l),
    "re_key_record": i_re_key_record,
    "parse_partial": i_parse_partial,
    "parse_full": i_parse_full,
    "parse_any": i_parse_any,
    "m_of_n": i_m_of_n,
    "path_valid": lambda t: bool(hd.is_valid_bip32_path(_s(t))),
    "parse_text": i_parse_text,
    "outer_groups": i_outer_groups,
    "unescape": lambda t: _s(t).replace("\\/", "/"),
    "strip": lambda t: _s(t).strip(),
    "poly_mod": lambda c, v: descriptor.calc_poly_mod(c, v),
    "core_polymod": lambda c, v: descriptor.calc_poly_mod(c, v),
    "checksum": lambda t: descriptor.calc_core_checksum(_s(t)),
    "core_checksum": i_core_checksum,
    "xfp_ok": lambda t: descriptor.is_valid_xfp_hex(_s(t)),
    "dec": lambda z: f"{z}",
    "construct": i_construct,
    "parse_struct": i_parse_struct,
    "get_address": i_get_address,
    "sort_keys": lambda ks: [bytes.fromhex(x) for x in sorted(k.hex() for k in ks)],
}

# ------------------------------------------------------------------ property predicates

VECTORS = [
    ("sh(multi(2,[00000000/111'/222]xpub6ERApfZwUNrhLCkDtcHTcxd75RbzS1ed54G1LkBUHQVHQKqhMkhgbmJbZRkrgZw4koxb5JaHWkY4ALHY2grBGRjaDMzQLcgJvLJuZZvRcEL,xpub68NZiKmJWnxxS6aaHmn81bvJeTESw724CRDs6HbuccFQN9Ku14VQrADWgqbhhTHBaohPX4CjNLf9fq9MYo6oDaPPLPxSb7gwQN3ih19Zm4Y/0))", "tjg09x5t"),
    ("sh(wsh(sortedmulti(2,xpub6DkFAXWQ2dHxnMKoSBogHrw1rgNJKR4umdbnNVNTYeCGcduxWnNUHgGptqEQWPKRmeW4Zn4FHSbLMBKEWYaMDYu47Ytg6DdFnPNt8hwn5mE/1,xpub6DiXipxEgSYqTw3xX2apub7vzsC5gBzmikxriTRnfKRKQjUSpiGQ9XzyFktkVLTGVGF5emH8up1qtsyw726rvnmzHRU8cHH8gDxeLMXSkYE/1,xpub6FHZCoNb3tg3mxjcXsQx1xLpNmod6woECf2fB4nQbe9NXbvha2ucpDpnGbTFF68KUMUr1hNQ9E5jVEvpT2kUkVmFVDrJawcbgXzDpJc2hkF/2)))", "mgjhd0rk"),
    ("sh(wsh(sortedmulti(2,029dfee2aaa23e2220476c34eda9a76591c1257f8dfce54e42ff014f922ede0838,03151d5b21c6491915e7a103bff913b4d85246c8209a342bb7104850e4cb394686,03646d8e624fedb63739e7963d0c7ad368a7f7935557b2b28c4c954882b19fe6e1)))", "rzmdthwy"),
    # P2WSHSortedMulti vectors of test_descriptor.py (descriptor text # checksum, first receive address)
    ("wsh(sortedmulti(2,[c7d0648a/48h/1h/0h/2h]tpubDEpefcgzY6ZyEV2uF4xcW2z8bZ3DNeWx9h2BcwcX973BHrmkQxJhpAXoSWZeHkmkiTtnUjfERsTDTVCcifW6po3PFR1JRjUUTJHvPpDqJhr/0/*,[12980eed/48h/1h/0h/2h]tpubDEkXGoQhYLFnYyzUGadtceUKbzVfXVorJEdo7c6VKJLHrULhpSVLC7fo89DDhjHmPvvNyrun2LTWH6FYmHh5VaQYPLEqLviVQKh45ufz8Ae/0/*,[f7d04090/48h/1h/0h/2h]tpubDF7FTuPECTePubPXNK73TYCzV3nRWaJnRwTXD28kh6Fz4LcaRzWwNtX153J7WeJFcQB2T6k9THd424Kmjs8Ps1FC1Xb81TXTxxbGZrLqQNp/0/*))", "0stzl64e"),
]
VECTOR_ADDR = "tb1q0cy5x39ezyvc4pfydrqedng0h9arh2hcw8lpfa6e9ama7ky7cffsmzmgx8"


def p_checksum_ref(t):
    t = _s(t)
    want = ref_checksum(t)
    try:
        got = descriptor.calc_core_checksum(t)
    except ValueError:
        got = ""
    if got != want:
        return f"calc_core_checksum gives {got!r}, Bitcoin Core's algorithm gives {want!r}"
    return None


def p_vectors():
    for text, cs in VECTORS:
        if descriptor.calc_core_checksum(text) != cs or ref_checksum(text) != cs:
            return f"checksum vector {cs} not reproduced"
    o = P2WSHSortedMulti.parse(VECTORS[3][0] + "#" + VECTORS[3][1])
    if str(o) != VECTORS[3][0] + "#" + VECTORS[3][1] or o.get_address() != VECTOR_ADDR:
        return "2-of-3 vector of test_descriptor.py not reproduced"
    return None


def _same(a, b):
    return (a.quorum_m, a.key_records, a.descriptor_text, a.checksum, a.network) == \
        (b.quorum_m, b.key_records, b.descriptor_text, b.checksum, b.network)


def p_roundtrip(m, recs):
    o = P2WSHSortedMulti(m, mkrecs(recs))
    text = str(o)
    body, _, cs = text.rpartition("#")
    if cs != ref_checksum(body) or body != o.descriptor_text or cs != o.checksum:
        return "descriptor text # checksum is not Bitcoin Core's checksum of the text"
    exp = "wsh(sortedmulti(%d,%s))" % (m, ",".join(
        "[%s%s]%s/%d/*" % (r["xfp"], r["path"][1:], r["xpub_parent"], r["account_index"]) for r in o.key_records))
    if body != exp:
        return "descriptor text is not wsh(sortedmulti(m,[xfp/path]xpub/index/*,...))"
    if [r["xpub_parent"] for r in o.key_records] != sorted(r["xpub_parent"] for r in o.key_records):
        return "key records are not sorted by xpub"
    if len(o.key_records) != len(recs):
        return "number of key records changed"
    for r in o.key_records:
        k = r["xpub_parent"]
        if k[:4] not in ("xpub", "tpub"):
            return "SLIP-132 prefix survived in the descriptor text"
    for t in (text, body, "  " + text + "\n"):
        p = P2WSHSortedMulti.parse(t)
        if not _same(p, o) or str(p) != text:
            return f"parse(str(d)) differs from d (variant {t[:6]!r}...)"
    wrong = "".join(CHECKSUM_CHARSET[(CHECKSUM_CHARSET.index(c) + 1) % 32] for c in cs)
    rot = cs[1:] + cs[0] if cs[1:] + cs[0] != cs else wrong
    # malformed or wrong checksums, text after the checksum
    bads = ["", "a", "a" * 9, "X", cs[:-1], cs[:-1] + "b", cs[:-1] + "1", wrong, rot, cs + "q", cs + " x", cs + "#" + cs]
    for bad in (bads if len(recs) <= 2 else [cs[:-1], wrong]):
        try:
            P2WSHSortedMulti.parse(body + "#" + bad)
        except ValueError:
            continue
        return f"malformed or wrong checksum {bad!r} accepted"
    for t in ("x" + text, "sh(" + text + ")", body + "!" + cs, body + cs, body + " #" + cs, body + ")#" + cs):
        if len(recs) <= 2 and _accepts(t) is not None:
            return f"text that is not exactly the descriptor accepted: {t[:8]!r}...{t[-12:]!r}"
    try:
        P2WSHSortedMulti(m, mkrecs(recs), checksum=wrong)
    except ValueError:
        pass
    else:
        return "constructor accepted a wrong checksum"
    return None


def p_order(m, recs, perm, with_addr, offset, chg):
    a = P2WSHSortedMulti(m, mkrecs(recs))
    b = P2WSHSortedMulti(m, mkrecs([recs[i] for i in perm]))
    if str(a) != str(b) or a.key_records != b.key_records:
        return "descriptor depends on the order in which the key records were supplied"
    if with_addr:
        if a.get_address(offset, bool(chg)) != b.get_address(offset, bool(chg)):
            return "address depends on the order in which the key records were supplied"
    return None


def p_address(m, recs, offset):
    """both branches at `offset`: each equals P2WSH of `m <sorted children> n CHECKMULTISIG` over independently
    derived BIP32 children (receive: account_index, change: account_index + 1), and the two differ"""
    o = P2WSHSortedMulti(m, mkrecs(recs))
    got = {}
    for chg in (False, True):
        if any(r["account_index"] + (1 if chg else 0) >= 2 ** 31 for r in o.key_records):
            try:
                o.get_address(offset=offset, is_change=chg)
            except ValueError:
                continue
            return "an account index of 2^31 was derived"
        addr = o.get_address(offset=offset, is_change=chg)
        secs = [ref_child_sec(r["xpub_parent"], r["account_index"] + (1 if chg else 0), offset) for r in o.key_records]
        if len(set(secs)) != len(recs):
            return "child keys are not one per key record"
        want = ref_p2wsh_address(hashlib.sha256(ref_script(m, secs)).digest(), NETNUM[o.network])
        if addr != want:
            return (f"get_address(change={chg}) gives {addr}, P2WSH of the sortedmulti script over the BIP32 "
                    f"children is {want}")
        got[chg] = addr
    if len(got) == 2 and got[False] == got[True]:
        return f"receive and change address coincide at offset {offset}: {got[True]}"
    return None


def _memo_child():
    orig = HDPublicKey.child
    cache = {}

    def child(self, index):
        key = (self.point.sec(), self.chain_code, self.depth, self.network, self.pub_version, index)
        if key not in cache:
            cache[key] = orig(self, index)
        return cache[key]
    return orig, child


def _accepts(text):
    try:
        return P2WSHSortedMulti.parse(text)
    except Exception:     # ValueError and anything else: rejected
        return None


def p_subst(text, pos):
    """every replacement character of the descriptor charset at position pos of `body#checksum`"""
    text = _s(text)
    if text[pos] == "#":
        return None      # the separator is covered by p_subst_separator
    orig, memo = _memo_child()
    HDPublicKey.child = memo
    try:
        for ch in INPUT_CHARSET:
            if ch == text[pos]:
                continue
            bad = text[:pos] + ch + text[pos + 1:]
            o = _accepts(bad)
            if o is not None:
                return f"substitution {text[pos]!r}->{ch!r} at {pos} accepted as {str(o)[:40]}...#{o.checksum}"
    finally:
        HDPublicKey.child = orig
    return None


def p_subst_separator(text):
    text = _s(text)
    pos = text.rindex("#")
    for ch in INPUT_CHARSET:
        if ch == "#":
            continue
        bad = text[:pos] + ch + text[pos + 1:]
        o = _accepts(bad)
        if o is not None:
            return (f"'#' replaced by {ch!r}: accepted without any checksum verification "
                    f"(the 8 checksum characters are ignored as trailing text)")
    return None


def p_regex_class():
    if sorted(gen_coq_c16.extract(gen_coq_c16._source()[0])["regex_class"]) != sorted(descriptor.DESCRIPTOR_CHECKSUM_CHARSET):
        return "the checksum class of the parse regex differs from DESCRIPTOR_CHECKSUM_CHARSET"
    return None


def p_ctor_own_output(m, recs):
    """whatever the constructor accepts and prints, parse must read back identically"""
    try:
        o = P2WSHSortedMulti(m, mkrecs(recs))
    except ValueError:
        return None
    try:
        p = P2WSHSortedMulti.parse(str(o))
    except ValueError as e:
        return "constructor output rejected by parse: " + str(e)[:120]
    if not _same(p, o):
        return "parse(str(d)) != d for a record set the constructor accepted"
    return None


# ------------------------------------------------------------------ one object used repeatedly (stale state)
# The descriptor object is naturally long-lived (a wallet asks it for address after address, on both branches):
# the predicates below keep descriptor objects alive, ask get_address with different (offset, branch, sort_keys)
# in different orders and twice in a row, alternate between objects, edit the public fields get_address reads
# (quorum_m, key_records in place, network) and compare every answer with the independent BIP32 / P2WSH /
# bech32 reference evaluated on the CURRENT public fields.

def _ref_address(o, offset, chg, srt):
    secs = [ref_child_sec(r["xpub_parent"], r["account_index"] + (1 if chg else 0), offset) for r in o.key_records]
    if srt:
        script = ref_script(o.quorum_m, secs)
    else:
        script = bytes([80 + o.quorum_m]) + b"".join(bytes([len(x)]) + x for x in secs) + bytes([80 + len(secs), 174])
    return ref_p2wsh_address(hashlib.sha256(script).digest(), NETNUM[o.network])


def p_reuse_desc(wallets, spares, seed, nops):
    import random
    r = random.Random(seed)
    objs = [P2WSHSortedMulti(m, mkrecs(recs)) for m, recs in wallets]
    texts = [str(o) for o in objs]
    edited = [False] * len(objs)
    spares = [_s(x) for x in spares]
    offsets = [0, 1, 2, 2 ** 31 - 1, r.randrange(2 ** 31), r.randrange(1000)]
    last = None
    for step in range(nops):
        w = r.randrange(len(objs))
        o = objs[w]
        k = r.random()
        if k < 0.68:
            if last is not None and r.random() < 0.2:
                q = last                         # the same question twice in a row
            else:
                q = (w, r.choice(offsets), r.random() < 0.5, r.random() < 0.85)
            last = q
            w, off, chg, srt = q
            o = objs[w]
            got = o.get_address(offset=off, is_change=chg, sort_keys=srt)
            want = _ref_address(o, off, chg, srt)
            if got != want:
                return (f"step {step}: get_address(offset={off}, is_change={chg}, sort_keys={srt}) on the reused descriptor "
                        f"{w} gives {got}; P2WSH of the script over the BIP32 children of its current records is {want}")
            if not edited[w] and (str(o) != texts[w] or f"{o.descriptor_text}#{o.checksum}" != texts[w]):
                return f"step {step}: the descriptor text changed after get_address"
        elif k < 0.74:
            if not edited[w] and (str(o) != texts[w] or o.m_of_n != f"{o.quorum_m}-of-{len(o.key_records)}"):
                return f"step {step}: str()/m_of_n of the reused descriptor changed"
        else:
            edited[w] = True
            last = None
            e = r.randrange(7)
            recs = o.key_records
            if e == 0:
                o.quorum_m = r.randrange(1, len(recs) + 1)
            elif e == 1:
                r.choice(recs)["account_index"] = r.choice([0, 1, 2, 7, 2 ** 31 - 2, r.randrange(2 ** 31 - 1)])
            elif e == 2:
                recs.reverse()
            elif e == 3:
                cands = [x for x in spares if (x[:4] == "xpub") == (o.network == "mainnet")
                         and x not in [q["xpub_parent"] for q in recs]]
                if cands:
                    r.choice(recs)["xpub_parent"] = r.choice(cands)
            elif e == 4:
                if len(recs) > 1:
                    recs.pop(r.randrange(len(recs)))
                    o.quorum_m = min(o.quorum_m, len(recs))
            elif e == 5:
                cands = [x for x in spares if (x[:4] == "xpub") == (o.network == "mainnet")
                         and x not in [q["xpub_parent"] for q in recs]]
                if cands and len(recs) < 4:
                    recs.append({"xfp": "00000000", "path": "m", "xpub_parent": r.choice(cands), "account_index": r.randrange(4)})
            else:
                o.key_records = [dict(q) for q in reversed(recs)]
    return None


def p_checksum_order(texts):
    """calc_core_checksum called on a sequence of texts (equal lengths, shared prefixes, repeats)"""
    for n, t in enumerate(texts):
        d = p_checksum_ref(t)
        if d:
            return f"call {n}: " + d
    return None


def p_parse_order(texts, order):
    """P2WSHSortedMulti.parse on several descriptors alternately: each time the text is reproduced, and a body with
    another descriptor's checksum is rejected"""
    texts = [_s(t) for t in texts]
    for n, (i, variant) in enumerate(order):
        t = texts[i]
        body, _, cs = t.rpartition("#")
        if variant == 0:
            if str(P2WSHSortedMulti.parse(t)) != t:
                return f"call {n}: parse(text {i}) does not reproduce the text"
        elif variant == 1:
            o = P2WSHSortedMulti.parse(body)
            if str(o) != t or o.checksum != ref_checksum(body):
                return f"call {n}: parse(body {i}) does not compute the checksum of that body"
        else:
            other = texts[(i + 1) % len(texts)].rpartition("#")[2]
            if other != cs and _accepts(body + "#" + other) is not None:
                return f"call {n}: body {i} accepted with the checksum of another descriptor"
    return None


def p_ctor_pure(m, recs, offset):
    """constructor, parse and get_address leave their arguments and the object's records/text untouched"""
    import copy
    records = mkrecs(recs)
    snap = copy.deepcopy(records)
    a = P2WSHSortedMulti(m, records)
    if records != snap:
        return "the constructor modified the key records it was given"
    b = P2WSHSortedMulti(m, records)
    if not _same(a, b) or str(a) != str(b):
        return "two descriptors built from the same key records differ"
    before = (a.quorum_m, copy.deepcopy(a.key_records), a.descriptor_text, a.checksum, a.network)
    x1 = a.get_address(offset, False)
    y1 = a.get_address(offset, True)
    x2 = a.get_address(offset, False)
    if x1 != x2 or x1 == y1:
        return "get_address(receive) changed after get_address(change) on the same object"
    if before != (a.quorum_m, a.key_records, a.descriptor_text, a.checksum, a.network) or records != snap:
        return "get_address modified the descriptor or the caller's key records"
    if x1 != b.get_address(offset, False) or x1 != _ref_address(a, offset, False, True):
        return "a descriptor that was used before gives another address than a fresh one"
    return None


def p_reuse_hdpub(xpub, idxs):
    """ONE HDPublicKey object (and one of its children) asked for children at different indexes, repeatedly"""
    xpub = _s(xpub)
    body = ref_b58check_decode(xpub)
    h = HDPublicKey.parse(xpub)
    sub = None
    for n, (i, j) in enumerate(idxs):
        c = h.child(i)
        chain, sec = ref_ckd_pub(body[13:45], body[45:78], i)
        if c.sec() != sec or c.chain_code != chain:
            return f"call {n}: child({i}) of the reused HDPublicKey differs from BIP32 CKDpub"
        if sub is None:
            sub, sub_ref = c, (chain, sec)
        g = sub.child(j)
        if g.sec() != ref_ckd_pub(sub_ref[0], sub_ref[1], j)[1]:
            return f"call {n}: child({j}) of the reused child key differs from BIP32 CKDpub"
        if h.xpub() != xpub or h.sec() != body[45:78]:
            return f"call {n}: the parent key changed after child()"
    return None


def p_path_assumptions(path):
    """the hypotheses of the text round-trip theorems about hd.is_valid_bip32_path (ASCII text): a valid path stays
    valid when it is rewritten to "m" + path.strip()[1:], and contains none of  ] , \\ # *  """
    path = _s(path)
    if not hd.is_valid_bip32_path(path):
        return None
    if not hd.is_valid_bip32_path("m" + path.strip()[1:]):
        return f"valid path {path!r} is invalid after the constructor's rewriting"
    bad = set(path) & set("],\\#*")
    if bad:
        return f"valid path {path!r} contains {sorted(bad)}"
    return None


def p_xpub_assumptions(xpub):
    """the hypotheses about HDPublicKey: the re-encoded xpub is non-empty alphanumeric text that parses to itself and
    to the same network"""
    got = impl_hdparse(_s(xpub))
    if not got:
        return None
    xp, net = got
    if not xp or not xp.isascii() or not xp.isalnum():
        return f"re-encoded xpub {xp!r} is not alphanumeric"
    if impl_hdparse(xp) != [xp, net]:
        return "re-encoded xpub does not parse to itself"
    return None


# ------------------------------------------------------------------ round-3 audit: entry points, defaults, shared state
# Independent expectations for everything below: SLIP-132 normalisation, sorting, rendering, checksum, BIP32 children
# and child xpubs are computed by the references of this file only.

def ref_norm_xpub(xpub):
    """(xpub re-encoded with the plain xpub/tpub version, network number) — Base58Check by this file"""
    body = ref_b58check_decode(_s(xpub))
    assert len(body) == 78 and body[:4].hex() in MAIN_VERSIONS + TEST_VERSIONS
    net = 0 if body[:4].hex() in MAIN_VERSIONS else 1
    return ref_b58check_encode(bytes.fromhex((MAIN_VERSIONS, TEST_VERSIONS)[net][0]) + body[4:]), net


def ref_child_xpub(xpub, idx):
    """BIP32 serialisation of CKDpub(xpub, idx); the version bytes of the parent are kept"""
    body = ref_b58check_decode(_s(xpub))
    chain, sec = ref_ckd_pub(body[13:45], body[45:78], idx)
    fp = hashlib.new("ripemd160", hashlib.sha256(body[45:78]).digest()).digest()[:4]
    return ref_b58check_encode(body[:4] + bytes([body[4] + 1]) + fp + idx.to_bytes(4, "big") + chain + sec)


def ref_expected(m, fields, sort=True):
    """(key_records, descriptor text, checksum, network number) the property prescribes for the supplied records"""
    recs, nets = [], set()
    for x, p, k, i in fields:
        nk, net = ref_norm_xpub(k)
        nets.add(net)
        recs.append({"path": "m" + _s(p).strip()[1:], "xfp": _s(x).lower(), "xpub_parent": nk, "account_index": i})
    assert len(nets) == 1
    if sort:
        recs.sort(key=lambda q: q["xpub_parent"])
    body = "wsh(sortedmulti(%d,%s))" % (m, ",".join(
        "[%s%s]%s/%d/*" % (q["xfp"], q["path"][1:], q["xpub_parent"], q["account_index"]) for q in recs))
    return recs, body, ref_checksum(body), nets.pop()


def _ref_addr(m, recs, net, offset, chg, srt):
    secs = [ref_child_sec(q["xpub_parent"], q["account_index"] + (1 if chg else 0), offset) for q in recs]
    if srt:
        script = ref_script(m, secs)
    else:
        script = bytes([80 + m]) + b"".join(bytes([len(x)]) + x for x in secs) + bytes([80 + len(secs), 174])
    return ref_p2wsh_address(hashlib.sha256(script).digest(), net)


def _obj_is(o, m, exp):
    recs, body, cs, net = exp
    if o.quorum_m != m or o.quorum_n != len(recs) or o.m_of_n != "%d-of-%d" % (m, len(recs)):
        return "quorum_m / quorum_n / m_of_n differ from the supplied threshold and record count"
    if o.key_records != recs:
        return f"key_records are {o.key_records}, expected {recs}"
    if o.descriptor_text != body or o.checksum != cs or str(o) != body + "#" + cs or repr(o) != body + "#" + cs \
            or f"{o}" != body + "#" + cs:
        return f"text is {o!r}, expected {body}#{cs}"
    if NETNUM.get(o.network) != net:
        return f"network is {o.network!r}"
    return None


def _raises(f, *exc):
    try:
        f()
    except (exc or (ValueError,)):
        return True
    return False


def p_defaults(m, recs, offset):
    """every way of leaving out / spelling the optional arguments of the constructor and of get_address"""
    records = mkrecs(recs)
    n = len(records)
    exp, exp_u = ref_expected(m, recs), ref_expected(m, recs, sort=False)
    cs, cs_u = exp[2], exp_u[2]
    if _raises(lambda: P2WSHSortedMulti(m)) is False or _raises(lambda: P2WSHSortedMulti(quorum_m=m)) is False:
        return "P2WSHSortedMulti(m) without key records did not raise ValueError"
    forms = [("(m, recs)", lambda: P2WSHSortedMulti(m, records), exp),
             ("(quorum_m=, key_records=)", lambda: P2WSHSortedMulti(quorum_m=m, key_records=records), exp),
             ("checksum=None", lambda: P2WSHSortedMulti(m, records, checksum=None), exp),
             ("checksum=''", lambda: P2WSHSortedMulti(m, records, checksum=""), exp),
             ("(m, recs, cs)", lambda: P2WSHSortedMulti(m, records, cs), exp),
             ("(m, recs, cs, True)", lambda: P2WSHSortedMulti(m, records, cs, True), exp),
             ("sort_key_records=True", lambda: P2WSHSortedMulti(m, records, sort_key_records=True), exp),
             ("sort_key_records=False", lambda: P2WSHSortedMulti(m, records, sort_key_records=False), exp_u),
             ("(m, recs, None, False)", lambda: P2WSHSortedMulti(m, records, None, False), exp_u),
             ("(m, recs, cs_unsorted, False)", lambda: P2WSHSortedMulti(m, records, cs_u, False), exp_u)]
    objs = []
    for what, f, e in forms:
        try:
            o = f()
        except Exception as ex:
            return f"P2WSHSortedMulti{what} raised {type(ex).__name__}: {str(ex)[:80]}"
        d = _obj_is(o, m, e)
        if d:
            return f"P2WSHSortedMulti{what}: " + d
        objs.append(o)
    if _raises(lambda: P2WSHSortedMulti(m)) is False or _raises(lambda: P2WSHSortedMulti(m, [])) is False:
        return "P2WSHSortedMulti(m) without key records did not raise ValueError after other descriptors were built"
    if cs != cs_u:
        if not _raises(lambda: P2WSHSortedMulti(m, records, cs_u)) or not _raises(lambda: P2WSHSortedMulti(m, records, cs, False)):
            return "the checksum of the other record order was accepted"
    can_chg = all(q["account_index"] + 1 < 2 ** 31 for q in records)
    for o, e in ((objs[0], exp), (objs[7], exp_u)):
        calls = [("(sort_keys=False)", lambda: o.get_address(sort_keys=False), (0, False, False)),
                 ("()", lambda: o.get_address(), (0, False, True)),
                 ("(offset=off)", lambda: o.get_address(offset=offset), (offset, False, True))]
        if can_chg:
            calls += [("(is_change=True)", lambda: o.get_address(is_change=True), (0, True, True)),
                      ("(off, True)", lambda: o.get_address(offset, True), (offset, True, True)),
                      ("(off, True, False)", lambda: o.get_address(offset, True, False), (offset, True, False))]
        for what, f, (off, chg, srt) in (calls if o is objs[0] else calls[:1]):
            got, want = f(), _ref_addr(m, e[0], e[3], off, chg, srt)
            if got != want:
                return (f"get_address{what} gives {got}; offset={off}, is_change={chg}, sort_keys={srt} over the BIP32 "
                        f"children of the records is {want}")
    return None


def p_mw_flow(m, fields, full, offset):
    """the route multiwallet.py takes: key-record TEXT -> parse_any_key_record -> (partial: account 0) -> constructor with
    the dictionaries as they come (extra keys network / xpub_child) -> text, addresses, parse"""
    krs, eff = [], []
    for (x, p, k, i), f in zip(fields, full):
        x, p, k = _s(x), _s(p), _s(k)
        text = f"[{x}{p[1:]}]{k}" + (f"/{i}/*" if f else "")
        d = descriptor.parse_any_key_record(key_record_str=text)
        want = {"xfp": x, "path": p, "network": NETS[ref_norm_xpub(k)[1]]}
        if f:
            want.update(account_index=i, xpub_parent=k, xpub_child=ref_child_xpub(k, i))
            other = descriptor.parse_full_key_record(key_record_str=text)
            if _raises(lambda: descriptor.parse_full_key_record(text[:-2])) is False:
                return "parse_full_key_record accepted a record without /*"
        else:
            want["xpub"] = k
            other = descriptor.parse_partial_key_record(key_record_str=text)
            if _raises(lambda: descriptor.parse_full_key_record(text)) is False:
                return "parse_full_key_record accepted a partial record"
        if d != want:
            return f"parse_any_key_record({text!r}) gives {d}, expected {want}"
        if other != want or other is d:
            return f"parse_full/partial_key_record({text!r}) gives {other}, expected {want}"
        if d.get("account_index") is None:            # multiwallet.py do_create_output_descriptors
            d["account_index"] = 0
            d["xpub_parent"] = d.pop("xpub")
        krs.append(d)
        eff.append([x, p, k, i if f else 0])
    import copy
    snap = copy.deepcopy(krs)
    o = P2WSHSortedMulti(quorum_m=m, key_records=krs, sort_key_records=True)
    exp = ref_expected(m, eff)
    d = _obj_is(o, m, exp)
    if d:
        return "descriptor built from parse_any_key_record dictionaries: " + d
    if krs != snap:
        return "the constructor modified the parse_any_key_record dictionaries"
    for chg in (False, True):
        if chg and any(q["account_index"] + 1 >= 2 ** 31 for q in exp[0]):
            continue
        got, want = o.get_address(offset, chg), _ref_addr(m, exp[0], exp[3], offset, chg, True)
        if got != want:
            return f"get_address({offset}, {chg}) of the descriptor built from key-record texts gives {got}, expected {want}"
    p = P2WSHSortedMulti.parse(output_record=str(o))
    d = _obj_is(p, m, exp)
    if d:
        return "parse(output_record=str(d)): " + d
    return None


def p_share(m, recs, offset, srt):
    """the source is used again AFTER the result was produced: the caller's dictionaries are edited after construction, one
    descriptor is edited while a sibling built from the same records (or parsed from the same text) is observed"""
    records = mkrecs(recs)
    exp = ref_expected(m, recs, sort=bool(srt))
    a = P2WSHSortedMulti(m, records, sort_key_records=bool(srt))
    b = P2WSHSortedMulti(m, records, sort_key_records=bool(srt))
    want = _ref_addr(m, exp[0], exp[3], offset, False, True)

    def intact(o, what, addr=True):
        d = _obj_is(o, m, exp)
        if d:
            return what + ": " + d
        if not addr:
            return None
        got = o.get_address(offset)
        if got != want:
            return f"{what}: get_address({offset}) gives {got}, expected {want}"
        return None

    for q in records:                                 # the caller goes on using its own dictionaries
        q["account_index"] = (q["account_index"] + 3) % (2 ** 31 - 1)
        q["xfp"], q["path"] = "ffffffff", "m/1"
    records[0]["xpub_parent"], records[-1]["xpub_parent"] = records[-1]["xpub_parent"], records[0]["xpub_parent"]
    records.reverse()
    records.append(dict(records[0]))
    for o, w in ((a, "first"), (b, "second")):
        d = intact(o, f"after the caller edited the dictionaries it had passed to the constructor ({w} descriptor)", o is a)
        if d:
            return d
    a.caravan_export()
    a.caravan_export(wallet_name="x", key_record_names=[str(j) for j in range(len(recs))])
    d = intact(a, "after caravan_export", False)
    if d:
        return d
    for q in a.key_records:                           # one descriptor edited in place, its sibling observed
        q["account_index"] = (q["account_index"] + 1) % (2 ** 31 - 1)
        q["xpub_parent"] = a.key_records[0]["xpub_parent"]
    a.key_records.reverse()
    a.key_records.pop()
    a.quorum_m, a.network = 1, ("testnet" if a.network == "mainnet" else "mainnet")
    d = intact(b, "after a descriptor built from the same records was edited in place")
    if d:
        return d
    text = exp[1] + "#" + exp[2]
    p1 = P2WSHSortedMulti.parse(text)
    p2 = P2WSHSortedMulti.parse(text)
    for q in p1.key_records:
        q["account_index"] = (q["account_index"] + 1) % (2 ** 31 - 1)
    p1.key_records.reverse()
    p1.key_records.append(dict(p1.key_records[0]))
    p3 = P2WSHSortedMulti.parse(text)
    for o, w in ((p2, "parsed before"), (p3, "parsed after")):
        d = intact(o, f"after another descriptor parsed from the same text was edited ({w} the edit)", o is p2)
        if d:
            return d
    c = P2WSHSortedMulti(m, mkrecs(recs), sort_key_records=bool(srt))
    return intact(c, "a fresh descriptor after all of the above", False)


def p_fail_retry(m, recs, offset):
    """failure paths followed by a retry on the same object / with the same arguments"""
    exp = ref_expected(m, recs)
    cs = exp[2]
    wrong = "".join(CHECKSUM_CHARSET[(CHECKSUM_CHARSET.index(c) + 5) % 32] for c in cs)
    records = mkrecs(recs)
    for attempt in range(2):
        if not _raises(lambda: P2WSHSortedMulti(m, records, checksum=wrong)):
            return "constructor accepted a wrong checksum"
        if not _raises(lambda: P2WSHSortedMulti.parse(exp[1] + "#" + wrong)):
            return "parse accepted a wrong checksum"
        if not _raises(lambda: P2WSHSortedMulti(len(recs) + 1, records)):
            return "constructor accepted m > n"
        if not _raises(lambda: descriptor.calc_core_checksum(exp[1] + "\t")):
            return "calc_core_checksum accepted a tab"
        if descriptor.calc_core_checksum(exp[1]) != cs:
            return "calc_core_checksum after a rejected text differs from Bitcoin Core's checksum"
        for what, o in (("constructor", P2WSHSortedMulti(m, records, checksum=cs)),
                        ("parse", P2WSHSortedMulti.parse(exp[1] + "#" + cs)), ("parse without checksum", P2WSHSortedMulti.parse(exp[1]))):
            d = _obj_is(o, m, exp)
            if d:
                return f"{what} after a rejected attempt: " + d
    # get_address: the change branch of account index 2^31-1 does not exist; the receive branch does
    top = [list(q) for q in recs]
    top[-1][3] = 2 ** 31 - 1
    e2 = ref_expected(m, top)
    o = P2WSHSortedMulti(m, mkrecs(top))
    for attempt in range(2):
        if not _raises(lambda: o.get_address(offset, True)) or not _raises(lambda: o.get_address(is_change=True)):
            return "an account index of 2^31 was derived"
        if not _raises(lambda: o.get_address(-1), AssertionError, ValueError) or \
                not _raises(lambda: o.get_address(2 ** 31), AssertionError, ValueError):
            return "an offset outside 0..2^31-1 was derived"
        for off in (offset, 0):
            try:
                got = o.get_address(off)
            except Exception as ex:
                got = f"{type(ex).__name__}: {str(ex)[:80]}"
            want = _ref_addr(m, e2[0], e2[3], off, False, True)
            if got != want:
                return f"get_address({off}) after failed calls on the same descriptor gives {got}, expected {want}"
        d = _obj_is(o, m, e2)
        if d:
            return "after failed get_address calls: " + d
    return None


def p_caravan(m, recs, names):
    """caravan_export (default and explicit names) lists every cosigner's OWN path / xpub / fingerprint / name"""
    import json
    names = [_s(x) for x in names]
    o = P2WSHSortedMulti(m, mkrecs(recs))
    exp = ref_expected(m, recs)
    idxs = [q["account_index"] for q in exp[0]]

    def want(wname, nm):
        return {"name": wname, "addressType": "P2WSH", "network": NETS[exp[3]], "client": {"type": "public"},
                "quorum": {"requiredSigners": m, "totalSigners": len(recs)},
                "extendedPublicKeys": [{"bip32Path": q["path"].replace("h", "'").replace("H", "'"), "xpub": q["xpub_parent"],
                                        "xfp": q["xfp"], "name": nm[j]} for j, q in enumerate(exp[0])]}
    auto = ["Seed " + "ABCDEFGHIJKLMNOPQRSTUVWXYZ"[j] for j in range(len(recs))]
    keep = list(names)
    runs = [("()", lambda: o.caravan_export(), want("p2wsh", auto)),
            ("(wallet_name, names)", lambda: o.caravan_export("w", names), want("w", names)),
            ("(key_record_names=names)", lambda: o.caravan_export(key_record_names=names), want("p2wsh", names)),
            ("() again", lambda: o.caravan_export(), want("p2wsh", auto)),
            ("(wallet_name=)", lambda: o.caravan_export(wallet_name="v"), want("v", auto))]
    for what, f, w in runs:
        got = json.loads(f())
        sai = got.pop("startingAddressIndex", None)
        if got != w:
            return f"caravan_export{what} gives {got}, expected {w}"
        if sai not in idxs or (len(set(idxs)) == 1 and sai != idxs[0]) or type(sai) is not int:
            return f"caravan_export{what}: startingAddressIndex {sai} is no account index of the wallet"
    if names != keep:
        return "caravan_export modified the list of names"
    if not _raises(lambda: o.caravan_export(key_record_names=names + ["x"])) or (len(names) > 1 and
                                                                              not _raises(lambda: o.caravan_export(key_record_names=names[:-1]))):
        return "caravan_export accepted a list of names of the wrong length"
    return _obj_is(o, m, exp)


GROUND_PRE = ("wsh(sortedmulti(1,[c7d0648a/48h/1h/0h/2h]tpubDEpefcgzY6ZyEV2uF4xcW2z8bZ3DNeWx9h2BcwcX973BHrmkQxJhpAXoSWZeHkm"
              "kiTtnUjfERsTDTVCcifW6po3PFR1JRjUUTJHvPpDqJhr/")
# account indexes ground offline so that the checksum falls into an unusual character class
GROUND = [(13876, "54390797"), (20294, "pcccnccn"), (188629, "qq5m7fqq")]
GROUND_TEXTS = [("wsh(sortedmulti(13303", "qqqqgfpg"), ("wsh(sortedmulti(18622", "38982375"),
                ("wsh(sortedmulti(58133", "st3a3qqq"), ("wsh(sortedmulti(522043", "lhhhllhh")]


def p_ground(idx, cs):
    """a descriptor whose checksum consists of digits only / of three letters / begins and ends with "qq" """
    cs = _s(cs)
    body = GROUND_PRE + "%d/*))" % idx
    if ref_checksum(body) != cs:
        return "harness: the ground checksum is not Bitcoin Core's checksum"
    if descriptor.calc_core_checksum(body) != cs:
        return f"calc_core_checksum gives {descriptor.calc_core_checksum(body)!r}, Bitcoin Core's algorithm {cs!r}"
    fields = [["c7d0648a", "m/48h/1h/0h/2h", GROUND_PRE[GROUND_PRE.index("]") + 1:-1], idx]]
    exp = ref_expected(1, fields)
    if exp[1] != body:
        return "harness: rendering"
    for what, f in (("parse(text#checksum)", lambda: P2WSHSortedMulti.parse(body + "#" + cs)),
                    ("parse(text)", lambda: P2WSHSortedMulti.parse(body)),
                    ("constructor(checksum=)", lambda: P2WSHSortedMulti(1, mkrecs(fields), checksum=cs))):
        try:
            o = f()
        except Exception as ex:
            return f"{what} raised {type(ex).__name__}: {str(ex)[:80]}"
        d = _obj_is(o, 1, exp)
        if d:
            return f"{what}: " + d
    for pos in (0, 3, 7):
        alt = [c for c in ("0123456789" if cs[pos].isdigit() else CHECKSUM_CHARSET) if c != cs[pos] and c in CHECKSUM_CHARSET]
        bad = cs[:pos] + alt[(idx + pos) % len(alt)] + cs[pos + 1:]
        if _accepts(body + "#" + bad) is not None:
            return f"checksum {bad!r} accepted for a descriptor whose checksum is {cs!r}"
        if not _raises(lambda: P2WSHSortedMulti(1, mkrecs(fields), checksum=bad)):
            return f"constructor accepted checksum {bad!r} for a descriptor whose checksum is {cs!r}"
    return None


def p_address_at(m, recs, offset, chg, srt):
    """one address of a wallet whose records need not be distinct (the same xpub in two slots)"""
    o = P2WSHSortedMulti(m, mkrecs(recs))
    exp = ref_expected(m, recs)
    got, want = o.get_address(offset, bool(chg), bool(srt)), _ref_addr(m, exp[0], exp[3], offset, chg, srt)
    return None if got == want else f"get_address({offset}, {bool(chg)}, {bool(srt)}) gives {got}, expected {want}"


def p_checksum_is(t, cs):
    t, cs = _s(t), _s(cs)
    if ref_checksum(t) != cs:
        return "harness: the hard-coded checksum is not Bitcoin Core's checksum"
    got = descriptor.calc_core_checksum(t)
    return None if got == cs else f"calc_core_checksum({t!r}) gives {got!r}, Bitcoin Core's algorithm gives {cs!r}"


PROPS = {"path_assumptions": p_path_assumptions, "xpub_assumptions": p_xpub_assumptions,
         "checksum_ref": p_checksum_ref, "vectors": p_vectors, "roundtrip": p_roundtrip, "order": p_order,
         "address": p_address, "subst": p_subst, "subst_separator": p_subst_separator,
         "regex_class": p_regex_class, "ctor_own_output": p_ctor_own_output,
         "reuse_desc": p_reuse_desc, "checksum_order": p_checksum_order, "parse_order": p_parse_order,
         "ctor_pure": p_ctor_pure, "reuse_hdpub": p_reuse_hdpub,
         "defaults": p_defaults, "mw_flow": p_mw_flow, "share": p_share, "fail_retry": p_fail_retry,
         "caravan": p_caravan, "ground": p_ground, "checksum_is": p_checksum_is, "address_at": p_address_at}


def classify(v):
    return None


# ------------------------------------------------------------------ generators

MAIN_VERSIONS = ["0488b21e", "049d7cb2", "04b24746", "0295b43f", "02aa7ed3"]
TEST_VERSIONS = ["043587cf", "044a5262", "045f1cf6", "024289ef", "02575483"]
EDGE = [0, 1, 2 ** 31 - 2, 2 ** 31 - 1]


class Key:
    def __init__(self, ctx, net):
        r = ctx.rng
        self.net = net
        root = HDPrivateKey.from_seed(ctx.rbytes(r.choice([16, 32, 64])), network=net)
        coin = 0 if net == "mainnet" else 1
        mark = r.choice(["h", "'"])
        Key.count = getattr(Key, "count", 0) + 1
        shape = Key.count % 6
        if shape == 1:
            self.path = "m"                                   # the cosigner hands out its ROOT xpub: origin [xfp]
        elif shape == 3:
            self.path = "m/" + "/".join(str(r.choice([0, 1, 2147483647])) + r.choice(["", mark])
                                        for _ in range(r.randrange(1, 8)))
        elif shape == 5:
            self.path = f"m/{r.randrange(0, 2 ** 31)}{mark}"
        else:
            self.path = f"m/48{mark}/{coin}{mark}/{r.randrange(0, 3)}{mark}/2{mark}"
        self.node = root.traverse(self.path).pub
        self.xfp = root.fingerprint().hex()
        self.plain = self.node.xpub()

    def xpub(self, r, slip):
        if not slip:
            return self.plain
        vs = MAIN_VERSIONS if self.net == "mainnet" else TEST_VERSIONS
        return self.node.xpub(version=bytes.fromhex(r.choice(vs)))

    def rec(self, r, slip=False, idx=0):
        return [self.xfp, self.path, self.xpub(r, slip), idx]


def tables(recs):
    paths = sorted({_s(p) for _, p, _, _ in recs})
    xpubs = sorted({_s(k) for _, _, k, _ in recs})
    return [[p, impl_path_ok(p)] for p in paths], [[k, impl_hdparse(k)] for k in xpubs]


def construct_case(m, recs, cs="", srt=1):
    paths, xpubs = tables(recs)
    return ("corr", "construct", [m, recs, cs, srt, paths, xpubs])


def parse_case(m, fields, cs):
    paths = sorted({"m" + _s(p) for _, p, _, _ in fields})
    xpubs = sorted({_s(k) for _, _, k, _ in fields})
    children = []
    for _, _, k, i in fields:
        ok = impl_child(_s(k), i) is not None
        children.append([k, i, ok])
    return ("corr", "parse_struct", [m, fields, cs, [[p, impl_path_ok(p)] for p in paths],
                                     [[k, impl_hdparse(k)] for k in xpubs], children])


def address_case(m, net, recs, offset, chg, srt=1):
    derivs = [[k, i + (1 if chg else 0), offset, impl_derive(_s(k), i + (1 if chg else 0), offset)]
              for _, _, k, i in recs]
    return ("corr", "get_address", [m, net, recs, offset, chg, srt, derivs])


def rtext(r, n, alphabet=INPUT_CHARSET):
    return "".join(r.choice(alphabet) for _ in range(n))


def generate(ctx):
    r = ctx.rng
    quick = ctx.tier == "quick"
    yield ("prop", "vectors", [])
    yield ("prop", "regex_class", [])

    # ---- polymod and checksum on arbitrary texts
    for c in [0, 1, 31, 32, 2 ** 35 - 1, 2 ** 35, 2 ** 36, 2 ** 39, 2 ** 40 - 1] + [1 << k for k in range(35, 40)]:
        for v in (0, 1, 26, 31):
            yield ("corr", "poly_mod", [c, v])
            yield ("corr", "core_polymod", [c, v])
    for _ in range(ctx.n(300, 20000)):
        c, v = r.getrandbits(40), r.randrange(32)
        yield ("corr", "poly_mod", [c, v])
        yield ("corr", "core_polymod", [c, v])
    for ch in INPUT_CHARSET:                      # every character alone, doubled, tripled
        for k in (1, 2, 3):
            yield ("corr", "checksum", [ch * k])
            yield ("corr", "core_checksum", [ch * k])
            yield ("prop", "checksum_ref", [ch * k])
    for text, _ in VECTORS:
        yield ("corr", "checksum", [text])
        yield ("corr", "core_checksum", [text])
    for ln in list(range(0, 14)) + [r.randrange(14, 700) for _ in range(ctx.n(60, 3000))] + [2500, 2501, 2502]:
        t = rtext(r, ln)
        ctx.label("checksum/len%3=" + str(ln % 3))
        yield ("corr", "checksum", [t])
        yield ("corr", "core_checksum", [t])
        yield ("prop", "checksum_ref", [t])
    for _ in range(ctx.n(40, 1500)):              # foreign characters at random places
        t = list(rtext(r, r.randrange(1, 60)))
        t[r.randrange(len(t))] = r.choice(["\n", "\t", "\x00", "\x7f", "\xe9", "₿", "\U0001f600", "\x1f"])
        t = "".join(t)
        ctx.label("checksum/foreign-char")
        yield ("corr", "checksum", [t])
        yield ("corr", "core_checksum", [t])
        yield ("prop", "checksum_ref", [t])
    for z in [0, 1, 9, 10, 99, 100, 2 ** 31 - 1, 2 ** 31, 2 ** 64, -1, -10, -2 ** 31] + \
            [r.getrandbits(r.randrange(1, 70)) * r.choice([1, 1, -1]) for _ in range(ctx.n(40, 1000))]:
        yield ("corr", "dec", [z])
    for x in ["deadbeef", "DEADBEEF", "DeadBeef", "0123456g", "abcdef0", "abcdef012", "", "abcdef0\n", "abcdef01\n",
              "abcdef\n\n", "\nabcdef0", "abcde f0", "        ", "abcdef0\r"] + \
            [rtext(r, r.choice([7, 8, 8, 8, 9]), "0123456789abcdefABCDEFgG\n ") for _ in range(ctx.n(60, 2000))]:
        yield ("corr", "xfp_ok", [x])

    # ---- keys
    nmax = 4 if quick else 6
    pool = {net: [Key(ctx, net) for _ in range(ctx.n(nmax + 1, nmax + 4))] for net in NETS}
    sampled = []        # (m, recs) of valid wallets, for the substitution sweep
    wallets = []
    for n in range(1, nmax + 1):
        for m in range(1, n + 1):
            reps = 1 if (quick or n > 4) else 2
            for _ in range(reps):
                net = r.choice(NETS)
                keys = r.sample(pool[net], n)
                same_idx = r.random() < 0.7
                base = r.choice(EDGE + [r.randrange(2 ** 31)]) if r.random() < 0.5 else 0
                recs = [k.rec(r, slip=r.random() < 0.4, idx=base if same_idx else r.choice(EDGE + [r.randrange(2 ** 31)]))
                        for k in keys]
                wallets.append((m, n, net, recs))
    for m, n, net, recs in wallets:
        ctx.label(f"wallet/{n}-keys")
        if any(k[:4] not in (b"xpub", b"tpub", "xpub", "tpub") for _, _, k, _ in recs):
            ctx.label("wallet/slip132")
        yield construct_case(m, recs)
        yield construct_case(m, recs, srt=0)
        yield ("prop", "roundtrip", [m, recs])
        o = P2WSHSortedMulti(m, mkrecs(recs))
        sampled.append(str(o))
        good = o.checksum
        yield construct_case(m, recs, cs=good)
        yield construct_case(m, recs, cs=good[:-1] + ("q" if good[-1] != "q" else "p"))
        yield construct_case(m, recs, cs=good[:-1])
        # the structured parser against P2WSHSortedMulti.parse on the rendered text
        srecs = [[x["xfp"], x["path"][1:], x["xpub_parent"], x["account_index"]] for x in o.key_records]
        yield parse_case(m, srecs, good)
        yield parse_case(m, srecs, "")
        yield parse_case(m, srecs, good[1:] + good[0])
        raw = [[x, p[1:], k, i] for x, p, k, i in recs]
        yield parse_case(m, raw, "")                      # as supplied: unsorted, SLIP-132 versions kept
        if n <= 2 or not quick:
            yield parse_case(n + 1, srecs, "")            # threshold above n
            yield parse_case(0, srecs, "")
        # permutations
        perms = list(itertools.permutations(range(n)))
        if n > 4:
            perms = r.sample(perms, ctx.n(10, 40))
        for pi, perm in enumerate(perms):
            with_addr = (n <= 2) or (not quick and n <= 3) or pi == len(perms) - 1
            off = r.choice(EDGE + [r.randrange(2 ** 31)])
            if with_addr and any(i == 2 ** 31 - 1 for _, _, _, i in recs):
                chg = 0
            else:
                chg = r.randrange(2)
            ctx.label("permutation")
            yield ("prop", "order", [m, recs, list(perm), with_addr, off, chg])
            if pi % 5 == 1:
                yield construct_case(m, [recs[i] for i in perm])
        # addresses
        norm = [[x["xfp"], x["path"], x["xpub_parent"], x["account_index"]] for x in o.key_records]
        offs = EDGE + [r.randrange(2 ** 31) for _ in range(2)]
        for off in (r.sample(offs, 2) if quick else offs):
            for chg in (0, 1):
                ctx.label("address/change" if chg else "address/receive")
                yield address_case(m, NETNUM[net], norm, off, chg)
            yield ("prop", "address", [m, recs, off])
        yield address_case(m, NETNUM[net], norm, 0, 0, srt=0)
        yield address_case(m, NETNUM[net], norm, -1, 0)
        yield address_case(m, NETNUM[net], norm, 2 ** 31, 0)
    # thresholds outside 1..16 and an account index whose change branch overflows
    k = pool["mainnet"][0]
    for m in (17, 16, 0, -1):
        yield address_case(m, 0, [k.rec(r)], 0, 0) if m >= 1 else construct_case(m, [k.rec(r)])
    yield address_case(1, 0, [k.rec(r, idx=2 ** 31 - 1)], 5, 1)
    yield address_case(1, 0, [k.rec(r, idx=2 ** 31 - 1)], 5, 0)
    yield address_case(1, 0, [k.rec(r, idx=-1)], 5, 1)
    yield address_case(1, 0, [k.rec(r, idx=-1)], 5, 0)
    for _ in range(ctx.n(30, 1000)):
        ks = [ctx.rbytes(33) for _ in range(r.randrange(0, 7))]
        if ks and r.random() < 0.5:
            ks.append(ks[0][:r.randrange(1, 33)] + ctx.rbytes(1))
            ks.append(ks[0][:r.randrange(0, 33)])
        r.shuffle(ks)
        yield ("corr", "sort_keys", [ks])

    # ---- malformed record sets
    a, b = pool["mainnet"][0], pool["mainnet"][1]
    t = pool["testnet"][0]
    good = a.rec(r)
    xp = a.plain
    bad_xpubs = [xp[:-1], xp[:-1] + ("1" if xp[-1] != "1" else "2"), "", "xpub", xp.replace("x", "y", 1), xp + "1",
                 HDPrivateKey.from_seed(b"\x07" * 16).xprv(), xp[:50] + "0" + xp[51:], xp.lower()]
    for bx in bad_xpubs:
        ctx.label("malformed/xpub")
        yield construct_case(1, [[a.xfp, a.path, bx, 0]])
        yield construct_case(1, [b.rec(r), [a.xfp, a.path, bx, 0]])
        if bx and "," not in bx and "]" not in bx:
            yield parse_case(1, [[a.xfp, a.path[1:], bx, 0]], "")
    for bp in ["", "m", "M/48h", " m/48h", "m/48h ", "m//48h", "x/1", "m/", "m/2147483648", "m/2147483647h", "m/-1",
               "m/1_0", "m/48H/0H", "/48h", "m/0x10", "m/" + "/".join(["1"] * 255), "m/" + "/".join(["1"] * 256)]:
        ctx.label("malformed/path")
        yield construct_case(1, [[a.xfp, bp, xp, 0]])
        yield ("prop", "ctor_own_output", [1, [[a.xfp, bp, xp, 0]]])
        if bp[:1] in ("m", "") and "," not in bp:
            yield parse_case(1, [[a.xfp, bp[1:], xp, 0]], "")
    for bf in ["", "deadbee", "deadbeef0", "DEADBEEF", "deadbeeg", "dead beef", "abcdef0\n"]:
        ctx.label("malformed/xfp")
        yield construct_case(1, [[bf, a.path, xp, 0]])
        yield ("prop", "ctor_own_output", [1, [[bf, a.path, xp, 0]]])
        if "\n" not in bf:
            yield parse_case(1, [[bf, a.path[1:], xp, 0]], "")
    for idx in [-1, 2 ** 31, 2 ** 31 - 1, -2 ** 31, 10 ** 20]:
        ctx.label("malformed/account-index")
        yield construct_case(1, [[a.xfp, a.path, xp, idx]])
        yield parse_case(1, [[a.xfp, a.path[1:], xp, idx]], "")
        yield ("prop", "ctor_own_output", [1, [[a.xfp, a.path, xp, idx]]])
    ctx.label("malformed/network-mix")
    yield construct_case(1, [a.rec(r), t.rec(r)])
    yield construct_case(1, [t.rec(r), a.rec(r, slip=True)])
    yield parse_case(1, [[a.xfp, a.path[1:], xp, 0], [t.xfp, t.path[1:], t.plain, 0]], "")
    yield construct_case(1, [])
    yield construct_case(3, [a.rec(r), b.rec(r)])          # m > n: accepted by the constructor (see manifest)
    yield ("prop", "ctor_own_output", [3, [a.rec(r), b.rec(r)]])
    yield construct_case(1, [a.rec(r), a.rec(r, idx=5)])    # the same xpub twice
    yield construct_case(1, [a.rec(r, idx=5), a.rec(r)])
    yield ("prop", "ctor_own_output", [1, [a.rec(r), a.rec(r, idx=5)]])

    def ptext_case(t):
        ctx.label("text/parse")
        p, x, c = record(P2WSHSortedMulti.parse, t)
        return ("corr", "parse_text", [t, json_table(t), p, x, c])

    def audit_cases(r):
        """round-3 audit cases; they run BEFORE the long text-layer / substitution sections (so that the engine's search for a
        failing input reaches them) on a random stream of their own derived from the run's seed (the streams of the
        sections that follow are unchanged)"""
        # ---- round-3 audit: alternative entry points, defaults, coincidences, character classes, per-element attributes,
        #      shared state (every expectation comes from the references of this file)
        def with_version(xpub, vhex):
            return ref_b58check_encode(bytes.fromhex(vhex) + ref_b58check_decode(xpub)[4:])

        def hetero(net, n):
            """records that differ in EVERY per-element attribute: account index (record j's change branch is another record's
            receive branch), path, fingerprint, SLIP-132 version; the versions are chosen so that the order of the supplied
            texts is the reverse of the order of the normalised xpubs, and the supplied order is neither"""
            keys = sorted(r.sample(pool[net], n), key=lambda k: k.plain)
            vs = MAIN_VERSIONS if net == "mainnet" else TEST_VERSIONS
            desc = sorted(vs, key=lambda v: with_version(keys[0].plain, v)[:4], reverse=True)
            above = [v for v in desc if with_version(keys[0].plain, v)[:4] > keys[0].plain[:4]]
            order = (above[:min(n - 1, len(above))] + [vs[0]] + [v for v in desc if v not in above and v != vs[0]] + desc[-1:] * n)[:n]
            idxs = [1, 0, 7, 2 ** 31 - 2, 2, 5]
            recs = [[k.xfp, k.path, with_version(k.plain, order[j]), idxs[j]] for j, k in enumerate(keys)]
            assert any(q[2] == k.plain for q, k in zip(recs, keys)) and any(q[2] != k.plain for q, k in zip(recs, keys))
            return recs[1:] + recs[:1]

        hets = [(2, "mainnet", hetero("mainnet", 3)), (1, "testnet", hetero("testnet", 2))]
        if not quick:
            hets += [(3, "testnet", hetero("testnet", 4)), (2, "mainnet", hetero("mainnet", 6))]
        for m, net, recs in hets:
            n = len(recs)
            ctx.label("audit/hetero-wallet")
            exp = ref_expected(m, recs)
            sup = [ref_norm_xpub(k)[0] for _, _, k, _ in recs]
            assert sorted(sup) != sup and sorted(k for _, _, k, _ in recs) != [k for _, _, k, _ in sorted(recs, key=lambda q: ref_norm_xpub(q[2])[0])]
            ctx.label("audit/slip132-order-differs-from-xpub-order")
            yield construct_case(m, recs)
            yield construct_case(m, recs, srt=0)
            yield construct_case(m, recs, cs=exp[2])
            yield ("prop", "roundtrip", [m, recs])
            norm = [[q["xfp"], q["path"], q["xpub_parent"], q["account_index"]] for q in exp[0]]
            off = r.choice([0, 1, 2 ** 31 - 1, r.randrange(2 ** 31)])
            for chg in (0, 1):
                yield address_case(m, NETNUM[net], norm, off, chg)
            yield address_case(m, NETNUM[net], norm, off, 1, srt=0)
            yield ("prop", "address", [m, recs, off])
            yield ("prop", "order", [m, recs, list(reversed(range(n))), int(n == 3 or not quick), off, 1])
            yield ("prop", "defaults", [m, recs, off])
            yield ("prop", "share", [m, recs, off, n % 2])
            if n != 3 or not quick:
                yield ("prop", "fail_retry", [m, recs, off])
            yield ("prop", "caravan", [m, recs, ["name %d" % j for j in range(n)]])
            plain = [[x, p, ref_norm_xpub(k)[0], i] for x, p, k, i in recs]
            canon = [q for q in plain if impl_path_ok(q[1]) and q[1] == q[1].strip() and q[1][:1] == "m"]
            if len(canon) == n:
                ctx.label("audit/multiwallet-flow")
                if n == 3 or not quick:
                    yield ("prop", "mw_flow", [m, plain, [1] * n, off])
                yield ("prop", "mw_flow", [m, plain, [j % 2 for j in range(n)], off])
                if n != 3 or not quick:
                    yield ("prop", "mw_flow", [m, [[x, p, k, i] for (x, p, _, i), (_, _, k, _) in zip(plain, recs)], [0] * n, off])
        # one wallet of the ordinary kind whose children (offset 0, receive) sort differently from their parents
        for m, n, net, recs in sorted(wallets, key=lambda w: w[1]):
            if n >= 2 and all(i + 1 < 2 ** 31 for _, _, _, i in recs):
                e = ref_expected(m, recs)
                secs = [ref_child_sec(q["xpub_parent"], q["account_index"], 0) for q in e[0]]
                if secs != sorted(secs):
                    ctx.label("audit/children-sort-differently")
                    yield ("prop", "defaults", [m, recs, r.randrange(2 ** 31)])
                    yield ("prop", "caravan", [m, recs, ["a", "b", "c", "d", "e", "f"][:n]])
                    break
        # (c) two slots with the same xpub: different branches, neighbouring branches (change of one = receive of the other),
        #     the very same key twice; network taken from a record other than the first
        a, b, t = pool["mainnet"][0], pool["mainnet"][1], pool["testnet"][0]
        for i0, i1 in ((0, 1), (3, 3), (5, 0)):
            ctx.label("audit/same-xpub-twice")
            dup = [a.rec(r, idx=i0), a.rec(r, idx=i1)]
            if i0 == 0:
                yield address_case(2, 0, dup, 0, 0)
                yield address_case(2, 0, dup, 0, 1)
                yield ("prop", "defaults", [1, dup, 2])
            else:
                yield address_case(1, 0, dup, 1, int(i0 == 3), srt=int(i0 == 3))
            yield ("prop", "address_at", [2, dup, 1, int(i0 == 3), int(i0 != 5)])
        for recs in ([a.rec(r), b.rec(r), t.rec(r)], [t.rec(r), pool["testnet"][1].rec(r), a.rec(r, slip=True)],
                     [a.rec(r, slip=True), t.rec(r, slip=True), b.rec(r)]):
            ctx.label("audit/network-mix-3")
            yield construct_case(1, recs)
            yield construct_case(1, recs, srt=0)
            yield parse_case(1, [[x, p[1:], k, i] for x, p, k, i in recs], "")
        # (d) fingerprints of one character class
        for xf in ["00000000", "12345678", "99999999", "ffffffff", "abcdefab", "ABCDEFAB", "0000000a", "a0000000", "0e000000",
                   "1e999999", "00000inf", "0x000000", "000000_0", "+0000000", " 0000000", "0000000 "]:
            ctx.label("audit/xfp-class")
            yield construct_case(1, [[xf, a.path, a.plain, 0]])
            yield parse_case(1, [[xf, a.path[1:], a.plain, 0]], "")
            yield ("prop", "ctor_own_output", [1, [[xf, a.path, a.plain, 0]]])
        # (e) a character outside the descriptor charset inside an otherwise valid path (is_valid_bip32_path is forgiving)
        for bp in ["m/48h/\t1", "m/48h/1\n", "m/\x0b1", "m/1\x1f/2", "m/1\xa0", "m/\u20031"]:
            ctx.label("audit/foreign-char-in-path")
            yield ("prop", "ctor_own_output", [1, [[a.xfp, bp, a.plain, 0]]])
            if bp.isascii():      # the text layer of the model is ASCII (see ASSUMPTIONS): Unicode blanks only through the predicate
                yield construct_case(1, [[a.xfp, bp, a.plain, 0]])
                yield ptext_case(f"wsh(sortedmulti(1,[{a.xfp}{bp[1:]}]{a.plain}/0/*))")
        # (d) checksum texts of a single character class, and texts / descriptors whose CHECKSUM is of an unusual class
        for g in range(3):
            alpha = INPUT_CHARSET[32 * g: 32 * g + 32]
            for ln in list(range(1, 10)) + [30, 31, 32, 299, 300, 301]:
                tx = rtext(r, ln, alpha)
                ctx.label("audit/checksum-one-group")
                yield ("corr", "checksum", [tx])
                yield ("corr", "core_checksum", [tx])
                yield ("prop", "checksum_ref", [tx])
        for alpha in ["0123456789", "abcdefghijklmnopqrstuvwxyz", "ABCDEFGHIJKLMNOPQRSTUVWXYZ", "()[],'/*@:$%{}&+-.;<=>?!^_|~`#\"\\ ",
                      "0", " ", "~", "q", "Z", "\\"]:
            for ln in (8, 99, 100, 101):
                tx = rtext(r, ln, alpha)
                ctx.label("audit/checksum-char-class")
                yield ("corr", "checksum", [tx])
                yield ("prop", "checksum_ref", [tx])
        for tx, cs in GROUND_TEXTS:
            ctx.label("audit/ground-checksum")
            yield ("corr", "checksum", [tx])
            yield ("prop", "checksum_is", [tx, cs])
        for idx, cs in GROUND:
            ctx.label("audit/ground-descriptor")
            yield ("prop", "ground", [idx, cs])
            yield ptext_case(GROUND_PRE + "%d/*))#%s" % (idx, cs))

    import random as _random
    yield from audit_cases(_random.Random(f"C16-audit:{ctx.seed}:{ctx.scale}"))

    # ---- text layer: int(), split/join, the key-record regex, parse_partial/full/any_key_record on text
    for t in ["0", "00", "7", "+1", "-1", "-0", " 1", "1 ", "\t1\n", "\x0b1\x0c", "\x1c1", "1\x1f", "1_0", "_1", "1_", "1__0",
              "", " ", "+", "-", "+-1", "++1", "1 0", "0x10", "1e3", "1.0", "+ 1", "1+", "2147483647", "2147483648",
              "-2147483649", "1" * 4300, "1" * 4301, "0" * 4301, "+" + "9" * 4300, " " + "1_" * 2149 + "1", "1_" * 4300 + "1",
              "*", "/", "a"]:
        ctx.label("text/int")
        yield ("corr", "py_int", [t])
    for _ in range(ctx.n(150, 5000)):
        yield ("corr", "py_int", [rtext(r, r.randrange(0, 8), "0123456789_+- \t\n\x0b\x1c")])
    for _ in range(ctx.n(60, 2000)):
        t = rtext(r, r.randrange(0, 12), "ab/,/,")
        sep = r.choice([47, 44])
        yield ("corr", "split_on", [sep, t])
        yield ("corr", "join_on", [sep, t.split(chr(r.choice([47, 44])))])
    yield ("corr", "join_on", [47, []])
    yield ("corr", "join_on", [47, [""]])
    yield ("corr", "join_on", [47, ["", ""]])

    def text_cases(t):
        ctx.label("text/key-record")
        yield ("corr", "re_key_record", [t])
        p, x, c = record(descriptor.parse_partial_key_record, t)
        yield ("corr", "parse_partial", [t, p, x])
        p, x, c = record(descriptor.parse_full_key_record, t)
        yield ("corr", "parse_full", [t, p, x, c])
        p, x, c = record(descriptor.parse_any_key_record, t)
        yield ("corr", "parse_any", [t, p, x, c])

    seen_kr = set()
    kr_texts = []
    for m, n, net, recs in wallets[: ctx.n(6, 40)]:
        x, p, k, i = r.choice(recs)
        kr_texts.append((f"[{x}{p[1:]}]{k}", i))
    k0 = pool["mainnet"][0]
    kr_texts.append((f"[{k0.xfp}]{k0.plain}", 0))
    kr_texts.append((f"[{k0.xfp}/48h/0h]{k0.plain}", 2 ** 31 - 1))
    for part, idx in kr_texts:
        full = f"{part}/{idx}/*"
        variants = [full, part, part + "/*", part + "/" + str(idx), full + "/*", full + "\n", full + "\njunk", part + "\n/0/*",
                    "*", "0/*", "/0/*", "", "[", "[]", part + "/+0/*", part + "/ 0/*", part + "/0 /*", part + "/0_0/*",
                    part + "/-1/*", part + "/2147483648/*", part + "/2147483647/*", part + "//*", part + "/x/*",
                    part + "/0/**", part + "/0/* ", " " + full, part[:9] + "*" + part[9:] + "/0/*",
                    part[:9] + "**" + part[9:] + "/0/*", part.replace("]", "]]", 1) + "/0/*",
                    part.replace("]", "]/]", 1) + "/0/*", part.replace("]", "\n]", 1) + "/0/*",
                    part.replace("]", "]-", 1) + "/0/*", part.replace("]", "", 1) + "/0/*",
                    part[:1] + part[1:9].upper() + part[9:] + "/0/*", part[:8] + part[9:] + "/0/*",
                    part[:9] + "0" + part[9:] + "/0/*", part + "," + full, part.replace("/", "\\/") + "/0/*",
                    part + "/" + "0" * 4300 + "/*", part + "/" + "0" * 4301 + "/*"]
        for _ in range(ctx.n(25, 300)):           # single-character damage at a random place
            pos = r.randrange(len(full))
            variants.append(full[:pos] + r.choice(INPUT_CHARSET + "\n") + full[pos + 1:])
            variants.append(full[:pos] + full[pos + 1:])
        for t in variants:
            if t in seen_kr:
                continue
            seen_kr.add(t)
            yield from text_cases(t)
    for m, n, net, recs in wallets[: ctx.n(5, 30)]:
        yield ("corr", "m_of_n", [m, recs])
    yield ("corr", "m_of_n", [17, []])

    # ---- P2WSHSortedMulti.parse on text: strip, JSON account map, escaped slashes, the full-match regex
    for _ in range(ctx.n(80, 3000)):
        yield ("corr", "unescape", [rtext(r, r.randrange(0, 9), "\\\\//a")])
        yield ("corr", "strip", [rtext(r, r.randrange(0, 7), " \t\n\x0b\x0c\r\x1c\x1d\x1e\x1f\x00\x08ab{")])
    pieces = ["wsh(sortedmulti(", "wsh(sortedmulti(", "wsh(sortedmulti", "Wsh(sortedmulti(", "1", "12", "", ",", ",", "a", "))",
              "))", ")", "#", "#", "qpzry9x8", "qpzry9x", "qpzry9x8g", "qpzry9xb", "\n", " ", "x"]
    for _ in range(ctx.n(300, 10000)):
        k = r.randrange(8)
        if k < 5:
            t = "wsh(sortedmulti(" + r.choice(["1", "", "03", "2x"]) + r.choice([",", ",", ""]) + \
                "".join(r.choice(pieces[10:]) for _ in range(r.randrange(0, 6)))
        else:
            t = "".join(r.choice(pieces) for _ in range(r.randrange(0, 8)))
        ctx.label("text/outer-regex")
        yield ("corr", "outer_groups", [t])

    import json as _json
    for text in sorted(sampled, key=len)[: ctx.n(3, 12)]:
        body, _, cs = text.rpartition("#")
        other = "".join(CHECKSUM_CHARSET[(CHECKSUM_CHARSET.index(c) + 7) % 32] for c in cs)
        vs = [text, body, "  " + text + "\n", "\t" + body + " \x1f", text.replace("/", "\\/"), body.replace("/", "\\/", 3),
              _json.dumps({"label": "w", "blockheight": 0, "descriptor": text}),
              " " + _json.dumps({"descriptor": " " + text + " ", "devices": []}).replace("/", "\\/") + "\n",
              _json.dumps({"label": "w", "descriptor": body + "#" + other}), _json.dumps({"descriptor2": text}),
              _json.dumps({"descriptor": 5}), _json.dumps({"descriptor": None}), _json.dumps({"descriptor": [text]}),
              "{", "{}", "{" + text, _json.dumps([text]), _json.dumps(text), "{\"descriptor\": \"" + text + "\"} x",
              text + "x", text + " x", "x" + text, "sh(" + text + ")", body + "#" + other, body + "#" + cs[:-1], body + "#" + cs + "q",
              body + "#", body + "##" + cs, body[:-1] + "#" + cs, body[:-2] + "#" + cs, body + ")#" + cs, body + "))#" + cs,
              body + "#" + cs + "))", body + cs, body + "#" + cs.upper(), text.replace("\n", ""), body[:40] + "\n" + body[40:],
              body[:40] + "#" + body[40:], body[:40] + "#" + body[40:] + "#" + cs, text.replace(",[", ",[*", 1), body.replace(",[", ",[*", 1),
              body.replace("/*", "/ *", 1), body.replace("/*,", "/*, ", 1), body.replace("/*", "/**", 1)]
        for sep in r.sample([c for c in INPUT_CHARSET if c != "#"], ctx.n(6, 30)) + ["\n", "\\", "/"]:
            vs.append(body + sep + cs)
        mstr = body[len("wsh(sortedmulti("):body.index(",")]
        rest = body[body.index(","):]
        for ms in ["", "0" + mstr, "+" + mstr, " " + mstr, mstr + " ", "0", "9", mstr + "_0", "1" * 4301]:
            vs.append("wsh(sortedmulti(" + ms + rest)
        i0 = body.index("]")
        j0 = body.index("/*", i0)
        k0_ = body.rindex("/", 0, j0)
        idx = body[k0_ + 1:j0]
        for ix in ["+" + idx, " " + idx, idx + " ", "0" + idx, idx + "_0", "", "-1", "2147483648", "x"]:
            vs.append(body[:k0_ + 1] + ix + body[j0:])
            vs.append(body[:k0_ + 1] + ix + body[j0:] + "#" + cs)
        vs.append(body[:i0 - 3] + body[i0 - 3:i0].upper() + body[i0:])
        x0 = body.index("[") + 1
        vs.append(body[:x0] + body[x0:x0 + 8].upper() + body[x0 + 8:])
        for _ in range(ctx.n(12, 120)):
            pos = r.randrange(len(text))
            vs.append(text[:pos] + r.choice(INPUT_CHARSET) + text[pos + 1:])
        seen_t = set()
        for t in vs:
            if t not in seen_t:
                seen_t.add(t)
                yield ptext_case(t)

    # ---- the hypotheses of the round-trip theorems about hd.py, checked on the implementation
    palpha = "mM/0123456789hH' \t_+-x],\\#*"
    for _ in range(ctx.n(400, 20000)):
        k = r.randrange(4)
        if k == 0:
            pth = rtext(r, r.randrange(0, 10), palpha)
        else:
            pth = r.choice(["m", "M", " m", "m ", "\tM"]) + "".join(
                "/" + r.choice(["", " ", "+"]) + str(r.choice([0, 1, 48, 2 ** 31 - 1, 2 ** 31, r.randrange(2 ** 31)]))
                + r.choice(["", "h", "H", "'", " ", "_0", "]", "*", ","]) for _ in range(r.randrange(0, 5))) + r.choice(["", " ", "\n", "/"])
        ctx.label("assumption/path")
        yield ("prop", "path_assumptions", [pth])
        yield ("corr", "path_valid", [pth])
    for pth in ["", "m", "M", "m/", "/", "m//", "m///1", "m//1", "m/1//2", "m/1///2", "'m", "m/'", "m/h", "m/1h", "m/1'", "m/1H", "m/1hh",
                "m/1'h", "m/-0", "m/+0", "m/-1", "m/2147483647", "m/2147483648", "m/2147483647h", "m/ 1", "m/1 ", "m/1\t/2", "m/1\n/2",
                "m/1\n", "\nm/1", "m/1_0", "m/_1", "m/1_", "m/0x1", "m/1e1", "n/1", "mm/1", "m1", "m/m", "m/1/m", "\x1cm/1", "m/1\x1c",
                "m/\x1c1", "m/" + "0" * 4300, "m/" + "0" * 4301, "m/" + "0" * 4300 + "h", "m/" + "0" * 4301 + "h",
                "m/" + "/".join(["1"] * 255), "m/" + "/".join(["1"] * 256), "m/" + "/".join(["1"] * 255) + "/",
                "m/" + "//".join(["1"] * 255), "m" + "/1" * 254 + "//", "m/48h/0h/0h/2h", "M/48H/0'/0h/2H", " m/48h ", "m/48h/", "m/ /1"]:
        ctx.label("path/edge")
        yield ("corr", "path_valid", [pth])
        yield ("prop", "path_assumptions", [pth])
    for net in NETS:
        for kk in pool[net]:
            ctx.label("assumption/xpub")
            yield ("prop", "xpub_assumptions", [kk.plain])
            yield ("prop", "xpub_assumptions", [kk.xpub(r, True)])

    # ---- single-character substitutions
    sizes = sorted(sampled, key=len)
    sweep_full = sizes[:1] if quick else sizes[:3] + [sizes[-1]]
    for text in sweep_full:
        for pos in range(len(text)):
            ctx.label("substitution/exhaustive-position")
            yield ("prop", "subst", [text, pos])
    rest = [s for s in sampled if s not in sweep_full]
    for text in rest:
        for pos in r.sample(range(len(text)), ctx.n(6, 60)) + list(range(len(text) - 9, len(text))):
            ctx.label("substitution/sampled-position")
            yield ("prop", "subst", [text, pos])
    for text in sampled[: ctx.n(3, 20)]:
        yield ("prop", "subst_separator", [text])

    # ---- one object used repeatedly: stale memoised state on descriptor / key objects, coarse module-level caches
    small = [w for w in wallets if w[1] <= 3 and all(i + 1 < 2 ** 31 for _, _, _, i in w[3])]
    for num in range(ctx.n(3, 12)):
        ws = r.sample(small, 2)
        spares = [k.plain for net in NETS for k in pool[net]]
        ctx.label("reuse/descriptor")
        yield ("prop", "reuse_desc", [[[m, recs] for m, n, net, recs in ws], spares, r.getrandbits(30), ctx.n(22, 40)])
    for m, n, net, recs in small[: ctx.n(3, 20)]:
        ctx.label("reuse/ctor-pure")
        yield ("prop", "ctor_pure", [m, recs, r.choice(EDGE + [r.randrange(2 ** 31)])])
    for _ in range(ctx.n(4, 60)):
        base = r.choice(sampled).rpartition("#")[0]
        seq = []
        for _ in range(12):
            k = r.randrange(5)
            if k == 0:
                seq.append(base)
            elif k == 1:
                i = r.randrange(len(base))
                seq.append(base[:i] + r.choice(INPUT_CHARSET) + base[i + 1:])
            elif k == 2:
                seq.append(base[: r.randrange(len(base))])
            elif k == 3:
                seq.append(r.choice(sampled).rpartition("#")[0])
            else:
                seq.append(rtext(r, len(base)))
        ctx.label("reuse/checksum-order")
        yield ("prop", "checksum_order", [seq])
    shortest = sorted(sampled, key=len)[:3]
    for _ in range(ctx.n(1, 10)):
        ts = r.sample(shortest, 2)
        ctx.label("reuse/parse-order")
        order = [[0, 0], [1, 0], [0, 2], [1, 2], [0, 1], [1, 1], [0, 2]]
        yield ("prop", "parse_order", [ts, order + [[r.randrange(2), r.randrange(3)] for _ in range(ctx.n(3, 12))]])
    for net in NETS:
        k = r.choice(pool[net])
        idxs = [[r.choice([0, 1, 2, 256, 2 ** 16, 2 ** 31 - 1]), r.choice([0, 1, 5, 257, 2 ** 31 - 1])] for _ in range(ctx.n(6, 20))]
        ctx.label("reuse/hdpublickey")
        yield ("prop", "reuse_hdpub", [k.plain, idxs])
